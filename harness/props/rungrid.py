"""C10, C11, C12 (+ the refinement-history half of C06): RunGrid.tla checked by TLC, behaviours replayed on the real
run(), traces of the real run() validated by TLC against RunGridTrace.tla."""
import os
import random
import glob
import shutil
import json

from .. import tlc
from ..common import Report, MachineryError, workdir, seed, WORK
from ..rungrid_world import Geometry, GROUP_TLA, GROUPS
from .. import rungrid_scripts as RS
from .. import rungrid_trace as RT

PROPS = {
    "C10": dict(level='model_checking', technique='TLC exhaustive on RunGrid.tla + TLC trace validation of real run() executions (hook events) + replay of TLC simulate behaviours',
               text='TLC explores every refinement choice, storage mode, symmetry setting and iteration order inside small constants and checks IntegralConsistent / WeightOne / SavedWeightOne on every state; the same invariants are evaluated by TLC on every state of traces recorded from the real run() (scenarios derived from TLC behaviours and seeded random ones), with the projected K-list, weights, running-integral coefficients and files compared with the specification after every event.',
               note='trusts: the one-hot abstraction of per-K results, the projection functions in harness/rungrid_world.py, TLC; bounded to the listed geometries', ref='DESIGN.md 3.1'),
    "C11": dict(level='model_checking', technique='TLC exhaustive A/B product (uninterrupted vs stopped+restarted run) on RunGrid.tla + trace validation of real stop/restart executions with permuted directory listings',
               text='RestartEquivalence is checked by TLC over all stopping points, splits, storage modes and listing permutations inside the constants; real run() calls are stopped and restarted along TLC-generated and random scenarios with a listing-order shim, and TLC validates the recorded traces including equality of every saved/returned result with the uninterrupted reference.',
               note='trusts: same as C10 plus the glob shim (only permutes the real listing)', ref='DESIGN.md 3.1'),
    "C12": dict(level='model_checking', technique='TLC exhaustive over completion orders and ray.wait answers on RunGrid.tla + trace validation of the real process() under a schedule-controlled ray double + numeric serial-vs-parallel comparison with real calculators',
               text='CollectedOnce / AllCollected / IntegralConsistent are checked by TLC for every interleaving of completions and every contract-conforming ray.wait answer; the unmodified process() is driven through those schedules and its traces validated; grid and path tabulations are compared serial vs parallel (path order).',
               note='trusts: the ray double follows the documented ray.wait contract (one real-ray smoke run in the thorough tier)', ref='DESIGN.md 3.1'),
}

INVS_ALL = ["TypeOK", "NoError", "WeightOne", "NoEquivDup", "OrbitWeight", "DistinctStoragePaths", "Tiling", "IntegralConsistent",
            "SavedWeightOne", "ReturnedWeightOne", "CollectedOnce", "AllCollected", "RestartEquivalence"]


def bset(vals):
    return "{" + ", ".join("TRUE" if v else "FALSE" for v in vals) + "}"


def mc_cfg(geo, nstep=2, niter=2, adptfac=1, parA=(False,), parB=(False,), dump=(False, True), allowA=(False, True),
           sym=(True, False), withB=True, allorders=True, acc=True, sorted_listing=True, waitfirst=False, view=True,
           restart_iters=(1,),
           invs=INVS_ALL, props=("PickleAppendOnly", "FactorFilesGrow", "ResumeLatest")):
    lines = ["SPECIFICATION MCSpec", "CONSTANTS",
             f"  D = {geo.D}", f"  N = {geo.N}", f"  NDIV = {geo.NDIV}", f"  LMAX = {geo.LMAX}",
             f"  Group <- {GROUP_TLA[geo.group]}", f"  NSTEP = {nstep}",
             f"  Accumulate = {'TRUE' if acc else 'FALSE'}", f"  SortedListing = {'TRUE' if sorted_listing else 'FALSE'}",
             f"  WaitFirstN = {'TRUE' if waitfirst else 'FALSE'}",
             f"  CellSymmetric = {'FALSE' if GROUPS[geo.group].get('hex') else 'TRUE'}", f"  NITER = {niter}", f"  AdptFac = {adptfac}",
             f"  ParA = {bset(parA)}", f"  ParB = {bset(parB)}", f"  DumpSet = {bset(dump)}", f"  AllowASet = {bset(allowA)}",
             f"  SymSet = {bset(sym)}", f"  WithB = {'TRUE' if withB else 'FALSE'}",
             f"  AllOrders = {'TRUE' if allorders else 'FALSE'}",
             "  RestartIters = {" + ", ".join(str(r) for r in restart_iters) + "}"]
    if view:
        lines.append("VIEW mcview")
    lines += [f"INVARIANT {i}" for i in invs]
    lines += [f"PROPERTY {p}" for p in props]
    lines.append("CHECK_DEADLOCK FALSE")
    return "\n".join(lines) + "\n"


def exhaustive(rep, name, cfg, must_hold=True, timeout=1500, expect_actions=()):
    st = tlc.run_tlc("MC_RunGrid.tla", cfg, name, workers=16, timeout=timeout)
    if st.get("timeout"):
        raise MachineryError(f"TLC timed out on {name}")
    if st.get("error") and not st.get("violation"):
        raise MachineryError(f"TLC error on {name}: {st['error'][:400]}")
    if must_hold:
        if st["violation"]:
            rep.violation(f"spec:{name}:{st['violation'][1]}",
                          dict(what="TLC found a violation in the specification model", config=name, violated=st["violation"],
                               tlc_out=os.path.join(st["meta"], "tlc.out")))
        else:
            tlc.check_not_vacuous(st, expect_actions, name)
        rep.add_tlc(name, st)
    else:
        # sensitivity self-test: the model of the unrepaired code must violate the property
        if not st["violation"]:
            raise MachineryError(f"sensitivity self-test failed: {name} should violate an invariant but TLC found none")
        rep.part(name, sensitivity_violation=st["violation"][1], distinct=st["distinct"])
    return st


def simulate_scripts(geo, cfg, name, num, depth, sd):
    simdir = workdir("sim_" + name)
    st = tlc.run_tlc("MC_RunGrid.tla", cfg, "sim_" + name, workers=1, coverage=False, timeout=600,
                     simulate=f"file={simdir}/tr,num={num}", depth=depth, seed=sd)
    if st.get("violation"):
        return st, []
    if st.get("error"):
        raise MachineryError(f"TLC simulate error on {name}: {st['error'][:400]}")
    behs = RS.load_behaviours(simdir)
    shutil.rmtree(simdir, ignore_errors=True)
    return st, [RS.script_from_behaviour(b) for b in behs]


def summarize_ops(ops):
    out = []
    for o in ops:
        if o["op"] == "markref":
            out.append("MarkRef")
        else:
            m = o["mode"]
            out.append(dict(run="restart" if o["restart"] else "fresh", nit=o["nit"],
                            mode="".join(k[0] for k in ("par", "dump", "allow", "sym") if m[k]),
                            listing=o.get("listing"), refine=[[list(c[0]) + [c[1]] for c in cs] for _, cs in o.get("refine", [])],
                            sched={str(k): v for k, v in o.get("sched", {}).items()}))
    return out


class Batch:
    """collects traces per (geometry, nstep) and validates them together"""

    def __init__(self, rep, pid):
        self.rep = rep
        self.pid = pid
        self.groups = {}

    def add(self, geo, nstep, trace, info):
        self.groups.setdefault((geo.key(), nstep), (geo, [], []))
        g = self.groups[(geo.key(), nstep)]
        g[1].append(trace)
        g[2].append(info)

    def validate(self, name):
        for (gk, nstep), (geo, traces, infos) in self.groups.items():
            nm = f"{name}_{'_'.join(str(x) for x in gk)}_{nstep}"
            st, verdicts = RT.validate(traces, geo, nstep, nm)
            self.rep.add_tlc("trace_" + nm, st)
            self.rep.add_traces(len(traces))
            for tr, info, v in zip(traces, infos, verdicts):
                if not v["ok"]:
                    key = f"trace:{v.get('clause', '?')}"
                    self.rep.violation(key, dict(why=v["why"], geometry=gk, nstep=nstep, scenario=info,
                                                 trace_prefix=tr[:v["at"] + 1][-4:]))
        self.groups = {}


def run_scripts(rep, batch, geo, scripts, name, adpt_fac=1, ncpu=2, origin="tlc-behaviour"):
    wd = workdir("rg_" + name)
    for i, ops in enumerate(scripts):
        if not any(o["op"] == "run" for o in ops):
            continue
        ev, errs, w = RS.execute(ops, geo, os.path.join(wd, f"s{i}"), adpt_fac=adpt_fac, ncpu=ncpu)
        info = dict(origin=origin, ops=summarize_ops(ops), adpt_fac=adpt_fac, ncpu=ncpu)
        if w.problems:
            info["projection_problems"] = w.problems[:3]
        batch.add(geo, ncpu, ev, info)
        rep.case((geo.key(), json.dumps(info["ops"], sort_keys=True, default=str)))
        rep.sample(dict(geometry=geo.key(), scenario=info["ops"], events=len(ev)), limit=3)
    shutil.rmtree(wd, ignore_errors=True)


def run_random(rep, batch, geo, rng, n, niter, name, adpt_fac=1, ncpu=2, allow_par=True):
    wd = workdir("rgr_" + name)
    for i in range(n):
        ev, errs, w, summary = RS.execute_random(geo, os.path.join(wd, f"r{i}"), rng, niter, adpt_fac=adpt_fac, ncpu=ncpu,
                                                 allow_par=allow_par)
        info = dict(origin="random", ops=summary, adpt_fac=adpt_fac, ncpu=ncpu, seed=seed(), index=i)
        batch.add(geo, ncpu, ev, info)
        rep.case((geo.key(), "random", i, seed(), name))
    shutil.rmtree(wd, ignore_errors=True)


def selftest_binding(rep, geo, pid="x"):
    """the binding must be able to reject: corrupt one logged weight / drop one event of a good trace"""
    import copy
    ops = [dict(op="run", restart=False, mode=dict(par=False, dump=False, allow=True, sym=True), nit=1, refine=[], sched={})]
    ev, errs, w = RS.execute(ops, geo, os.path.join(workdir(f"rg_selftest_{pid}"), "s"))
    bad1 = copy.deepcopy(ev)
    for e in bad1:
        if e["e"] == "UpdateIntegral":
            e["coef"]["coef"][0] += 1
            break
    bad2 = [e for i, e in enumerate(ev) if not (e["e"] == "Eval" and e.get("k") == 1)]
    st, v = RT.validate([ev, bad1, bad2], geo, 2, f"selftest_{pid}")
    if not v[0]["ok"] or v[1]["ok"] or v[2]["ok"]:
        raise MachineryError(f"binding self-test failed: {v}")
    rep.part("binding_selftest", good_accepted=True, corrupted_weight_rejected=v[1]["why"], dropped_event_rejected=v[2]["why"])


def large_worlds(rep, rng, thorough):
    """C10 where weights and weight changes are tiny (1e-3 .. 2e-7): deep refinement on a 32x32 grid; compact records
    of every UpdateIntegral / Return validated by TLC (RunGridSummaryRec)"""
    import random as _r
    from .. import ftable
    from ..rungrid_world import World
    recs = []
    plans = [("none", False, False), ("c4", True, False), ("none", False, True)]
    if thorough:
        plans += [("c4v", True, True), ("mx", True, False), ("none", False, False)]
    wd = workdir("rg_large")
    for j, (group, sym, dump) in enumerate(plans):
        geo = Geometry(2, 32, 2, 6, group).use_registry(1500)
        w = World(geo, os.path.join(wd, f"w{j}"))
        sd = rng.randrange(1 << 30)

        def pri(cell, lev, sd=sd):
            r = _r.Random(hash((cell, lev, sd)))
            return float(r.choice([1, 2, 3, 5, 7])) * 1.0e3 ** lev   # deep-first: children outrank everything older
        w.calc.pri = pri
        res, err = w.run(6, allow=dump, dump=dump, sym=sym, adpt_fac=2, summary=True)
        if err:
            rep.violation("large_world:exception", dict(group=group, sym=sym, dump=dump, error=err))
        if w.problems:
            rep.violation("large_world:projection", dict(group=group, problems=w.problems[:3]))
        evs = [e for e in w.events if "nonintegral" not in e]
        if not evs or min(e["minpos"] for e in evs) * 10 ** 6 > 3 * geo.WTOT:
            raise MachineryError("large world did not reach weights below 3e-6")
        for e in evs:
            e["world"] = j
            recs.append(e)
        rep.case(("large", group, sym, dump, sd))
    shutil.rmtree(wd, ignore_errors=True)
    st, bad = ftable.validate_records("RunGridSummaryRec.tla", ftable.REC_CFG, recs, "c10_large")
    rep.add_tlc("c10_large_records", st)
    rep.add_traces(len(plans))
    for i, clauses in bad.items():
        rep.violation("large_world:" + clauses[0], dict(record=recs[i], failing_clauses=clauses))
    rep.part("large_worlds", runs=len(plans), records=len(recs), smallest_weight=min(e["minpos"] for e in recs) / recs[0]["wtot"])


GEOS = {
    "1d_inv": Geometry(1, 4, 2, 2, "inv"),
    "1d_inv3": Geometry(1, 3, 3, 2, "inv"),
    "1d_none": Geometry(1, 3, 2, 2, "none"),
    "2d_c4": Geometry(2, 2, 2, 2, "c4"),
    "2d_c4v": Geometry(2, 2, 2, 2, "c4v"),
    "2d_mx": Geometry(2, 2, 2, 1, "mx"),
    "1d_inv6": Geometry(1, 6, 2, 3, "inv"),
    "2d_c4_4": Geometry(2, 4, 2, 2, "c4"),
    "1d_one": Geometry(1, 1, 2, 3, "inv"),      # a single initial K-point of weight exactly one
    "2d_one": Geometry(2, 1, 2, 2, "c4"),
    "2d_h3": Geometry(2, 3, 3, 3, "h3"),        # hexagonal: children of different parents can be equivalent
    "2d_h3m": Geometry(2, 3, 3, 3, "h3m"),
}

RUN_ACTIONS = ["StartA", "RefineA"]


def check(pid, tier):
    level = "model_checking"
    rep = Report(pid, tier, level)
    rng = random.Random(seed() * 1000003 + {"C10": 10, "C11": 11, "C12": 12}[pid])
    thorough = tier == "thorough"
    batch = Batch(rep, pid)
    g1 = GEOS["1d_inv"]
    rep.assume("ray.wait follows its documented contract (at most num_returns ready refs; on timeout whatever is ready)")
    rep.assume("per-K results are abstracted to one-hot vectors, refinement choices are forced through result magnitudes")
    rep.rule("TLC: exhaustive exploration of MC_RunGrid within the listed constants; implementation: scenario scripts "
             "(TLC simulate behaviours + seeded random) executed on the real run(), every hook event validated by TLC "
             "against RunGridTrace; a case is distinct by (geometry, scenario)")
    selftest_binding(rep, g1, pid)

    if pid == "C10":
        # all storage modes, refinement meshes, adpt_fac, symmetry settings; no restart
        exhaustive(rep, "c10_1d", mc_cfg(g1, niter=2, adptfac=1, withB=False), expect_actions=RUN_ACTIONS)
        exhaustive(rep, "c10_1d_fac2", mc_cfg(g1, niter=2, adptfac=2, withB=False, allorders=True), expect_actions=RUN_ACTIONS)
        exhaustive(rep, "c10_1d_ndiv3", mc_cfg(GEOS["1d_inv3"], niter=2, adptfac=1, withB=False), expect_actions=RUN_ACTIONS)
        exhaustive(rep, "c10_2d_c4", mc_cfg(GEOS["2d_c4"], niter=2, adptfac=1, withB=False, allowA=(False,), dump=(False,)),
                   expect_actions=RUN_ACTIONS)
        if thorough:
            exhaustive(rep, "c10_2d_c4v_fac2", mc_cfg(GEOS["2d_c4v"], niter=2, adptfac=2, withB=False, allorders=False),
                       expect_actions=RUN_ACTIONS, timeout=3000)
            exhaustive(rep, "c10_1d_n6", mc_cfg(GEOS["1d_inv6"], niter=3, adptfac=1, withB=False, allowA=(True,), dump=(False, True)),
                       expect_actions=RUN_ACTIONS, timeout=3000)
        exhaustive(rep, "c10_1d_one", mc_cfg(GEOS["1d_one"], niter=3, adptfac=1, withB=False), expect_actions=RUN_ACTIONS)
        exhaustive(rep, "c10_2d_h3", mc_cfg(Geometry(2, 3, 3, 2, "h3"), niter=2, adptfac=1, withB=False, allowA=(True,), dump=(True,),
                                            sym=(True,), allorders=False), expect_actions=RUN_ACTIONS)
        plan = [("1d_inv", 1, 2, 10), ("1d_inv", 2, 2, 6), ("1d_inv3", 1, 2, 6), ("2d_c4", 1, 2, 6), ("2d_c4v", 2, 2, 6),
                ("1d_none", 1, 2, 4), ("1d_one", 1, 3, 4), ("2d_one", 1, 2, 4), ("2d_h3", 1, 3, 4), ("2d_h3m", 2, 3, 4)]
        mult = 6 if thorough else 1
        for gname, fac, niter, num in plan:
            geo = GEOS[gname]
            cfg = mc_cfg(geo, niter=niter, adptfac=fac, withB=False, parA=(False, True), view=False,
                         invs=["IntegralConsistent", "WeightOne"], props=(), allorders=False)
            st, scripts = simulate_scripts(geo, cfg, f"c10_{gname}_{fac}", num * mult, 60 * (niter + 1), seed() + 1)
            run_scripts(rep, batch, geo, scripts, f"c10_{gname}_{fac}", adpt_fac=fac)
            run_random(rep, batch, geo, rng, max(2, num // 2) * mult, niter, f"c10_{gname}_{fac}", adpt_fac=fac)
        batch.validate("c10")
        large_worlds(rep, rng, thorough)

    elif pid == "C11":
        exhaustive(rep, "c11_1d", mc_cfg(g1, niter=2, adptfac=1, restart_iters=(0, 1, 2)), expect_actions=RUN_ACTIONS + ["EndA", "StartB", "RestartB", "RefineB"])
        exhaustive(rep, "c11_1d_v0", mc_cfg(g1, niter=2, adptfac=1, sorted_listing=False), must_hold=False)
        exhaustive(rep, "c11_1d_fac2", mc_cfg(g1, niter=2, adptfac=2, allorders=False, allowA=(True,)),
                   expect_actions=RUN_ACTIONS + ["EndA", "StartB", "RestartB", "RefineB"])
        if thorough:
            exhaustive(rep, "c11_1d_3it", mc_cfg(GEOS["1d_inv6"], niter=3, adptfac=1, allowA=(True,), sym=(True,)),
                       expect_actions=RUN_ACTIONS + ["EndA", "StartB", "RestartB", "RefineB"], timeout=3000)
            exhaustive(rep, "c11_2d_c4", mc_cfg(GEOS["2d_c4"], niter=2, adptfac=1, allowA=(True,), sym=(True,), dump=(False, True)),
                       expect_actions=RUN_ACTIONS + ["EndA", "StartB", "RestartB", "RefineB"], timeout=3000)
        plan = [("1d_inv", 1, 2, 14), ("1d_inv", 2, 2, 6), ("2d_c4", 1, 2, 6), ("1d_inv6", 1, 3, 6)]
        mult = 6 if thorough else 1
        for gname, fac, niter, num in plan:
            geo = GEOS[gname]
            cfg = mc_cfg(geo, niter=niter, adptfac=fac, view=False, invs=["RestartEquivalence"], props=(), allorders=False,
                         restart_iters=(0, 1, 1, 2))
            st, scripts = simulate_scripts(geo, cfg, f"c11_{gname}_{fac}", num * mult, 60 * (niter + 1), seed() + 1)
            run_scripts(rep, batch, geo, scripts, f"c11_{gname}_{fac}", adpt_fac=fac)
            run_random(rep, batch, geo, rng, (num // 2) * mult, niter, f"c11_{gname}_{fac}", adpt_fac=fac, allow_par=False)
        batch.validate("c11")

    elif pid == "C12":
        gp = Geometry(1, 5, 2, 1, "none")
        acts = RUN_ACTIONS
        exhaustive(rep, "c12_n5", mc_cfg(gp, nstep=2, niter=1, parA=(True,), dump=(False,), allowA=(False,), sym=(False,), withB=False,
                                         allorders=False), expect_actions=acts)
        exhaustive(rep, "c12_n5_first", mc_cfg(gp, nstep=2, niter=1, parA=(True,), dump=(False,), allowA=(False,), sym=(False,),
                                               withB=False, allorders=False, waitfirst=True), expect_actions=acts)
        exhaustive(rep, "c12_n5_v0", mc_cfg(gp, nstep=2, niter=1, parA=(True,), dump=(False,), allowA=(False,), sym=(False,),
                                            withB=False, allorders=False, acc=False), must_hold=False)
        exhaustive(rep, "c12_n4_dump", mc_cfg(g1, nstep=1, niter=1, parA=(True,), dump=(True, False), allowA=(True,), sym=(True,),
                                              withB=False), expect_actions=acts)
        if thorough:
            g6 = Geometry(1, 6, 2, 1, "none")
            exhaustive(rep, "c12_n6_s2", mc_cfg(g6, nstep=2, niter=1, parA=(True,), dump=(False,), allowA=(False,), sym=(False,),
                                                withB=False, allorders=False), expect_actions=acts, timeout=3000)
            exhaustive(rep, "c12_n6_s3", mc_cfg(g6, nstep=3, niter=1, parA=(True,), dump=(False,), allowA=(False,), sym=(False,),
                                                withB=False, allorders=False), expect_actions=acts, timeout=3000)
        mult = 6 if thorough else 1
        plan = [(gp, 2, 1, 12), (Geometry(1, 6, 2, 1, "none"), 3, 1, 6), (g1, 1, 2, 6), (GEOS["2d_c4"], 2, 2, 6)]
        for j, (geo, ncpu, niter, num) in enumerate(plan):
            cfg = mc_cfg(geo, nstep=ncpu, niter=niter, parA=(True,), parB=(True,), withB=False, view=False,
                         invs=["CollectedOnce", "IntegralConsistent"], props=(), allorders=False, sym=(geo.group != "none",))
            st, scripts = simulate_scripts(geo, cfg, f"c12_{j}", num * mult, 100, seed() + 1)
            run_scripts(rep, batch, geo, scripts, f"c12_{j}", ncpu=ncpu)
            # random schedules (both ray.wait answer policies), parallel forced
            wd = workdir(f"rgp_{j}")
            for i in range(num * mult):
                w = RS.World(geo, os.path.join(wd, f"r{i}"))
                d = rng.random() < 0.3
                m = dict(par=True, dump=d, allow=d or rng.random() < 0.5, sym=geo.group != "none")
                res, err = w.run(niter, parallel=True, dump=m["dump"], allow=m["allow"], sym=m["sym"],
                                 schedule=RS.random_schedule(rng, first_n=(i % 2 == 0)), ncpu=ncpu)
                batch.add(geo, ncpu, w.events, dict(origin="random-schedule", index=i, seed=seed(), ncpu=ncpu, mode=m, nit=niter))
                rep.case((geo.key(), "randsched", j, i, seed()))
            shutil.rmtree(wd, ignore_errors=True)
        batch.validate("c12")
        from . import rungrid_par_tab
        rungrid_par_tab.check(rep, rng, thorough)
    return rep.finish()
