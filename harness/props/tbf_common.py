"""helpers shared by c01.py and c02.py: fast reading of TLC dumps with large numeric tables, exact tight-binding systems,
the self-check of the Z[zeta12] library"""
import re
import time
from collections import defaultdict
from concurrent.futures import ThreadPoolExecutor

import numpy as np

from .. import tlc, ftable, tlaparse
from ..common import MachineryError, quiet
from . import cyclo12 as cy

TOL = 1e-9


def _fast_value(text):
    """TLC value built from integers, booleans, strings, tuples, sets, records and functions -> Python (tuples, frozensets, dicts)
    through the Python parser (much faster than the character-level parser for large tables)"""
    t = text.strip()
    if "\x01" in t or "\x02" in t or "\x03" in t or "'" in t:
        raise ValueError("unsupported characters")
    t = t.replace("<<>>", "\x03")
    t = t.replace("{", "\x01").replace("}", "\x02")
    t = t.replace("(", "{").replace(")", "}")
    t = t.replace("[", "dict(").replace("]", ")")
    t = t.replace("\x01", "frozenset([").replace("\x02", "])")
    t = t.replace("|->", "=").replace(":>", ":").replace("@@", ",")
    t = t.replace("<<", "(").replace(">>", ",)")
    t = t.replace("\x03", "()")
    t = re.sub(r"\bTRUE\b", "True", t)
    t = re.sub(r"\bFALSE\b", "False", t)
    return eval(t, {"__builtins__": {}}, {"frozenset": frozenset, "dict": dict, "True": True, "False": False})


def fast_dump_states(st, fast_vars=()):
    """like ftable.dump_states, but the variables named in fast_vars (numeric tables) are converted by the Python parser"""
    import os
    p = st.get("dump_path")
    if not p or not os.path.exists(p):
        raise MachineryError(f"no state dump produced ({st.get('meta')})")
    with open(p) as f:
        text = f.read()
    for body in re.split(r"(?m)^State \d+:\s*$", text)[1:]:
        s = {}
        for ch in re.split(r"(?m)^/\\ ", body):
            ch = ch.strip()
            if not ch:
                continue
            m = re.match(r"([A-Za-z_][A-Za-z0-9_]*)\s*=\s*", ch)
            if not m:
                raise MachineryError("bad conjunct in dump: " + ch[:80])
            name, val = m.group(1), ch[m.end():]
            if name in fast_vars:
                try:
                    s[name] = _fast_value(val)
                    continue
                except (ValueError, SyntaxError, TypeError, NameError):
                    pass
            s[name] = tlaparse.parse_value(val)
        yield s


def build_system(nw, lat, D, tau, hops):
    """real System_R for the model of TBFourier.tla; hops: dicts R, a, b (1-based), v (4-tuple of Z[zeta12])"""
    import wannierberri as wb
    ham = defaultdict(lambda: defaultdict(complex))
    for h in hops:
        ham[tuple(int(x) for x in h["R"])][(h["a"] - 1, h["b"] - 1)] += cy.to_complex(h["v"])
    ham = {R: dict(v) for R, v in ham.items()}
    if not ham:
        ham = {(0, 0, 0): {(0, 0): 0.0}}
    with quiet():
        syst = wb.system.System_R.from_sparse(real_lattice=np.array(lat, dtype=float),
                                              wannier_centers_red=np.array(tau, dtype=float) / D, matrices={"Ham": ham})
    if syst.num_wann != nw:
        raise MachineryError(f"from_sparse built {syst.num_wann} orbitals instead of {nw}")
    return syst


def exact_rows_array(direct, n, nk, nw, D):
    """table cs -> rows (TLC) -> complex array (nk, nw, nw, 3, ..., 3) of the true derivative (divided by D^n)"""
    import itertools
    out = np.zeros((nk, nw, nw) + (3,) * n, dtype=complex)
    cache = {}
    for comp in itertools.product(range(3), repeat=n):
        key = tuple(sorted(c + 1 for c in comp))
        if key not in cache:
            rows = direct[key]
            cache[key] = cy.arr_to_complex(np.array(rows, dtype=float).reshape(-1, nw, nw, 4)[:nk]) / float(D) ** n
        out[(slice(None), slice(None), slice(None)) + comp] = cache[key]
    return out


def cyclo_library_check(rep):
    """TLC checks the ring laws of Cyclo12.tla; products, conjugates and rotations are compared with complex arithmetic"""
    cfg = "SPECIFICATION Spec\n" + "".join(f"INVARIANT {i}\n" for i in
                                           "RotIsMul MulCommutes MulDistrib ConjMult NormReal ZetaOrder SumOk".split()) + "CHECK_DEADLOCK FALSE\n"
    st = ftable.enumerate_states("MC_Cyclo12.tla", cfg, f"cyclo12_{rep.pid}", workers=4)
    if st.get("violation"):
        raise MachineryError(f"Cyclo12 library self-check failed: {st['violation']}")
    rep.add_tlc("cyclo12_library", st)
    n = 0
    worst = 0.0
    for s in fast_dump_states(st, fast_vars=("x", "y", "prod", "conj", "rot")):
        n += 1
        x, y = cy.to_complex(s["x"]), cy.to_complex(s["y"])
        worst = max(worst, abs(cy.to_complex(s["prod"]) - x * y), abs(cy.to_complex(s["conj"]) - x.conjugate()),
                    abs(cy.to_complex(s["rot"]) - x * cy.ZETA ** s["n"]))
        if cy.from_complex(x * y, bound=64) != tuple(s["prod"]):
            raise MachineryError(f"cyclo12.from_complex disagrees with the specification on {s['x']} * {s['y']}")
    if n != st["distinct"] or worst > 1e-12:
        raise MachineryError(f"Cyclo12 library binding failed: {n} states, deviation {worst}")
    rep.part("cyclo12_library", states=n, max_deviation_from_complex_arithmetic=worst)


def validate_parallel(module, recs, name, nchunks, timeout=3000):
    """TLC validation of the records in several JVMs at once (the clauses recompute the exact values per record)"""
    if not recs:
        return dict(distinct=0, generated=0, wall_s=0.0, mode="record-validation"), {}
    size = max(1, -(-len(recs) // nchunks))
    parts = [(k, recs[k:k + size]) for k in range(0, len(recs), size)]
    t0 = time.time()
    with ThreadPoolExecutor(max_workers=len(parts)) as ex:
        res = list(ex.map(lambda p: ftable.validate_records(module, ftable.REC_CFG, p[1], f"{name}_{p[0]}", timeout=timeout), parts))
    tot = dict(distinct=0, generated=0, wall_s=round(time.time() - t0, 2), mode="record-validation")
    bad = {}
    for (k, _), (st, b) in zip(parts, res):
        tot["distinct"] += st["distinct"]
        tot["generated"] += st["generated"]
        for i, cl in b.items():
            bad[k + i] = cl
    return tot, bad
