"""helpers shared by c01.py and c02.py: TLC runs with small heaps and per-process scratch names, fast reading of TLC dumps with
large numeric tables, guarded calls of the library, exact tight-binding systems, the self-check of the Z[zeta12] library"""
import json
import os
import re
import shutil
import time
from collections import defaultdict
from concurrent.futures import ThreadPoolExecutor

import numpy as np

from .. import tlc, tlaparse
from ..common import MachineryError, quiet, WORK
from . import cyclo12 as cy

# relative tolerance of every comparison with exact values: regressions of C01 / C02 are O(1); the deviation observed on the
# unchanged tree is <= 1e-13 (GUIDE rule 1: tolerance >= 10^4 x observed; here >= 10^5 x)
TOL = 1e-8
TLC_WORKERS = 4
TLC_HEAP = "3g"
REC_HEAP = "2g"
MAX_PARALLEL_JVMS = 4


def uniq(name):
    """scratch / metadir name that is unique per property run (the names carry the property id) and per process"""
    return f"{name}_p{os.getpid()}"


def drop_scratch(st):
    """remove the TLC metadir of a finished run (kept when TLC reported a violation: the replay file points into it)"""
    if st and st.get("meta") and not st.get("violation"):
        shutil.rmtree(st["meta"], ignore_errors=True)


def run_tlc(module, cfg, name, workers=TLC_WORKERS, heap=TLC_HEAP, **kw):
    return tlc.run_tlc(module, cfg, uniq(name), workers=workers, heap=heap, **kw)


def enumerate_states(module, cfg, name, workers=TLC_WORKERS, timeout=3000, heap=TLC_HEAP):
    """TLC with -dump (like ftable.enumerate_states, with a small heap, few workers and a per-process metadir)"""
    st = tlc.run_tlc(module, cfg, uniq(name), workers=workers, dump=True, timeout=timeout, heap=heap)
    if st.get("timeout"):
        raise MachineryError(f"TLC timed out on {name}")
    if st.get("error") and not st.get("violation"):
        raise MachineryError(f"TLC error on {name}: {st['error'][:600]}")
    return st


def tlc_batch(jobs):
    """several independent TLC runs, at most MAX_PARALLEL_JVMS at a time.  jobs: dicts with module, cfg, name and either dump=True
    (enumeration: errors and time-outs are MachineryErrors) or dump=False (plain run, e.g. a must-fail sensitivity variant; extra
    keywords go to run_tlc).  -> stats in the order of the jobs"""
    def one(j):
        j = dict(j)
        if j.pop("dump", True):
            return enumerate_states(j.pop("module"), j.pop("cfg"), j.pop("name"), **j)
        return run_tlc(j.pop("module"), j.pop("cfg"), j.pop("name"), **j)
    with ThreadPoolExecutor(max_workers=MAX_PARALLEL_JVMS) as ex:
        futs = [ex.submit(one, j) for j in jobs]
        return [f.result() for f in futs]


REC_CFG = "SPECIFICATION RecSpec\nINVARIANT Report\nCHECK_DEADLOCK FALSE\n"


def validate_records(module, records, name, timeout=3000, heap=REC_HEAP):
    """like ftable.validate_records (one TLC state per record, failing clauses printed as <<"BAD", i, clause>>) with a small
    heap and a per-process scratch directory -> (stats, {record index: [failing clauses]})"""
    wd = os.path.join(WORK, "records", uniq(name))
    os.makedirs(wd, exist_ok=True)
    tf = os.path.join(wd, "recs.json")
    with open(tf, "w") as f:
        json.dump({"recs": records}, f)
    try:
        st = tlc.run_tlc(module, REC_CFG, uniq("rec_" + name), workers=1, coverage=False, env={"TRACE_FILE": tf}, timeout=timeout, heap=heap)
        if st.get("error") or st.get("timeout") or st["distinct"] == 0:
            raise MachineryError(f"record validation TLC run failed ({name}): {st.get('error') or st.get('output', '')[-800:]}")
        if st["distinct"] != len(records):
            raise MachineryError(f"record validation ({name}): {st['distinct']} states for {len(records)} records")
        bad = {}
        for i, cl in re.findall(r'^<<"BAD", (\d+), "([\w.:-]+)">>', st["output"], re.M):
            bad.setdefault(int(i) - 1, []).append(cl)
        drop_scratch(st)
    finally:
        shutil.rmtree(wd, ignore_errors=True)
    return dict(distinct=st["distinct"], generated=st["generated"], wall_s=st["wall_s"], mode="record-validation"), bad


def validate_parallel(module, recs, name, nchunks=MAX_PARALLEL_JVMS, timeout=3000):
    """TLC validation of the records in at most MAX_PARALLEL_JVMS JVMs at once (the clauses recompute the exact values per record)"""
    if not recs:
        return dict(distinct=0, generated=0, wall_s=0.0, mode="record-validation"), {}
    nchunks = max(1, min(nchunks, MAX_PARALLEL_JVMS))
    size = max(1, -(-len(recs) // nchunks))
    parts = [(k, recs[k:k + size]) for k in range(0, len(recs), size)]
    t0 = time.time()
    with ThreadPoolExecutor(max_workers=min(len(parts), MAX_PARALLEL_JVMS)) as ex:
        res = list(ex.map(lambda p: validate_records(module, p[1], f"{name}_{p[0]}", timeout=timeout), parts))
    tot = dict(distinct=0, generated=0, wall_s=round(time.time() - t0, 2), mode="record-validation")
    bad = {}
    for (k, _), (st, b) in zip(parts, res):
        tot["distinct"] += st["distinct"]
        tot["generated"] += st["generated"]
        for i, cl in b.items():
            bad[k + i] = cl
    return tot, bad


# ---------------------------------------------------------------- guarded use of the library
def _short(ex):
    return f"{type(ex).__name__}: {str(ex)[:300]}"


def skipped_private(rep, what, ex):
    """a private name / keyword of the library that the harness uses is gone: the sub-check is skipped, not a finding"""
    d = rep.parts.setdefault("skipped_private", {})
    d[what] = _short(ex) if isinstance(ex, BaseException) else str(ex)


def guarded(rep, site, detail, fn):
    """fn() -> (True, value).  An exception raised inside the wannierberri package on a valid input is a violation
    `raises:<site>:<ExcType>` (any class, any text) -> (False, None); a TypeError / AttributeError raised in a harness frame (renamed
    private attribute, changed keyword) skips the sub-check (recorded) -> (False, None); everything else propagates"""
    try:
        return True, fn()
    except MachineryError:
        raise
    except Exception as ex:
        from ..main import raised_by_code_under_test
        where = raised_by_code_under_test(ex)
        if where is not None:
            rep.violation(f"raises:{site}:{type(ex).__name__}", dict(detail, error=_short(ex), raised_in=where))
            return False, None
        if isinstance(ex, (AttributeError, TypeError)):
            skipped_private(rep, site, ex)
            return False, None
        raise


def finish_on_error(rep):
    """to be called from `except Exception:` in check(): violations collected so far are printed before the exception goes on"""
    if rep.violations:
        try:
            rep.finish()
        except Exception:
            pass


# ---------------------------------------------------------------- TLC dumps
def _fast_value(text):
    """TLC value built from integers, booleans, strings, tuples, sets, records and functions -> Python (tuples, frozensets, dicts)
    through the Python parser (much faster than the character-level parser for large tables)"""
    t = text.strip()
    if "\x01" in t or "\x02" in t or "\x03" in t or "'" in t:
        raise ValueError("unsupported characters")
    t = t.replace("<<>>", "\x03")
    t = t.replace("{", "\x01").replace("}", "\x02")
    t = t.replace("(", "{").replace(")", "}")
    t = t.replace("[", "dict(").replace("]", ")")
    t = t.replace("\x01", "frozenset([").replace("\x02", "])")
    t = t.replace("|->", "=").replace(":>", ":").replace("@@", ",")
    t = t.replace("<<", "(").replace(">>", ",)")
    t = t.replace("\x03", "()")
    t = re.sub(r"\bTRUE\b", "True", t)
    t = re.sub(r"\bFALSE\b", "False", t)
    return eval(t, {"__builtins__": {}}, {"frozenset": frozenset, "dict": dict, "True": True, "False": False})


def fast_dump_states(st, fast_vars=()):
    """like ftable.dump_states, but the variables named in fast_vars (numeric tables) are converted by the Python parser"""
    p = st.get("dump_path")
    if not p or not os.path.exists(p):
        raise MachineryError(f"no state dump produced ({st.get('meta')})")
    with open(p) as f:
        text = f.read()
    for body in re.split(r"(?m)^State \d+:\s*$", text)[1:]:
        s = {}
        for ch in re.split(r"(?m)^/\\ ", body):
            ch = ch.strip()
            if not ch:
                continue
            m = re.match(r"([A-Za-z_][A-Za-z0-9_]*)\s*=\s*", ch)
            if not m:
                raise MachineryError("bad conjunct in dump: " + ch[:80])
            name, val = m.group(1), ch[m.end():]
            if name in fast_vars:
                try:
                    s[name] = _fast_value(val)
                    continue
                except (ValueError, SyntaxError, TypeError, NameError):
                    pass
            s[name] = tlaparse.parse_value(val)
        yield s


def sorted_states(st, fast_vars, keep, key):
    """the states of the dump selected by keep(s), in an order that does not depend on the TLC workers (the dump order does)"""
    states = [s for s in fast_dump_states(st, fast_vars=fast_vars) if keep(s)]
    states.sort(key=lambda s: repr(key(s)))
    return states


# ---------------------------------------------------------------- exact models
def build_system(nw, lat, D, tau, hops):
    """real System_R for the model of TBFourier.tla; hops: dicts R, a, b (1-based), v (4-tuple of Z[zeta12])"""
    import wannierberri as wb
    ham = defaultdict(lambda: defaultdict(complex))
    for h in hops:
        ham[tuple(int(x) for x in h["R"])][(h["a"] - 1, h["b"] - 1)] += cy.to_complex(h["v"])
    ham = {R: dict(v) for R, v in ham.items()}
    if not ham:
        ham = {(0, 0, 0): {(0, 0): 0.0}}
    with quiet():
        syst = wb.system.System_R.from_sparse(real_lattice=np.array(lat, dtype=float),
                                              wannier_centers_red=np.array(tau, dtype=float) / D, matrices={"Ham": ham})
    if syst.num_wann != nw:
        raise MachineryError(f"from_sparse built {syst.num_wann} orbitals instead of {nw}")
    return syst


def exact_rows_array(direct, n, nk, nw, D):
    """table cs -> rows (TLC) -> complex array (nk, nw, nw, 3, ..., 3) of the true derivative (divided by D^n)"""
    import itertools
    out = np.zeros((nk, nw, nw) + (3,) * n, dtype=complex)
    cache = {}
    for comp in itertools.product(range(3), repeat=n):
        key = tuple(sorted(c + 1 for c in comp))
        if key not in cache:
            rows = direct[key]
            cache[key] = cy.arr_to_complex(np.array(rows, dtype=float).reshape(-1, nw, nw, 4)[:nk]) / float(D) ** n
        out[(slice(None), slice(None), slice(None)) + comp] = cache[key]
    return out


def project_exact(A, bound, tol=1e-6):
    """complex array that should consist of cyclotomic integers -> nested lists of 4-lists.  `bound` (what correct values need)
    only keeps the search small: if it does not suffice the search is repeated with the largest bound for which the
    representation is still unique (2 * bound < ~1.4e5: sqrt 3 is badly approximable), and TLC judges the values.
    ValueError: an entry is not a cyclotomic integer at all (a finding about the values)"""
    try:
        return cy.mat_from_complex(A, bound=bound, tol=tol)
    except ValueError:
        if bound >= 60000:
            raise
        return cy.mat_from_complex(A, bound=60000, tol=tol)


def cyclo_library_check(rep):
    """TLC checks the ring laws of Cyclo12.tla; products, conjugates and rotations are compared with complex arithmetic"""
    cfg = "SPECIFICATION Spec\n" + "".join(f"INVARIANT {i}\n" for i in
                                           "RotIsMul MulCommutes MulDistrib ConjMult NormReal ZetaOrder SumOk".split()) + "CHECK_DEADLOCK FALSE\n"
    st = enumerate_states("MC_Cyclo12.tla", cfg, f"cyclo12_{rep.pid}", workers=2, heap="1g")
    if st.get("violation"):
        raise MachineryError(f"Cyclo12 library self-check failed: {st['violation']}")
    rep.add_tlc("cyclo12_library", st)
    n = 0
    worst = 0.0
    for s in fast_dump_states(st, fast_vars=("x", "y", "prod", "conj", "rot")):
        n += 1
        x, y = cy.to_complex(s["x"]), cy.to_complex(s["y"])
        worst = max(worst, abs(cy.to_complex(s["prod"]) - x * y), abs(cy.to_complex(s["conj"]) - x.conjugate()),
                    abs(cy.to_complex(s["rot"]) - x * cy.ZETA ** s["n"]))
        if cy.from_complex(x * y, bound=64) != tuple(s["prod"]):
            raise MachineryError(f"cyclo12.from_complex disagrees with the specification on {s['x']} * {s['y']}")
    if n != st["distinct"] or worst > 1e-12:
        raise MachineryError(f"Cyclo12 library binding failed: {n} states, deviation {worst}")
    rep.part("cyclo12_library", states=n, max_deviation_from_complex_arithmetic=worst)
    drop_scratch(st)
