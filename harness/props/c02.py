"""C02: all Fourier-transform back ends give the same k-space matrices; H(k) and its derivatives are Hermitian.

spec  : Cyclo12.tla (exact Z[zeta12] arithmetic), TBFourier.tla (model, Rvectors.derivative / apply_expdK, explicit sum,
        FFT path = placement modulo NKFFT + inverse transform + reshape, kpoints_all), MC_TBFourier.tla (bounded model)
bind  : spec -> code: every enumerated (model, lattice, centres, FFT grid, K-shift) is built with System_R.from_sparse and
        Data_K_R(...).HH_K, Xbar('Ham', der), Rvectors.R_to_k are evaluated with fftlib fftw / numpy / slow and with an explicit
        k-list, and compared with the exact table computed by TLC (1e-9) and with each other;
        code -> spec: seeded random exact models (3-D, more orbitals, FFT sizes up to 12) are run through the real back ends, the
        matrices rounded to cyclotomic integers (integrality verified) and validated by TLC against TBFourierRec.tla.
"""
import copy
import os
import random
from collections import defaultdict

import numpy as np

from .. import tlc
from ..common import Report, MachineryError, seed, quiet
from . import cyclo12 as cy
from .tbf_common import (cyclo_library_check, sorted_states, build_system, exact_rows_array, validate_parallel, tlc_batch,
                         drop_scratch, guarded, skipped_private, finish_on_error, project_exact, TOL)

PROPS = {
    "C02": dict(level="model_checking",
                technique="TLC exhaustive on TBFourier.tla (exact Z[zeta12] Fourier sums: explicit sum vs FFT placement/aliasing/K-shift/"
                          "reshape path, Hermiticity, derivatives 0-3) + replay of the enumerated inputs on Data_K_R / Rvectors.R_to_k for "
                          "fftw, numpy, slow and k-list + TLC validation of recorded k-space matrices",
                text="TLC enumerates Hermitian tight-binding models (1-2 orbitals, 3 in thorough; R within +-2 in 1-D/2-D, +-1 in 3-D "
                     "(thorough); amplitudes 1,i,-1,-i, cubic and non-orthogonal integer lattices, centres in quarters), FFT grids from "
                     "{1,2,3,4,6} (also smaller than recommended) and K-shifts in twelfths; it checks that the FFT path equals the explicit "
                     "sum at every point of kpoints_all for derivative orders 0-3 (order 3 in 1-D R-sets only), that all matrices are "
                     "Hermitian and periodic in k (periodicity on the specification only; on the code through reciprocal-lattice shifts of "
                     "the k-list). Each enumerated input is executed on the real code with numpy, one more seeded FFT back end (fftw or "
                     "slow) and the k-list, every stride-th input (quick: every 2nd / 4th) with all of them, and compared with the exact "
                     "values at the k-points the code itself reports (any order of the grid); random larger exact models are recorded from "
                     "the code and every clause of TBFourierRec is evaluated on them by TLC; random real-valued models (FFT sizes with "
                     "factors 5, 7, 11, up to 16) compare the back ends with each other. Call histories (MC_TBFourierHist): TLC enumerates every "
                     "sequence set_fft_R_to_k -> (R_to_k | set_fft_R_to_k again)* of DEPTH calls (quick 4, thorough 5; at most one "
                     "re-targeting: shifted grid -> k-list, grid -> other grid, k-list -> grid) on ONE Rvectors object with der 0-2 / "
                     "hermitian flags and fftlib in lower and mixed case (the constructor lower-cases it) and checks that every result ever "
                     "returned still equals the exact value for its own arguments; every history is replayed on one real Rvectors, all "
                     "returned arrays are kept and re-compared after every later call.",
                note="amplitudes are cyclotomic integers and centres quarters of lattice vectors, so the exact k-space values are in "
                     "Z[zeta12]/4^der; Xbar is brought back to the Wannier gauge with the Data_K's own UU_K before comparison. The exact "
                     "table fixes conventions the statement does not name (sign of the Fourier phase, no centre phase in H(k), derivative "
                     "factor i(R + tau_b - tau_a)): a uniform change of convention in all back ends is reported under the keys HH_K / Xbar "
                     "/ R_to_k although backends_differ stays silent. Only the matrix 'Ham'.",
                ref="DESIGN.md 3.4"),
}

LIBS = ("fftw", "numpy", "slow")
# the constructor lower-cases fftlib (documented as case-insensitive): spellings are an input class
SPELL = {"fftw": ("fftw", "FFTW", "fftW"), "numpy": ("numpy", "NumPy", "NuMpY"), "slow": ("slow", "Slow", "SLOW")}
INVS = ("ModelHermitian", "HkHermitian", "DerHermitian", "FFTEqualsDirect", "HermSymNoopHHK", "Periodic")
LATS = {1: [[1, 0, 0], [0, 1, 0], [0, 0, 1]], 2: [[1, 0, 0], [1, 2, 0], [0, 0, 1]], 3: [[2, 0, 0], [0, 1, 0], [1, 0, 3]]}
TAUS = {(1, 1): [[0, 0, 0]], (1, 2): [[2, -1, 0]], (1, 3): [[5, 2, 1]],
        (2, 1): [[0, 0, 0], [2, 0, 0]], (2, 2): [[1, 0, 0], [-2, 3, 0]], (2, 3): [[0, 4, 0], [0, 4, 0]],
        (3, 1): [[0, 0, 0], [2, 2, 0], [0, 2, 2]], (3, 2): [[1, 0, 2], [-3, 2, 0], [6, 1, -1]], (3, 3): [[0, 0, 0], [0, 0, 0], [4, 0, 0]]}
DD = 4


def mc_cfg(**kw):
    d = dict(NWS="{1, 2}", LATIDS="{1}", TAUIDS="{1, 2}", RSETID=1, AMPIDS="{1, 2}", MAXHOPS=1, FFTS="{111, 211, 311, 411, 611}",
             DKS="{0, 10000}", MAXDER=3, Symmetrise="TRUE", OnReducedR="FALSE")
    d.update(kw)
    return ("SPECIFICATION Spec\nCONSTANTS\n" + "".join(f"  {k} = {v}\n" for k, v in d.items()) +
            "".join(f"INVARIANT {i}\n" for i in INVS) + "CHECK_DEADLOCK FALSE\n"), d


def unrotate(Xbar, U):
    """Xbar = U^+ X U  ->  X"""
    return np.einsum('kab,kbc...,kdc->kad...', U, Xbar, U.conj())


class Compare:
    """collects deviations and reports violations with stable keys"""

    def __init__(self, rep):
        self.rep = rep
        self.maxdev = 0.0
        self.maxherm = 0.0

    def close(self, key, got, exp, detail):
        got = np.asarray(got)
        if got.shape != exp.shape:
            self.rep.violation(key + ":shape", dict(detail, got_shape=list(got.shape), expected_shape=list(exp.shape)))
            return False
        dev = float(np.max(np.abs(got - exp))) if got.size else 0.0
        scale = max(1.0, float(np.max(np.abs(exp))) if exp.size else 1.0)
        self.maxdev = max(self.maxdev, dev / scale)
        if dev > TOL * scale:
            idx = np.unravel_index(int(np.argmax(np.abs(got - exp))), got.shape)
            self.rep.violation(key, dict(detail, deviation=dev, at=[int(i) for i in idx], got=str(got[idx]), expected=str(exp[idx])))
            return False
        return True

    def herm(self, key, A, detail):
        A = np.asarray(A)
        dev = float(np.max(np.abs(A - A.swapaxes(1, 2).conj()))) if A.size else 0.0
        scale = max(1.0, float(np.max(np.abs(A))) if A.size else 1.0)
        self.maxherm = max(self.maxherm, dev / scale)
        if dev > TOL * scale:
            self.rep.violation(key, dict(detail, hermiticity_deviation=dev))


def expected_label(lib):
    from wannierberri.fourier import fft as wbfft
    if lib == "fftw" and not getattr(wbfft, "PYFFTW_IMPORTED", True):
        return "numpy"                  # documented fall-back when pyfftw cannot be imported
    return lib


def note_label(rep, d, want):
    """the label of the active back end (private): information only, never a verdict"""
    try:
        got = d.rvec.fft_R_to_k.lib
    except AttributeError as ex:
        skipped_private(rep, "Rvectors.fft_R_to_k.lib (label of the active back end)", ex)
        return
    if got != want:
        rep.parts.setdefault("backend_labels_unexpected", {})[want] = str(got)


def make_grid(rep, syst, fft):
    import wannierberri as wb
    with quiet():
        grid = wb.Grid(syst, NKdiv=1, NKFFT=list(fft))
    try:
        taken = tuple(int(x) for x in grid.FFT) == tuple(fft) and tuple(int(x) for x in grid.div) == (1, 1, 1)
    except AttributeError as ex:
        skipped_private(rep, "Grid.FFT / Grid.div (confirmation that the requested FFT grid was taken)", ex)
        taken = True
    if not taken:
        raise MachineryError(f"Grid did not take the FFT grid {fft}: {grid.FFT} {grid.div}")
    return grid


def twelfths(kpts):
    """k-points in reduced coordinates -> integer twelfths (not reduced), or None if some point is not a multiple of 1/12"""
    k = np.asarray(kpts, dtype=float) * 12.0
    r = np.round(k)
    if k.ndim != 2 or k.shape[1] != 3 or np.abs(k - r).max() > 1e-6:
        return None
    return r.astype(int)


def evaluate(d, maxder):
    """everything C02 observes on one Data_K_R (Xbar brought back to the Wannier gauge)"""
    res = {("HH_K",): np.array(d.HH_K)}
    U = d.UU_K
    for n in range(maxder + 1):
        res[("Xbar", n)] = unrotate(d.Xbar('Ham', n), U)
        res[("R_to_k", n)] = np.array(d.rvec.R_to_k(d.get_R_mat('Ham').copy(), der=n, hermitian=False))
    for n in range(min(maxder, 1) + 1):
        res[("R_to_k_herm", n)] = np.array(d.rvec.R_to_k(d.get_R_mat('Ham').copy(), der=n, hermitian=True))
    return res


def run_backends(rep, det, syst, fft, dk12, maxder, k_list=None, libs=LIBS, spell=None):
    """-> {lib: (results, kpoints_all of that Data_K or None)}; "klist" for the explicit list.  A back end that raises is a violation
    and is left out"""
    from wannierberri.data_K.data_K_R import Data_K_R
    grid = make_grid(rep, syst, fft)
    dK = np.array(dk12, dtype=float) / 12.0
    out = {}
    for lib in libs:
        def run(lib=lib):
            with quiet():
                d = Data_K_R(syst, dK=dK, grid=grid, fftlib=(spell or {}).get(lib, lib))
                res = evaluate(d, maxder)
            note_label(rep, d, expected_label(lib))
            try:
                ka = np.array(d.kpoints_all)
            except AttributeError as ex:
                skipped_private(rep, "Data_K.kpoints_all (the order of the FFT grid is then assumed to be the one of the specification)", ex)
                ka = None
            return res, ka
        done, r = guarded(rep, f"Data_K_R:{lib}", dict(det, fftlib=(spell or {}).get(lib, lib)), run)
        if done:
            out[lib] = r
    if k_list is not None:
        def run_list():
            with quiet():
                d = Data_K_R(syst, grid=grid, k_list=k_list, fftlib="fftw")
                res = evaluate(d, maxder)
            note_label(rep, d, "slow_path")
            return res, None
        done, r = guarded(rep, "Data_K_R:klist", dict(det, fftlib="klist"), run_list)
        if done:
            out["klist"] = r
    return out


def replay_state(rep, cmp, s, maxder, rng, full, info):
    nw = s["nw"]
    hops = [dict(h) for h in s["hops"]]
    lat, tau = LATS[s["latid"]], TAUS[(nw, s["tauid"])]
    fft, dk = tuple(s["fft"]), tuple(s["dk"])
    det = dict(nw=nw, lattice=lat, centres_times_4=tau, hops=[dict(R=list(h["R"]), a=h["a"], b=h["b"], v=list(h["v"])) for h in hops],
               NKFFT=list(fft), dK_twelfths=list(dk))
    done, syst = guarded(rep, "System_R.from_sparse", det, lambda: build_system(nw, lat, DD, tau, hops))
    if not done:
        return det
    nk = fft[0] * fft[1] * fft[2]
    exp = {n: exact_rows_array(s["direct"], n, nk, nw, DD) for n in range(maxder + 1)}
    # kpoints_all as the specification orders them (twelfths modulo 12)
    step = [12 // f for f in fft]
    kspec = [((step[0] * i + dk[0]) % 12, (step[1] * j + dk[1]) % 12, (step[2] * k + dk[2]) % 12)
             for i in range(fft[0]) for j in range(fft[1]) for k in range(fft[2])]
    where = {k: j for j, k in enumerate(kspec)}
    perm = list(range(nk))
    rng.shuffle(perm)
    g = [rng.choice([-1, 0, 1, 2]) for _ in range(3)]
    k_list = (np.array(kspec, dtype=float)[perm] + 12.0 * np.array(g, dtype=float)) / 12.0
    libs = LIBS if full else ("numpy", rng.choice(("fftw", "slow")))
    spell = {lib: rng.choice(SPELL[lib]) if rng.random() < 0.3 else lib for lib in libs}
    info["mixed_case_spellings"] += sum(spell[lib] != lib for lib in libs)
    raw = run_backends(rep, det, syst, fft, dk, maxder, k_list=k_list, libs=libs, spell=spell)
    res = {}
    for lib, (r, ka) in raw.items():
        # the rows are at the k-points the code reports (any order of the grid); the explicit list is in the order we gave
        if lib == "klist":
            rowmap = perm
        elif ka is None:
            rowmap = list(range(nk))
        else:
            k12 = twelfths(ka)
            rowmap = None if k12 is None else [where.get(tuple(int(x) % 12 for x in k)) for k in k12]
            if rowmap is None or sorted(x for x in rowmap if x is not None) != list(range(nk)) or len(rowmap) != nk:
                rep.violation(f"kpoints_all:not_the_shifted_grid:{lib}", dict(det, fftlib=lib, got=np.asarray(ka).tolist(),
                                                                              expected_set_in_twelfths=[list(k) for k in kspec]))
                continue
            info["grid_listed_in_another_order"] += rowmap != list(range(nk))
        ok = True
        out = {}
        for key, A in r.items():
            if A.shape[:1] != (nk,):
                rep.violation(f"{key[0]}:shape:{lib}", dict(det, fftlib=lib, got_shape=list(A.shape), expected_rows=nk))
                ok = False
                break
            B = np.empty_like(A)
            B[rowmap] = A
            out[key] = B
        if ok:
            res[lib] = out
    for lib, r in res.items():
        det = dict(det, fftlib_as_passed=spell.get(lib, lib))
        cmp.close(f"HH_K:{lib}", r[("HH_K",)], exp[0], dict(det, fftlib=lib))
        cmp.herm(f"hermitian:HH_K:{lib}", r[("HH_K",)], dict(det, fftlib=lib))
        for n in range(min(maxder, 1) + 1):
            cmp.close(f"R_to_k:hermitian=True:der{n}:{lib}", r[("R_to_k_herm", n)], exp[n], dict(det, fftlib=lib, der=n))
        for n in range(maxder + 1):
            cmp.close(f"Xbar:der{n}:{lib}", r[("Xbar", n)], exp[n], dict(det, fftlib=lib, der=n))
            cmp.close(f"R_to_k:der{n}:{lib}", r[("R_to_k", n)], exp[n], dict(det, fftlib=lib, der=n))
            cmp.herm(f"hermitian:der{n}:{lib}", r[("R_to_k", n)], dict(det, fftlib=lib, der=n))
            cmp.herm(f"hermitian:Xbar:der{n}:{lib}", r[("Xbar", n)], dict(det, fftlib=lib, der=n))
    names = sorted(res)
    for i in range(len(names)):
        for j in range(i + 1, len(names)):
            for key in res[names[i]]:
                cmp.close(f"backends_differ:{names[i]}-{names[j]}:{key[0]}:{'der' + str(key[1]) if len(key) > 1 else 'der0'}",
                          res[names[i]][key], res[names[j]][key], dict(det, quantity=list(key)))
    info["backends_per_state"][len(res)] += 1
    return det


# ---------------------------------------------------------------- call histories on one Rvectors object
HIST_INVS = ("ResultsAreValues", "HermNoop")


def hist_cfg(**kw):
    d = dict(MODELIDS="{1, 2}", TARGETIDS="{1, 2, 3}", ARGIDS="{1, 2, 3}", LIBS='{"fftw", "FFTW", "numpy", "NumPy", "slow", "Slow"}',
             DEPTH=4, MAXRET=1, SharedBuffer="FALSE", StaleDK="FALSE", KeepSpelling="FALSE")
    d.update(kw)
    return ("SPECIFICATION Spec\nCONSTANTS\n" + "".join(f"  {k} = {v}\n" for k, v in d.items()) +
            "".join(f"INVARIANT {i}\n" for i in HIST_INVS) + "CHECK_DEADLOCK FALSE\n"), d


HIST_SENS = dict(MODELIDS="{1}", TARGETIDS="{1, 3}", ARGIDS="{1, 3}", LIBS='{"fftw"}', DEPTH=4, MAXRET=1)


def replay_history(rep, cmp, s, systs, info):
    """one behaviour of MC_TBFourierHist on ONE real Rvectors object: set_fft_R_to_k / apply_expdK + R_to_k in the order of the
    history; every returned array is kept (the array itself, plus a reference copy taken at return time) and ALL of them are
    looked at again after every later call"""
    lib = s["lib"]
    canon = lib.lower()
    hops = [dict(h) for h in s["hops"]]
    hist = [dict(e) for e in s["hist"]]
    calls = []
    for e in hist:
        if e["op"] == "target":
            t = dict(e["t"])
            calls.append(f"set_fft_R_to_k(NK={list(t['fft'])}, dK={list(t['dk'])}/12, fftlib={lib!r})" if t["kind"] == "grid"
                         else f"set_fft_R_to_k(k_list={[list(k) for k in t['kl']]}/12)")
        else:
            calls.append(f"R_to_k(apply_expdK(Ham_R), der={len(e['cs'])}, hermitian={bool(e['herm'])})")
    det = dict(nw=2, lattice=LATS[2], centres_times_4=TAUS[(2, 2)], hops=[dict(R=list(h["R"]), a=h["a"], b=h["b"], v=list(h["v"])) for h in hops],
               fftlib_as_passed=lib, calls_on_one_Rvectors_object=calls)
    if s["model"] not in systs:
        done, syst = guarded(rep, "System_R.from_sparse", det, lambda: build_system(2, LATS[2], DD, TAUS[(2, 2)], hops))
        systs[s["model"]] = syst if done else None
    syst = systs[s["model"]]
    if syst is None:
        return det
    held = []

    def look_again(step):
        for h in held:
            if not h["reported"] and not np.array_equal(h["arr"], h["ref"], equal_nan=True):
                h["reported"] = True
                rep.violation(f"R_to_k:{h['label']}:earlier_result_overwritten",
                              dict(det, result_of_call=h["call"], changed_after_call=step,
                                   what="an array returned by an earlier R_to_k changed its contents when a later call was made on the same object",
                                   max_change=float(np.nanmax(np.abs(h["arr"] - h["ref"])))))

    def run():
        with quiet():
            rv = syst.rvec.copy()
            ham = np.asarray(syst.get_R_mat('Ham'))
            cur, nret = None, -1
            for step, e in enumerate(hist):
                if e["op"] == "target":
                    cur = dict(e["t"])
                    nret += 1
                    if cur["kind"] == "grid":
                        rv.set_fft_R_to_k(NK=tuple(cur["fft"]), num_wann=2, fftlib=lib, dK=np.array(cur["dk"], dtype=float) / 12.0)
                    else:
                        rv.set_fft_R_to_k(NK=None, num_wann=2, k_list=np.array(cur["kl"], dtype=float) / 12.0)
                else:
                    n = len(e["cs"])
                    out = rv.R_to_k(rv.apply_expdK(ham.copy()), der=n, hermitian=bool(e["herm"]))
                    label = "klist" if cur["kind"] == "klist" else canon + ("" if lib == canon else ":mixed_case_fftlib")
                    exp = cy.arr_to_complex(np.array(e["rows"], dtype=float).reshape(-1, 2, 2, 4)) / float(DD) ** n
                    got = np.asarray(out)
                    comp = got[(slice(None), slice(None), slice(None)) + tuple(c - 1 for c in e["cs"])] if got.ndim == 3 + n else got
                    cmp.close(f"history:R_to_k:{label}:{'after_retarget:' if nret > 0 else ''}der{n}{':hermitian=True' if e['herm'] else ''}",
                              comp, exp, dict(det, call=step + 1))
                    if isinstance(out, np.ndarray):
                        held.append(dict(arr=out, ref=out.copy(), label=label, call=step + 1, reported=False))
                look_again(step + 1)
    guarded(rep, f"history:{canon}", det, run)
    info["histories"] += 1
    info["results_held"] += len(held)
    return det


# ---------------------------------------------------------------- records (code -> spec)
def random_exact_model(rng, thorough):
    nw = rng.choice([1, 2, 2, 3])
    dim = rng.choice([1, 2, 3])
    rmax = 2 if dim < 3 else 1
    lat = [[rng.choice([-1, 0, 1, 2]) for _ in range(3)] for _ in range(3)]
    while abs(np.linalg.det(np.array(lat, dtype=float))) < 0.5:
        lat = [[rng.choice([-1, 0, 1, 2]) for _ in range(3)] for _ in range(3)]
    D = rng.choice([1, 2, 4])
    tau = [[rng.randint(-D, 2 * D) for _ in range(3)] for _ in range(nw)]
    hops = {}
    for _ in range(rng.randint(1, 6)):
        R = tuple(rng.randint(-rmax, rmax) if j < dim else 0 for j in range(3))
        a, b = rng.randint(1, nw), rng.randint(1, nw)
        if R < (0, 0, 0) or (R == (0, 0, 0) and a > b):      # canonical representative of {hop, Hermitian partner}
            R, a, b = tuple(-x for x in R), b, a
        v = [rng.choice([-2, -1, 0, 1, 2]) for _ in range(4)] if rng.random() < 0.3 else [rng.choice([-2, -1, 0, 1, 2]), 0, 0, rng.choice([-1, 0, 1])]
        if R == (0, 0, 0) and a == b:
            v = [v[0], 0, 0, 0]
        hops[(R, a, b)] = tuple(v)
    full = dict(hops)
    for (R, a, b), v in hops.items():
        mR = tuple(-x for x in R)
        if (mR, b, a) != (R, a, b):
            full[(mR, b, a)] = (v[0] + v[2], v[1], -v[2], -v[1] - v[3])   # CConj
    hl = [dict(R=list(R), a=a, b=b, v=list(v)) for (R, a, b), v in sorted(full.items())]
    sizes = [1, 2, 3, 4, 6, 12] if thorough else [1, 2, 3, 4, 6]
    while True:
        fft = [rng.choice(sizes) if j < dim else rng.choice([1, 1, 2]) for j in range(3)]
        if fft[0] * fft[1] * fft[2] <= (36 if thorough else 12):
            break
    dk = [rng.randint(0, 11) for _ in range(3)]
    return dict(nw=nw, D=D, lat=lat, tau=tau, hops=hl, fft=fft, dk=dk)


def magnitude_bound(m, n):
    """bound on |entries| of D^n d^n H: sum of |amplitude| * max |ShiftVec|^n"""
    lat = np.array(m["lat"])
    big = 0.0
    for h in m["hops"]:
        w = m["D"] * np.array(h["R"]) + np.array(m["tau"][h["b"] - 1]) - np.array(m["tau"][h["a"] - 1])
        sv = np.abs(w @ lat).max()
        big += float(np.abs(np.array(h["v"])).sum()) * float(sv) ** n
    return big


def make_record(rep, rng, m):
    """one call of a real back end -> record with exact (rounded, integrality verified) rows at the k-points the code reports;
    None if skipped / the library raised (reported)"""
    from wannierberri.data_K.data_K_R import Data_K_R
    n = rng.choice([0, 0, 1, 1, 2, 3])
    while n > 0 and magnitude_bound(m, n) > 12000:
        n -= 1
    cs = sorted(rng.randint(1, 3) for _ in range(n))
    rng.shuffle(cs)
    kind = rng.choice(["fftw", "numpy", "slow", "klist"])
    spelled = kind if kind == "klist" or rng.random() < 0.6 else rng.choice(SPELL[kind])
    via = rng.choice(["Xbar", "R_to_k"]) if n > 0 else rng.choice(["HH_K", "Xbar", "R_to_k"])
    rec = dict(m, cs=cs, via=via, fftlib_as_passed=spelled)
    nkl = rng.randint(1, 8)
    k12 = [[rng.randint(-12, 23) for _ in range(3)] for _ in range(nkl)]
    det = {k: v for k, v in rec.items()}

    def run():
        syst = build_system(m["nw"], m["lat"], m["D"], m["tau"], m["hops"])
        grid = make_grid(rep, syst, tuple(m["fft"]))
        with quiet():
            if kind == "klist":
                d = Data_K_R(syst, grid=grid, k_list=np.array(k12, dtype=float) / 12.0, fftlib="fftw")
            else:
                d = Data_K_R(syst, dK=np.array(m["dk"], dtype=float) / 12.0, grid=grid, fftlib=spelled)
            if via == "HH_K":
                A = np.array(d.HH_K)
            elif via == "Xbar":
                A = unrotate(d.Xbar('Ham', n), d.UU_K)
            else:
                A = np.array(d.rvec.R_to_k(d.get_R_mat('Ham').copy(), der=n, hermitian=False))
        ka = None
        if kind != "klist":
            try:
                ka = np.array(d.kpoints_all)
            except AttributeError as ex:
                skipped_private(rep, "Data_K.kpoints_all (the order of the FFT grid is then assumed to be the one of the specification)", ex)
        return A, ka
    done, r = guarded(rep, f"Data_K_R:{kind}", dict(det, kind=kind), run)
    if not done:
        return None
    A, ka = r
    if kind == "klist":
        rec.update(kind="klist", k12=k12, lib="klist")
    else:
        fft, dk = m["fft"], m["dk"]
        if ka is None:
            kk = [[(12 // fft[0] * i + dk[0]) % 12, (12 // fft[1] * j + dk[1]) % 12, (12 // fft[2] * k + dk[2]) % 12]
                  for i in range(fft[0]) for j in range(fft[1]) for k in range(fft[2])]
        else:
            t = twelfths(ka)
            if t is None:
                rep.violation(f"kpoints_all:off_grid:{kind}", dict(det, kpoints_all=np.asarray(ka).tolist()))
                return None
            kk = (t % 12).tolist()
        rec.update(kind="fft", lib=kind, k12=kk)
    idx = (slice(None), slice(None), slice(None)) + tuple(c - 1 for c in cs)
    A = A[idx] * float(m["D"]) ** n
    try:
        rec["rows"] = project_exact(A, bound=max(64, int(magnitude_bound(m, n)) + 2))
    except ValueError as e:
        rep.violation(f"non-integral projection:{via}:{rec['lib']}", dict(record=rec, error=str(e)))
        return None
    return rec


NUMERIC_SIZES = (1, 2, 3, 4, 5, 6, 7, 8, 9, 11, 12, 16)


def numeric_only(rep, rng, ncases):
    """random real-valued models / lattices / centres / FFT sizes / K-shifts: the back ends against each other"""
    import wannierberri as wb
    from wannierberri.data_K.data_K_R import Data_K_R
    worst = 0.0
    sizes_seen = set()
    for ic in range(ncases):
        r = np.random.RandomState(rng.randrange(1 << 30))
        nw = int(r.randint(1, 4))
        ham = defaultdict(dict)
        for _ in range(int(r.randint(1, 7))):
            R = tuple(int(x) for x in r.randint(-3, 4, size=3))
            M = r.randn(nw, nw) + 1j * r.randn(nw, nw)
            if R == (0, 0, 0):
                M = (M + M.conj().T) / 2
            for a in range(nw):
                for b in range(nw):
                    ham[R][(a, b)] = M[a, b]
                    if R != (0, 0, 0):
                        ham[tuple(-x for x in R)][(b, a)] = np.conj(M[a, b])
        lat = np.eye(3) + 0.3 * r.randn(3, 3)
        while abs(np.linalg.det(lat)) < 0.2:
            lat = np.eye(3) + 0.3 * r.randn(3, 3)
        cen = 2 * r.rand(nw, 3) - 0.5
        while True:
            fft = tuple(int(r.choice(NUMERIC_SIZES)) for _ in range(3))
            if fft[0] * fft[1] * fft[2] <= 160:
                break
        sizes_seen |= set(fft)
        nk = fft[0] * fft[1] * fft[2]
        dk = r.rand(3)
        det = dict(seed_case=ic, nw=nw, NKFFT=list(fft), dK=dk.tolist(), lattice=lat.tolist(), centres=cen.tolist(),
                   ham={str(k): {str(kk): str(vv) for kk, vv in v.items()} for k, v in ham.items()})
        done, built = guarded(rep, "numeric_only:from_sparse", det, lambda: _numeric_system(wb, lat, cen, ham, fft, rep))
        rep.case(("numeric", ic, nk, nw), nontrivial=False)
        if not done:
            continue
        syst, grid = built
        res = {}
        for lib in LIBS + ("klist",):
            def run(lib=lib):
                with quiet():
                    if lib != "klist":
                        d = Data_K_R(syst, dK=dk, grid=grid, fftlib=lib)
                        k = np.array(d.kpoints_all)
                    else:
                        k = kref
                        d = Data_K_R(syst, grid=grid, k_list=kref, fftlib="numpy")
                    vals = [np.array(d.HH_K)] + [unrotate(d.Xbar('Ham', n), d.UU_K) for n in (1, 2, 3)]
                    vals.append(np.array(d.rvec.R_to_k(d.get_R_mat('Ham').copy(), der=1, hermitian=True)))
                return vals, k
            if lib == "klist":
                if "slow" not in res:
                    continue
                kref = res["slow"][1]
            done, out = guarded(rep, f"numeric_only:Data_K_R:{lib}", dict(det, fftlib=lib), run)
            if done:
                res[lib] = out
        if "slow" not in res:
            continue
        ref, kref = res["slow"]
        for lib in ("fftw", "numpy", "klist"):
            if lib not in res:
                continue
            vals, k = res[lib]
            if k.shape != kref.shape or np.abs(((k - kref + 0.5) % 1.0) - 0.5).max() > 1e-9:
                # another order of the grid: match the rows by their k-points (distance on the circle)
                rowmap = [int(np.argmin(np.abs(((kref - kk[None, :] + 0.5) % 1.0) - 0.5).max(axis=1))) for kk in k]
                if sorted(rowmap) != list(range(nk)):
                    rep.violation(f"numeric_only:kpoints_all:{lib}", dict(det, what="the k-points of this back end are not those of 'slow'"))
                    continue
                vals = [_scatter(A, rowmap) for A in vals]
            for n in range(5):
                scale = max(1.0, float(np.abs(ref[n]).max()))
                dev = float(np.abs(vals[n] - ref[n]).max()) / scale if vals[n].shape == ref[n].shape else float("inf")
                worst = max(worst, dev) if np.isfinite(dev) else worst
                name = f"der{n}" if n < 4 else "der1_hermitian=True"
                if dev > 1e-8:
                    rep.violation(f"numeric_only:backends_differ:{lib}-slow:{name}", dict(det, deviation=dev))
        for lib, (vals, _) in res.items():
            for n in range(4):
                scale = max(1.0, float(np.abs(vals[n]).max()))
                hd = float(np.abs(vals[n] - vals[n].swapaxes(1, 2).conj()).max()) / scale
                worst = max(worst, hd)
                if hd > 1e-8:
                    rep.violation(f"numeric_only:hermitian:{lib}:der{n}", dict(seed_case=ic, nw=nw, NKFFT=list(fft), deviation=hd))
            scale = max(1.0, float(np.abs(vals[1]).max()))
            hd = float(np.abs(vals[4] - vals[1]).max()) / scale if vals[4].shape == vals[1].shape else float("inf")
            if hd > 1e-8:
                rep.violation(f"numeric_only:hermitian=True_changes_der1:{lib}", dict(seed_case=ic, nw=nw, NKFFT=list(fft), deviation=hd))
    rep.part("numeric_only", cases=ncases, max_relative_deviation=worst, fft_sizes_seen=sorted(sizes_seen),
             what="random real-valued models, lattices, centres, FFT sizes from " + str(list(NUMERIC_SIZES)) + " (<= 160 points), real "
                  "K-shifts: fftw / numpy / k-list vs slow for H and derivatives 1-3 and R_to_k(der=1, hermitian=True), Hermiticity (1e-8)")


def _scatter(A, rowmap):
    B = np.empty_like(A)
    B[rowmap] = A
    return B


def _numeric_system(wb, lat, cen, ham, fft, rep):
    with quiet():
        syst = wb.system.System_R.from_sparse(real_lattice=lat, wannier_centers_red=cen, matrices={"Ham": dict(ham)})
    return syst, make_grid(rep, syst, fft)


def check(pid, tier):
    rep = Report(pid, tier, "model_checking")
    try:
        return _check(rep, tier)
    except Exception:
        finish_on_error(rep)
        raise


def _check(rep, tier):
    thorough = tier == "thorough"
    rng = random.Random(seed() * 7919 + 2)
    import wannierberri  # noqa: F401  (import before the timers of the replays)
    from wannierberri.fourier import fft as wbfft
    if not getattr(wbfft, "PYFFTW_IMPORTED", True):
        rep.assume("pyfftw is not importable: fftlib='fftw' silently falls back to numpy in this environment")
    rep.rule("TLC enumerates every Hermitian model with <= MAXHOPS independent hoppings over the listed R universe / orbital pairs / "
             "amplitudes, every listed lattice, centre set, FFT grid and K-shift; a case = one enumerated input replayed on the real "
             "back ends (numpy, one of fftw / slow chosen by the seed, the k-list; every stride-th input all four; HH_K, Xbar, R_to_k; "
             "derivative orders 0..MAXDER, all 3^n components; fftlib in lower case, 30% of the calls in mixed case) with exact expected "
             "values from the TLC state; every complete call history of MC_TBFourierHist replayed on one real Rvectors object; plus "
             "seeded random recorded calls validated by TLC; distinct by input")
    rep.assume("amplitudes in Z[zeta12], centres in quarters, integer lattice matrices, FFT sizes dividing 12, K-shifts in twelfths: the "
               "exact values lie in Z[zeta12]/4^der and the floating-point results are exact to ~1e-13")
    cyclo_library_check(rep)
    cmp = Compare(rep)

    # ---------------- spec -> code
    if thorough:
        configs = [
            ("c02_1d", dict(RSETID=1, NWS="{1, 2}", LATIDS="{1, 2}", TAUIDS="{1, 2, 3}", AMPIDS="{1, 2}", MAXHOPS=2,
                            FFTS="{111, 211, 311, 411, 611}", DKS="{0, 10000, 50000}", MAXDER=1), 4),
            ("c02_1d_der3", dict(RSETID=1, NWS="{1, 2}", LATIDS="{1, 2}", TAUIDS="{1, 2, 3}", AMPIDS="{1, 2, 3, 4}", MAXHOPS=1,
                                 FFTS="{111, 211, 311, 411, 611}", DKS="{0, 10000, 70000}", MAXDER=3), 1),
            ("c02_2d", dict(RSETID=3, NWS="{1, 2}", LATIDS="{2}", TAUIDS="{1, 2}", AMPIDS="{1, 2}", MAXHOPS=1,
                            FFTS="{221, 231, 321, 341, 441, 621}", DKS="{0, 60500, 20200}", MAXDER=2), 1),
            ("c02_2d_two", dict(RSETID=2, NWS="{2}", LATIDS="{2}", TAUIDS="{2}", AMPIDS="{1, 2}", MAXHOPS=2,
                                FFTS="{221, 231, 341}", DKS="{10300}", MAXDER=1), 3),
            ("c02_3d", dict(RSETID=4, NWS="{1, 2}", LATIDS="{1, 3}", TAUIDS="{2}", AMPIDS="{1, 2}", MAXHOPS=1,
                            FFTS="{222, 232, 123}", DKS="{0, 10305}", MAXDER=2), 1),
            ("c02_nw3", dict(RSETID=5, NWS="{3}", LATIDS="{2}", TAUIDS="{1, 2}", AMPIDS="{1, 2}", MAXHOPS=1,
                             FFTS="{211, 311, 411, 611}", DKS="{10000}", MAXDER=2), 1),
        ]
    else:
        configs = [
            ("c02_1d_der3", dict(RSETID=1, NWS="{2}", LATIDS="{2}", TAUIDS="{2}", AMPIDS="{1, 2}", MAXHOPS=1,
                                 FFTS="{111, 211, 311, 411, 611}", DKS="{0, 10000}", MAXDER=3), 2),
            ("c02_1d", dict(RSETID=1, NWS="{1, 2}", LATIDS="{1}", TAUIDS="{1, 2}", AMPIDS="{1, 2}", MAXHOPS=1,
                            FFTS="{111, 211, 311, 411, 611}", DKS="{0, 20000}", MAXDER=1), 4),
            ("c02_2d", dict(RSETID=2, NWS="{2}", LATIDS="{2}", TAUIDS="{2}", AMPIDS="{1, 2}", MAXHOPS=1,
                            FFTS="{221, 231, 341}", DKS="{10300}", MAXDER=2), 2),
            ("c02_1d_two", dict(RSETID=1, NWS="{2}", LATIDS="{1}", TAUIDS="{2}", AMPIDS="{2}", MAXHOPS=2,
                                FFTS="{211, 311}", DKS="{50000}", MAXDER=1), 2),
        ]
    nalias = nshift = ntriv = nreplayed = 0
    info = dict(grid_listed_in_another_order=0, backends_per_state=defaultdict(int), mixed_case_spellings=0, histories=0, results_held=0)
    hist_kw = (dict(MODELIDS="{1, 3}", TARGETIDS="{1, 2, 3, 4}", ARGIDS="{1, 2, 3, 4}", LIBS='{"fftw", "FFTW", "numpy", "Slow"}', DEPTH=5, MAXRET=1)
               if thorough else {})
    cpu0 = os.times()
    sens = dict(RSETID=1, NWS="{1}", LATIDS="{1}", TAUIDS="{1}", AMPIDS="{1, 2}", MAXHOPS=1, FFTS="{211, 311}", DKS="{10000}", MAXDER=0)
    # all TLC runs of the model-checking part at once (at most four JVMs at a time), the replays afterwards
    results = tlc_batch([dict(module="MC_TBFourier.tla", cfg=mc_cfg(**kw)[0], name=name) for name, kw, _ in configs] +
                        [dict(module="MC_TBFourier.tla", cfg=mc_cfg(**dict(sens, OnReducedR="TRUE"))[0], name="c02_sens_phase", dump=False,
                              workers=2, heap="1g", coverage=False, timeout=900),
                         dict(module="MC_TBFourier.tla", cfg=mc_cfg(**dict(sens, Symmetrise="FALSE"))[0], name="c02_sens_herm", dump=False,
                              workers=2, heap="1g", coverage=False, timeout=900),
                         dict(module="MC_TBFourierHist.tla", cfg=hist_cfg(**hist_kw)[0], name="c02_hist")] +
                        [dict(module="MC_TBFourierHist.tla", cfg=hist_cfg(**dict(HIST_SENS, **kw))[0], name=f"c02_sens_{nm}", dump=False,
                              workers=2, heap="1g", coverage=False, timeout=900)
                         for nm, kw in (("buffer", dict(SharedBuffer="TRUE")), ("staledk", dict(StaleDK="TRUE")),
                                        ("spelling", dict(KeepSpelling="TRUE", LIBS='{"FFTW"}')))])
    st1, st2, hst, sb, sd, sp = results[len(configs):]
    for (name, kw, stride), tst in zip(configs, results):
        cfg, consts = mc_cfg(**kw)
        if tst.get("violation"):
            from ..ftable import spec_violation
            spec_violation(rep, tst, name)
            continue
        tlc.check_not_vacuous(tst, ["Eval"], name)
        tst["constants"] = consts
        rep.add_tlc(name, tst)
        states = sorted_states(tst, ("direct",), lambda s: s["phase"] == "done",
                               lambda s: (s["nw"], s["latid"], s["tauid"], tuple(s["fft"]), tuple(s["dk"]),
                                          sorted((tuple(h["R"]), h["a"], h["b"], tuple(h["v"])) for h in map(dict, s["hops"]))))
        if 2 * len(states) != tst["distinct"]:
            raise MachineryError(f"{name}: {len(states)} finished states in the dump, TLC reported {tst['distinct']} states")
        for idx, s in enumerate(states):
            hops = [dict(h) for h in s["hops"]]
            Rs = {tuple(h["R"]) for h in hops} | {(0, 0, 0)}
            fft = tuple(s["fft"])
            alias = len({tuple(r % f for r, f in zip(R, fft)) for R in Rs}) < len(Rs)
            trivial = all(all(x == 0 for x in v) for v in np.asarray([[list(m[a][b]) for a in range(s["nw"]) for b in range(s["nw"])]
                                                                      for m in s["direct"][()]]).reshape(-1, 4))
            # every state: numpy + one seeded FFT back end + k-list; every stride-th state: all back ends
            det = replay_state(rep, cmp, s, consts["MAXDER"], rng, (idx + 1) % stride == 0, info)
            rep.case((name, s["nw"], s["latid"], s["tauid"], tuple(sorted((tuple(h["R"]), h["a"], h["b"], tuple(h["v"])) for h in hops)),
                      fft, tuple(s["dk"])), nontrivial=not trivial)
            nalias += alias
            nshift += any(s["dk"])
            ntriv += trivial
            nreplayed += 1
            if nreplayed <= 2:
                rep.sample(dict(config=name, **det, HH_K_first_row=str(exact_rows_array(s["direct"], 0, 1, s["nw"], DD)[0].tolist())))
        drop_scratch(tst)
    # ---------------- call histories on one Rvectors object: spec -> code
    if hst.get("violation"):
        from ..ftable import spec_violation
        spec_violation(rep, hst, "c02_hist")
    else:
        tlc.check_not_vacuous(hst, ["SetTarget", "ReTarget", "CallRtoK"], "c02_hist")
        hconsts = hist_cfg(**hist_kw)[1]
        hst["constants"] = hconsts
        rep.add_tlc("c02_hist", hst)
        hstates = sorted_states(hst, ("hist", "hops"), lambda s: len(s["hist"]) == hconsts["DEPTH"],
                                lambda s: (s["model"], s["lib"], s["hist"]))
        systs = {}
        shapes = defaultdict(int)
        for s in hstates:
            det = replay_history(rep, cmp, s, systs, info)
            ops = [dict(e) for e in s["hist"]]
            kinds = [dict(e["t"])["kind"] for e in ops if e["op"] == "target"]
            shapes["->".join(kinds)] += 1
            rep.case(("hist", s["model"], s["lib"], repr([(e["op"], e["id"]) for e in ops])), nontrivial=True)
            if info["histories"] == 1:
                rep.sample(dict(config="c02_hist", **det))
        if not rep.violations and (not shapes.get("grid->klist") or not shapes.get("grid->grid") or not shapes.get("grid")):
            raise MachineryError(f"vacuous history enumeration: {dict(shapes)}")
        rep.part("replay_histories", histories=info["histories"], arrays_held_and_rechecked=info["results_held"], by_targets=dict(shapes),
                 what="one Rvectors object per history; every array returned by R_to_k is kept and compared again with a copy taken at "
                      "return time after every later call (set_fft_R_to_k / R_to_k) on the same object")
        drop_scratch(hst)
    if not rep.violations and (nalias == 0 or nshift == 0 or nreplayed - ntriv == 0):
        raise MachineryError(f"vacuous enumeration: aliasing cases {nalias}, shifted cases {nshift}, non-zero models {nreplayed - ntriv}")
    cpu1 = os.times()
    rep.part("replay", states_replayed=nreplayed, with_aliasing=nalias, with_K_shift=nshift, zero_models=ntriv,
             states_by_number_of_back_ends_run={str(k): v for k, v in sorted(info["backends_per_state"].items())},
             max_relative_deviation_from_exact=cmp.maxdev, max_hermiticity_deviation=cmp.maxherm, tolerance=TOL,
             replay_cpu_s=round(cpu1.user + cpu1.system - cpu0.user - cpu0.system, 1))
    rep.part("information_not_part_of_the_statement", fft_grid_listed_in_another_order_than_the_model=info["grid_listed_in_another_order"])
    rep.part("replay", back_ends_called_with_a_mixed_case_fftlib=info["mixed_case_spellings"])
    if cmp.maxdev * 1e4 > TOL:
        rep.part("tolerance_warning", observed=cmp.maxdev, tolerance=TOL, what="the tolerance is less than 10^4 times the observed deviation")

    # ---------------- sensitivity: plausible wrong variants must be rejected by TLC
    if not st1.get("violation") or st1["violation"][1] != "FFTEqualsDirect":
        raise MachineryError(f"sensitivity self-test failed: K-shift phase on the reduced R should violate FFTEqualsDirect ({st1.get('violation')}, {st1.get('error')})")
    if not st2.get("violation") or st2["violation"][1] not in ("HkHermitian", "HermSymNoopHHK"):
        raise MachineryError(f"sensitivity self-test failed: non-Hermitian models should violate HkHermitian ({st2.get('violation')}, {st2.get('error')})")
    for x, what in ((sb, "a returned array that is the FFTW plan's input buffer"), (sd, "stale K-shift phases after re-targeting to a k-list"),
                    (sp, "fftlib not lower-cased")):
        if not x.get("violation") or x["violation"][1] != "ResultsAreValues":
            raise MachineryError(f"sensitivity self-test failed: {what} should violate ResultsAreValues ({x.get('violation')}, {x.get('error')})")
    rep.part("sensitivity", phase_on_reduced_R=st1["violation"][1], non_hermitian_model=st2["violation"][1],
             shared_fftw_buffer=sb["violation"][1], stale_dK_after_retarget=sd["violation"][1], fftlib_spelling_kept=sp["violation"][1])
    for x in (st1, st2, sb, sd, sp):
        x["violation"] = None
        drop_scratch(x)

    # ---------------- code -> spec
    recs = []
    nrec = 600 if thorough else 60
    nmodel = tries = 0
    while len(recs) < nrec and tries < 20 * nrec:
        m = random_exact_model(rng, thorough)
        nmodel += 1
        for _ in range(3):
            tries += 1
            r = make_record(rep, rng, m)
            if r is not None:
                recs.append(r)
    # every back end must occur: top up deterministically
    for lib in LIBS + ("klist",):
        tries = 0
        while not any(r["lib"] == lib for r in recs) and tries < 200 and not rep.violations:
            tries += 1
            r = make_record(rep, rng, random_exact_model(rng, thorough))
            if r is not None and r["lib"] == lib:
                recs.append(r)
        if not any(r["lib"] == lib for r in recs) and not rep.violations:
            raise MachineryError(f"no record for back end {lib}")
    if recs:
        stv, bad = validate_parallel("TBFourierRec.tla", recs, "c02")
        rep.add_tlc("c02_records", stv)
        rep.add_traces(len(recs))
        for i, clauses in bad.items():
            r = recs[i]
            rep.violation(f"recorded:{r['via']}:{r['lib']}:" + ",".join(sorted(clauses)), dict(record=r, failing_clauses=clauses))
        kinds = defaultdict(int)
        distinct = set()
        for r in recs:
            kinds[(r["via"], r["lib"], len(r["cs"]))] += 1
            key = repr((r["nw"], r["D"], r["lat"], r["tau"], r["hops"], r["fft"], r["dk"], r["cs"], r["via"], r["lib"], r["k12"]))
            if key not in distinct:
                distinct.add(key)
                rep.case(("rec", key), nontrivial=True)
        rep.part("records", models=nmodel, distinct_calls=len(distinct), by_kind={f"{a}/{b}/der{c}": n for (a, b, c), n in sorted(kinds.items())})
        rep.sample({k: v for k, v in recs[0].items()})
        # binding self-test: corrupted records must be rejected
        cand = [r for r in recs if any(any(x != 0 for x in e) for row in r["rows"] for line in row for e in line)]
        if not cand:
            raise MachineryError("no non-zero record for the binding self-test")
        b1 = copy.deepcopy(cand[0])
        b1["rows"][0][0][0][0] += 1
        src2 = next((r for r in cand if r["kind"] == "fft" and len(r["rows"]) > 1 and r["rows"][0] != r["rows"][1]), None)
        bads = [b1]
        if src2 is not None:
            b2 = copy.deepcopy(src2)
            b2["rows"] = b2["rows"][1:] + b2["rows"][:1]     # rows attributed to the wrong k-points
            bads.append(b2)
        _, bb = validate_parallel("TBFourierRec.tla", bads, "c02_selftest", 1)
        if any(i not in bb for i in range(len(bads))):
            raise MachineryError(f"binding self-test failed: corrupted records accepted ({bb})")
        rep.part("binding_selftest", corrupted_records_rejected={str(k): v for k, v in bb.items()})

    numeric_only(rep, rng, 400 if thorough else 40)
    return rep.finish()
