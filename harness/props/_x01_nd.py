"""X01 (a): binding of NeededData.tla to wannierberri.system.needed_data.NeededData"""
import zlib

FLAGS = ["berry", "morb", "spin", "SHCryoo", "SHCqiao", "OSD", "qmetric", "FF", "force_internal_terms_only", "keepOOGG", "OOGG_to_FF", "chk"]
DEFAULTS = {f: f in ("OOGG_to_FF", "chk") for f in FLAGS}
MATRICES = ["Ham", "AA", "BB", "CC", "OO", "GG", "FF", "SS", "SH", "SR", "SA", "SHA", "SHR"]
FITO = "force_internal_terms_only"


def stable(obj, m):
    return zlib.crc32(repr(obj).encode()) % m


def cls():
    from wannierberri.system.needed_data import NeededData
    return NeededData


def names(x, what):
    """a collection of matrix / file names of the real object -> (sorted list, had duplicates)"""
    xs = [str(y) for y in x]
    return sorted(set(xs)), len(set(xs)) != len(xs)


def flag_class(fl):
    on = [f for f in FLAGS if fl[f] and f not in ("chk", "OOGG_to_FF")]
    return "+".join(on) if on else "none"


def replay_init(vio, guarded, fl, exp_m, exp_f, counts):
    """one TLC state of kind "init" on the real class; returns False when the constructor raised"""
    kw = dict(fl)
    how = stable(sorted(fl.items()), 3)
    if how == 1:            # rely on the defaults for the flags that have their default value
        kw = {f: v for f, v in fl.items() if v != DEFAULTS[f]}
    elif how == 2:          # the way the system constructors call it: get_parameters first
        r = guarded("NeededData.get_parameters", dict(flags=fl), lambda: cls().get_parameters(seedname="x", **fl))
        if r is None:
            return False
        kw = r[1]
    nd = guarded("NeededData.__init__", dict(flags=fl), lambda: cls()(**kw))
    if nd is None:
        return False
    ms, dup_m = names(nd.matrices, "matrices")
    fs, dup_f = names(nd.files, "files")
    det = dict(flags={f: v for f, v in fl.items() if v != DEFAULTS[f]}, call="NeededData(**flags)", expected_matrices=sorted(exp_m), got_matrices=ms,
               expected_files=sorted(exp_f), got_files=fs)
    if set(ms) != set(exp_m):
        d = sorted(set(ms) ^ set(exp_m))
        vio.violation(f"NeededData.__init__:matrices:{d[0]}", dict(det, differing=d))
    if set(fs) != set(exp_f):
        d = sorted(set(fs) ^ set(exp_f))
        vio.violation(f"NeededData.__init__:files:{d[0]}", dict(det, differing=d))
    if dup_m or dup_f:
        counts["duplicates_in_collections"] = counts.get("duplicates_in_collections", 0) + 1
    # need_any / not_in_list on the object itself: truthy iff the intersection with its own matrices is not empty
    h = stable(("q", sorted(fl.items())), len(MATRICES))
    probes = [MATRICES[h], [MATRICES[h], MATRICES[(h + 5) % len(MATRICES)]], ("OO", "GG"), [], "XX"]
    for p in probes:
        r = guarded("NeededData.need_any", dict(flags=fl, keys=p), lambda: (nd.need_any(p),))
        if r is None:
            continue
        want = bool(set([p] if isinstance(p, str) else p) & set(ms))
        if bool(r[0]) != want:
            vio.violation("NeededData.need_any:truth", dict(det, keys=p, returned=repr(r[0]), expected_truth=want))
        if r[0] is None:
            counts["need_any_returns_None_for_false"] = counts.get("need_any_returns_None_for_false", 0) + 1
    lst = [m for j, m in enumerate(MATRICES) if (h + j) % 3]
    for arg in (lst, set(lst), tuple(lst)):
        r = guarded("NeededData.not_in_list", dict(flags=fl, matrices=sorted(lst)), lambda: (nd.not_in_list(arg),))
        if r is not None and set(r[0]) != set(ms) - set(lst):
            vio.violation("NeededData.not_in_list:difference", dict(det, given=sorted(lst), returned=sorted(r[0])))
    counts[("init", how)] = counts.get(("init", how), 0) + 1
    return True


def replay_split(vio, guarded, keys, exp_rest, exp_sel, counts):
    marks = {k: (k in DEFAULTS and stable(k, 2) == 0) if k in DEFAULTS else ("mark", k) for k in keys}
    r = guarded("NeededData.get_parameters", dict(keys=sorted(keys)), lambda: cls().get_parameters(**marks))
    if r is None:
        return False
    try:
        rest, sel = r
        rest, sel = dict(rest), dict(sel)
    except (TypeError, ValueError):
        vio.violation("NeededData.get_parameters:return_type", dict(keys=sorted(keys), returned=repr(r)[:200]))
        return False
    det = dict(call="NeededData.get_parameters(**{k: ..})", keys=sorted(keys), expected_rest=sorted(exp_rest), got_rest=sorted(rest),
               expected_selected=sorted(exp_sel), got_selected=sorted(sel))
    if set(rest) != set(exp_rest):
        vio.violation(f"NeededData.get_parameters:rest:{sorted(set(rest) ^ set(exp_rest))[0]}", det)
    if set(sel) != set(exp_sel):
        vio.violation(f"NeededData.get_parameters:selected:{sorted(set(sel) ^ set(exp_sel))[0]}", det)
    if any(rest[k] != marks[k] for k in rest if k in marks) or any(sel[k] != marks[k] for k in sel if k in marks):
        vio.violation("NeededData.get_parameters:values", dict(det, what="a value was changed on the way"))
    counts["split"] = counts.get("split", 0) + 1
    return True


def record_init(rng, guarded):
    on, off = [], []
    for f in FLAGS:
        r = rng.random()
        if r < 0.3:
            on.append(f)
        elif r < 0.55:
            off.append(f)
    kw = {f: True for f in on}
    kw.update({f: False for f in off})
    if rng.random() < 0.3:
        kw["transl_inv_JM"] = True                  # swallowed by **kwargs
    nd = guarded("NeededData.__init__", dict(flags=kw), lambda: cls()(**kw))
    if nd is None:
        return None
    na = []
    for _ in range(4):
        ks = rng.sample(MATRICES + ["XX", "SRA"], rng.randint(0, 3))
        arg = ks[0] if len(ks) == 1 and rng.random() < 0.5 else (tuple(ks) if rng.random() < 0.5 else ks)
        r = guarded("NeededData.need_any", dict(flags=kw, keys=ks), lambda: (nd.need_any(arg),))
        if r is not None:
            na.append([ks, bool(r[0])])
    ni = []
    for _ in range(2):
        ks = rng.sample(MATRICES + ["XX"], rng.randint(0, len(MATRICES)))
        r = guarded("NeededData.not_in_list", dict(flags=kw, matrices=ks), lambda: (nd.not_in_list(ks if rng.random() < 0.5 else set(ks)),))
        if r is not None:
            ni.append([ks, sorted(str(x) for x in r[0])])
    return dict(kind="init", on=on, off=off, matrices=[str(x) for x in nd.matrices], files=[str(x) for x in nd.files], need_any=na, not_in=ni,
                keys=[], rest=[], selected=[])


def record_split(rng, guarded):
    pool = FLAGS + ["seedname", "use_ws", "npar", "berry_", "Chk", "ff"]
    keys = rng.sample(pool, rng.randint(0, len(pool)))
    r = guarded("NeededData.get_parameters", dict(keys=keys), lambda: cls().get_parameters(**{k: False for k in keys}))
    if r is None:
        return None
    return dict(kind="split", on=[], off=[], matrices=[], files=[], need_any=[], not_in=[], keys=keys, rest=sorted(r[0]), selected=sorted(r[1]))
