"""helpers shared by c13.py and c14.py: concurrent TLC runs and parallel record validation"""
from .. import tlc, ftable


def tlc_jobs(jobs, total_workers=16):
    """jobs: {name: (module, cfg, dump)} run concurrently (each TLC gets WORKERS/len workers, at least 2) -> {name: stats}"""
    from concurrent.futures import ThreadPoolExecutor
    w = max(2, total_workers // max(1, len(jobs)))

    def one(item):
        name, (module, cfg, dump) = item
        if dump:
            return name, ftable.enumerate_states(module, cfg, name, workers=w)
        return name, tlc.run_tlc(module, cfg, name, workers=w, timeout=1500)
    with ThreadPoolExecutor(max_workers=len(jobs)) as ex:
        return dict(ex.map(one, jobs.items()))


def validate_parallel(module, cfg, recs, name, nchunks):
    """ftable.validate_records on nchunks slices concurrently (record validation is single-threaded in TLC)"""
    from concurrent.futures import ThreadPoolExecutor
    nchunks = max(1, min(nchunks, len(recs)))
    size = (len(recs) + nchunks - 1) // nchunks
    slices = [(c, recs[c * size:(c + 1) * size]) for c in range(nchunks) if recs[c * size:(c + 1) * size]]
    with ThreadPoolExecutor(max_workers=len(slices)) as ex:
        outs = list(ex.map(lambda t: ftable.validate_records(module, cfg, t[1], f"{name}_{t[0]}"), slices))
    tot = dict(distinct=0, generated=0, wall_s=0.0, mode="record-validation")
    bad = {}
    for (c, _), (st, b) in zip(slices, outs):
        tot["distinct"] += st["distinct"]
        tot["generated"] += st["generated"]
        tot["wall_s"] = max(tot["wall_s"], st["wall_s"])
        for i, cl in b.items():
            bad[c * size + i] = cl
    return tot, bad
