"""helpers shared by c13.py, c14.py and c15.py: bounded concurrent TLC runs with per-process scratch names, parallel record
validation, calls of the library that turn its exceptions into violations, a check() wrapper that never loses collected
violations, and a duck data_K base that lends every other method of the real Data_K"""
import functools
import os
import shutil
import types

from .. import tlc, ftable
from ..common import MachineryError, WORK

PID = os.getpid()
_scratch = set()            # directories created by this process (removed by cleanup())


def uniq(name):
    """scratch name unique per property run (names carry the property id) and process"""
    return f"{name}_p{PID}"


def _note(*dirs):
    for d in dirs:
        _scratch.add(d)


def _note_tlc(name):
    _note(os.path.join(WORK, "tlc", name))


def _note_rec(name):
    # ftable.validate_records(name): WORK/records/<name> and one TLC run rec_<name>_<c0> per chunk of 20000
    _note(os.path.join(WORK, "records", name), os.path.join(WORK, "tlc", f"rec_{name}_0"))


def cleanup():
    for d in sorted(_scratch):
        shutil.rmtree(d, ignore_errors=True)
    _scratch.clear()


def _enumerate(module, cfg, un, workers, coverage=False, timeout=1500):
    """TLC with -dump (like ftable.enumerate_states, but without -coverage, which slows the evaluation noticeably; the
    callers prove non-vacuity from the dumped states)"""
    st = tlc.run_tlc(module, cfg, un, workers=workers, dump=True, coverage=coverage, timeout=timeout)
    if st.get("timeout"):
        raise MachineryError(f"TLC timed out on {un}")
    if st.get("error") and not st.get("violation"):
        raise MachineryError(f"TLC error on {un}: {st['error'][:600]}")
    return st


def tlc_jobs(jobs, total_workers=16, max_concurrent=3):
    """jobs: {name: (module, cfg, dump)}; at most max_concurrent TLC processes at a time, 4..6 workers each -> {name: stats}"""
    from concurrent.futures import ThreadPoolExecutor
    nconc = max(1, min(max_concurrent, len(jobs)))
    w = max(4, min(6, total_workers // nconc))

    def one(item):
        name, (module, cfg, dump) = item
        un = uniq(name)
        _note_tlc(un)
        if dump:
            return name, _enumerate(module, cfg, un, w)
        st = tlc.run_tlc(module, cfg, un, workers=w, coverage=False, timeout=1500)
        if st.get("timeout"):
            raise MachineryError(f"TLC timed out on {name}")
        return name, st
    with ThreadPoolExecutor(max_workers=nconc) as ex:
        return dict(ex.map(one, jobs.items()))


def enumerate_states(module, cfg, name, workers=6, coverage=False, **kw):
    un = uniq(name)
    _note_tlc(un)
    return _enumerate(module, cfg, un, workers, coverage=coverage, **kw)


def run_tlc(module, cfg, name, workers=6, **kw):
    un = uniq(name)
    _note_tlc(un)
    kw.setdefault("coverage", False)
    return tlc.run_tlc(module, cfg, un, workers=workers, **kw)


def validate_records(module, cfg, recs, name):
    un = uniq(name)
    _note_rec(un)
    return ftable.validate_records(module, cfg, recs, un)


def validate_parallel(module, cfg, recs, name, nchunks, max_concurrent=3):
    """ftable.validate_records on nchunks slices, max_concurrent at a time (record validation is single-threaded in TLC)"""
    from concurrent.futures import ThreadPoolExecutor
    nchunks = max(1, min(nchunks, len(recs)))
    size = (len(recs) + nchunks - 1) // nchunks
    slices = [(c, recs[c * size:(c + 1) * size]) for c in range(nchunks) if recs[c * size:(c + 1) * size]]
    with ThreadPoolExecutor(max_workers=max(1, min(max_concurrent, len(slices)))) as ex:
        outs = list(ex.map(lambda t: validate_records(module, cfg, t[1], f"{name}_{t[0]}"), slices))
    tot = dict(distinct=0, generated=0, wall_s=0.0, mode="record-validation")
    bad = {}
    for (c, _), (st, b) in zip(slices, outs):
        tot["distinct"] += st["distinct"]
        tot["generated"] += st["generated"]
        tot["wall_s"] = max(tot["wall_s"], st["wall_s"])
        for i, cl in b.items():
            bad[c * size + i] = cl
    return tot, bad


# ---------------------------------------------------------------------------------------------------------------------
class LibraryRaised(Exception):
    """wrapper for an exception that a compiled (numba) function of the library raised: such functions leave no frame in
    the traceback, so the adapter that calls them says where the exception came from; args = (original exception,)"""


def compiled_call(fn, *a, **kw):
    """call of an njit-compiled library function: arithmetic / index / value errors come from the function body
    (typing errors of numba and TypeError stay what they are: the harness called it wrongly)"""
    try:
        return fn(*a, **kw)
    except (ArithmeticError, IndexError, ValueError, AssertionError) as ex:
        raise LibraryRaised(ex) from ex


class PrivateGone(Exception):
    """a private name / internal interface that a sub-check relies on is not there any more: skip the sub-check"""


def skipped_private(rep, what, why):
    rep.part("skipped_private", **{what: str(why)[:300]})


def raised_in_library(ex):
    """-> "module.function" if the exception comes from the wannierberri package (same rule as harness.main), else None"""
    from ..main import raised_by_code_under_test
    return raised_by_code_under_test(ex)


def lib_call(rep, site, detail, fn, *a, **kw):
    """one call of the library on an input that the specification admits -> (True, value); an exception raised by the
    library becomes the violation raises:<site>:<class> (any class, text not compared) and (False, None) is returned so
    that the check goes on with the next input; exceptions of the harness's own making are re-raised (exit 2)"""
    try:
        return True, fn(*a, **kw)
    except (MachineryError, PrivateGone):
        raise
    except LibraryRaised as lr:
        ex = lr.args[0]
        d = dict(detail)
        d.update(error=f"{type(ex).__name__}: {str(ex)[:300]}", raised_in="compiled function of the library")
        rep.violation(f"raises:{site}:{type(ex).__name__}", d)
        return False, None
    except Exception as ex:
        if isinstance(ex, AttributeError) and type(getattr(ex, "obj", None)).__module__.startswith("harness"):
            raise PrivateGone(f"the library now uses an attribute that the harness double lacks: {ex}") from None
        where = raised_in_library(ex)
        if where is None:
            if isinstance(ex, TypeError):
                # raised at the call itself (innermost frame in the harness): the signature is not the one the adapter knows
                raise PrivateGone(f"the call signature known to the harness does not fit any more: {ex}") from None
            raise
        d = dict(detail)
        d.update(error=f"{type(ex).__name__}: {str(ex)[:300]}", raised_in=where)
        rep.violation(f"raises:{site}:{type(ex).__name__}", d)
        return False, None


class Guard:
    """lib_call for sub-checks that go through private names or doubles: when such a name is gone (PrivateGone) the
    sub-check `name` is switched off for the rest of the run and listed in the part skipped_private"""

    def __init__(self, rep):
        self.rep = rep
        self.off = {}

    def available(self, name):
        return name not in self.off

    def skip(self, name, why):
        if name not in self.off:
            self.off[name] = str(why)
            skipped_private(self.rep, name, why)

    def call(self, name, site, detail, fn, *a, **kw):
        if name in self.off:
            return False, None
        try:
            return lib_call(self.rep, site, detail, fn, *a, **kw)
        except PrivateGone as ex:
            self.skip(name, ex)
            return False, None


def run_parts(rep, body):
    """check() body wrapper: violations that were collected before a later failure of the machinery are still reported"""
    try:
        body()
    except Exception as ex:
        import traceback
        where = raised_in_library(ex)
        if where is not None:
            rep.violation(f"raises:{where}:{type(ex).__name__}",
                          dict(error=f"{type(ex).__name__}: {str(ex)[:300]}", raised_in=where,
                               traceback=traceback.format_exception(type(ex), ex, ex.__traceback__)[-8:]))
        if rep.violations:
            print(f"MACHINERY-NOTE property={rep.pid}: {type(ex).__name__}: {str(ex)[:500]} (the check stopped here; the violations found so far are reported)")
            try:
                rc = rep.finish()
                cleanup()
                return rc
            except MachineryError:
                pass
        raise
    rc = rep.finish()
    if not any(str(k).startswith("spec:") for k, _ in rep.violations):      # a violated specification model keeps its tlc.out (named in the replay file)
        cleanup()
    return rc


def candidate_finding(rep, key, detail):
    """a deviation from the property statement on the unchanged tree that the lead has not decided about: reported as
    KNOWN-FINDING when the key is registered for the property, otherwise printed and kept in the evidence (never silent,
    never a VIOLATION by itself)"""
    if key in rep.known:
        rep.violation(key, detail)
        return
    rep.part("candidate_findings", **{key: detail})
    print(f"CANDIDATE-FINDING property={rep.pid} key={key} {str(detail)[:400]}")


class DuckDataKBase:
    """duck-typed data_K: the subclasses set the few data attributes; every other attribute is looked up on the real
    Data_K class and bound to the double (methods, properties, cached properties), so that renamed or new private helpers
    of Data_K keep working"""

    def __getattr__(self, name):
        if name.startswith("__"):
            raise AttributeError(name)
        from wannierberri.data_K.data_K import Data_K
        try:
            f = getattr(Data_K, name)
        except AttributeError:
            raise AttributeError(f"neither the harness double nor Data_K has the attribute {name!r}", name=name, obj=self) from None
        if isinstance(f, property):
            return f.fget(self)
        if isinstance(f, functools.cached_property):
            return f.func(self)
        if isinstance(f, types.FunctionType):
            return types.MethodType(f, self)
        return f
