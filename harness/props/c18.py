"""C18: system files round-trip (npz directory, _tb.dat, _hr.dat + Wannier-centre file).

spec  : SysStore.tla (token layout of the three formats, the readers as line cursors, the npz directory with its stale
        files), MC_SysStore.tla (state machine SaveNpz/LoadNpz/WriteTb/ReadTb/WriteHr/ReadHr over a family of systems with
        every num_wann in 1..4, action sequences <= MAXLEN, the behaviour kept in `hist`), MC_SysFiles.tla (one state per
        system x Ndegen pattern: file tokens and reader results), SysStoreRec.tla (record validation)
bind  : every TLC behaviour (leaf state) is replayed on real System_R objects in a scratch directory: the projection
        (lattice, centres, R list, every matrix element, periodic, point group) of each reloaded system is compared exactly
        with the specification's system, errors with the specification's errors; the files written by the real code are
        tokenised and compared with the specification's token tables, the specification's token tables (including Ndegen
        patterns the code never writes) are rendered and given to the real readers; real round trips of seeded random dyadic
        systems (from_sparse) are recorded and validated by TLC.
"""
import os
import re
import copy
import random
import shutil
import numpy as np

from .. import tlc, ftable, tlaparse
from ..common import Report, MachineryError, seed, quiet, workdir

PROPS = {
    "C18": dict(level="model_checking",
                technique="TLC exhaustive on SysStore.tla/MC_SysStore.tla (state machine over a store of exact systems and abstract files, all action sequences up to the bound, token-level file layout) + replay of every TLC behaviour on real System_R objects and files + TLC validation of recorded real round trips",
                text="TLC checks TbRoundTrip / HrRoundTrip / NpzRoundTrip / WellFormed on every behaviour of at most MAXLEN persistence "
                     "actions for a family of systems (num_wann 1..4 including odd, non-orthogonal lattice, R lists in non-symmetric order, "
                     "without -R partners, longer than one Ndegen line, with/without AA and a further matrix, several point groups) and "
                     "the inverse property of the readers on the token tables for several Ndegen patterns; every behaviour is executed on "
                     "the real to_npz/from_npz, to_tb_file/from_tb_file, to_hr_file/from_hr_file with exact comparison of the projections and "
                     "of the file tokens; random dyadic systems are round-tripped on the real code and every clause of SysStoreRec is "
                     "evaluated on the records by TLC; bands and Berry curvature of original and reloaded systems are compared numerically.",
                note="all numbers are multiples of 1/8 (exact in floating point and in the printed formats); a _tb.dat file carries the "
                     "centres only through the diagonal of AA(R=0) (precondition AADiagZero / centres passed, DESIGN.md 7.2); the lattice "
                     "is an argument of the _hr.dat reader; digit-level fidelity beyond exactly printable values is exercised, not specified",
                ref="DESIGN.md 3.4"),
}

GEN_NAMES = {0: [], 1: ["Inversion"], 2: ["C4z", "TimeReversal"]}
KPTS = [(0.1, 0.2, 0.3), (0.37, -0.21, 0.45)]


# --------------------------------------------------------------------------- real systems <-> specification records
def to8(x, what):
    """float array -> nested ints in eighths (exactness is verified)"""
    a = np.asarray(x, dtype=float) * 8
    r = np.rint(a)
    if a.size and np.max(np.abs(a - r)) > 1e-9:
        raise ValueError(f"non-dyadic value in {what}: {np.max(np.abs(a - r))}")
    return r.astype(int).tolist()


def c8(x, what):
    x = np.asarray(x)
    re_, im_ = to8(x.real, what), to8(x.imag, what)
    return np.stack([np.array(re_), np.array(im_)], axis=-1).tolist()


def build_system(rec, gens=None):
    """specification record -> real System_R (R list in the given order)"""
    from wannierberri.system.system_R import System_R
    from wannierberri.fourier.rvectors import Rvectors
    with quiet():
        s = System_R(silent=True)
        s.real_lattice = np.array(rec["lat"], dtype=float) / 8
        s.num_wann = rec["nw"]
        s.set_wannier_centers(wannier_centers_cart=np.array(rec["cen"], dtype=float).reshape(rec["nw"], 3) / 8)
        s.rvec = Rvectors(lattice=s.real_lattice, iRvec=np.array(rec["R"], dtype=int), shifts_left_red=s.wannier_centers_red)
        for k, tab in rec["mats"].items():
            a = np.array(tab, dtype=float) / 8
            s.set_R_mat(k, a[..., 0] + 1j * a[..., 1])
        s.do_at_end_of_init()
        if gens is not None:
            s.set_pointgroup(gens)
        s.periodic = np.array(rec["periodic"], dtype=bool)
    return s


def project(s):
    """real System_R -> dict of exact values in the units of the specification"""
    nw = int(s.num_wann)
    out = dict(nw=nw, lat=to8(s.real_lattice, "real_lattice"), cen=to8(s.wannier_centers_cart, "wannier_centers_cart"),
               R=[[int(x) for x in r] for r in s.rvec.iRvec], mats={}, periodic=[bool(x) for x in s.periodic])
    for k, v in s._XX_R.items():
        out["mats"][k] = c8(v, k)
    pg = []
    for sym in s.pointgroup.symmetries:
        M = np.asarray(sym.R, dtype=float) * (-1 if sym.Inv else 1)
        Mi = np.rint(M)
        if np.max(np.abs(M - Mi)) > 1e-9:
            raise ValueError("non-integer point group element")
        pg.append([Mi.astype(int).tolist(), bool(sym.TR)])
    out["pg"] = pg
    return out


def spec_sys(st):
    """parsed TLA+ system -> plain python (lists)"""
    def L(x):
        if isinstance(x, (tuple, list)):
            return [L(y) for y in x]
        return x
    mats = {k: L(v) for k, v in (st["mats"].items() if isinstance(st["mats"], dict) else st["mats"])}
    pg = sorted([[L(m), bool(t)] for m, t in st["pg"]])
    return dict(nw=st["nw"], lat=L(st["lat"]), cen=L(st["cen"]), R=L(st["R"]), mats=mats, periodic=[bool(x) for x in st["periodic"]], pg=pg)


def diff_sys(exp, got, pg_as_set=True):
    """names of the fields that differ"""
    bad = []
    for k in ("nw", "lat", "cen", "R", "periodic"):
        if exp[k] != got[k]:
            bad.append(k)
    if set(exp["mats"]) != set(got["mats"]):
        bad.append("matrix_names")
    for k in exp["mats"]:
        if k in got["mats"] and exp["mats"][k] != got["mats"][k]:
            bad.append("mats." + k)
    if sorted(exp["pg"]) != sorted(got["pg"]):
        bad.append("pg")
    return bad


# --------------------------------------------------------------------------- text files <-> token tables
_INT = re.compile(r"[+-]?\d+$")


def tokenize(path, header=True):
    """text file -> list of lines of ints (integer tokens as they are, float tokens in eighths)"""
    out = []
    with open(path) as f:
        for n, line in enumerate(f):
            if n == 0 and header:
                out.append([])
                continue
            toks = []
            for t in line.split():
                if _INT.match(t):
                    toks.append(int(t))
                else:
                    x = float(t) * 8
                    if abs(x - round(x)) > 1e-9:
                        raise ValueError(f"non-dyadic token {t} in {path}")
                    toks.append(int(round(x)))
            out.append(toks)
    return out


def fl(x):
    return f"{x / 8:.10e}"


def render_tb(lines, path):
    with open(path, "w") as f:
        for n, l in enumerate(lines):
            if n == 0:
                f.write("rendered from the specification\n")
            elif n in (1, 2, 3):
                f.write(" ".join(fl(x) for x in l) + "\n")
            elif len(l) in (4, 8):
                f.write(f"{l[0]:3d} {l[1]:3d} " + " ".join(fl(x) for x in l[2:]) + "\n")
            else:
                f.write("  ".join(str(x) for x in l) + "\n")


def render_hr(lines, path):
    with open(path, "w") as f:
        for n, l in enumerate(lines):
            if n == 0:
                f.write("rendered from the specification\n")
            elif len(l) == 7:
                f.write(" ".join(f"{x:3d}" for x in l[:5]) + " " + " ".join(fl(x) for x in l[5:]) + "\n")
            else:
                f.write("  ".join(str(x) for x in l) + "\n")


def render_wcc(lines, path):
    with open(path, "w") as f:
        for l in lines:
            f.write(" ".join(f"{x / 8:10}" for x in l) + "\n")


def L(x):
    if isinstance(x, (tuple, list)):
        return [L(y) for y in x]
    return x


# --------------------------------------------------------------------------- calls of the real code
def real_call(fn, *a, **kw):
    try:
        with quiet():
            return fn(*a, **kw), None
    except Exception as ex:   # the class of the exception is what is compared
        return None, type(ex).__name__ + ": " + str(ex)[:200]


def read_tb(path, needAA, given, cen8):
    from wannierberri.system.system_R import System_R
    kw = dict(tb_file=path, silent=True)
    if needAA:
        kw["berry"] = True
    if given:
        kw["wannier_centers_cart"] = np.array(cen8, dtype=float) / 8
    return real_call(System_R.from_tb_file, **kw)


def read_hr(seed_path, lat8, given, cen8):
    from wannierberri.system.system_R import System_R
    kw = dict(seedname=seed_path, real_lattice=np.array(lat8, dtype=float) / 8, silent=True)
    if given:
        kw["wannier_centers_cart"] = np.array(cen8, dtype=float) / 8
    return real_call(System_R.from_hr_file, **kw)


def bands(s):
    import wannierberri as wb
    res = []
    q = ["energy"] + (["berry_curvature"] if s.has_R_mat("AA") else [])      # the curvature formula needs AA (external terms)
    for k in KPTS:
        with quiet():
            r = wb.evaluate_k(s, k=k, quantities=q, return_single_as_dict=True)
        res.append((np.array(r["energy"]), np.array(r["berry_curvature"]) if len(q) > 1 else np.zeros(1)))
    return res


def site_key(op, what, e=None, nw=None):
    site = {"SaveNpz": "to_npz", "LoadNpz": "from_npz", "WriteTb": "to_tb_file", "ReadTb": "from_tb_file",
            "WriteHr": "to_hr_file", "ReadHr": "from_hr_file"}[op]
    if op == "ReadHr" and what.startswith("exception") and nw is not None and nw % 2 == 1 and e is not None and not e["given"]:
        return "read_WCC_WT_format:odd_num_wann"
    return f"{site}:{what}"


class _Collect:
    """stands in for the Report when a replay is an observation only"""

    def __init__(self):
        self.items = []

    def violation(self, key, detail):
        self.items.append((key, detail))


class Replayer:
    def __init__(self, rep, wd):
        self.rep = rep
        self.wd = wd
        self.n = 0
        self.maxdev = 0.0
        self.numeric = 0
        self.ops = {}

    def replay(self, st, origin="tlc-behaviour"):
        """st: parsed TLC state of MC_SysStore (store, hist). Returns True when the real code followed the specification"""
        self.n += 1
        d = os.path.join(self.wd, f"b{self.n}")
        os.makedirs(d, exist_ok=True)
        hist = st["hist"]
        par = hist[0]["par"]
        sstore = [spec_sys(x) for x in st["store"]]
        herm = par[1] != 3
        real = {1: build_system(sstore[0], GEN_NAMES[par[5]])}
        info = dict(origin=origin, params=dict(nw=par[0], shape=par[1], pat=par[2], AA=par[3], SS=par[4], grp=par[5]),
                    ops=[dict(op=e["op"], src=e["src"], needAA=e["needAA"], given=e["given"]) for e in hist[1:]])
        p0 = project(real[1])
        b0 = diff_sys(sstore[0], p0)
        if b0:
            raise MachineryError(f"harness cannot build the specification's system: {b0} {info}")
        ok = True
        npzdir, tbfile, hrseed = os.path.join(d, "npz"), os.path.join(d, "sys_tb.dat"), os.path.join(d, "sys")
        for e in hist[1:]:
            op = e["op"]
            self.ops[op] = self.ops.get(op, 0) + 1
            src = sstore[e["src"] - 1]
            nw = src["nw"]
            if op in ("SaveNpz", "WriteTb", "WriteHr"):
                if e["src"] not in real:
                    break
                sysr = real[e["src"]]
                if op == "SaveNpz":
                    _, ex = real_call(sysr.to_npz, npzdir)
                elif op == "WriteTb":
                    _, ex = real_call(sysr.to_tb_file, tb_file=tbfile)
                else:
                    _, ex = real_call(sysr.to_hr_file, seedname=hrseed)
                if ex:
                    self.rep.violation(site_key(op, "exception:" + ex.split(":")[0]), dict(info, step=e["op"], exception=ex))
                    ok = False
                    break
                continue
            if op == "LoadNpz":
                from wannierberri.system.system_R import System_R
                got, ex = real_call(System_R.from_npz, npzdir)
            elif op == "ReadTb":
                got, ex = read_tb(tbfile, e["needAA"], e["given"], src["cen"])
            else:
                got, ex = read_hr(hrseed, src["lat"], e["given"], src["cen"])
            if e["err"] != "":
                if ex is None:
                    self.rep.violation(site_key(op, "unexpected_success"), dict(info, step=op, expected_error=e["err"]))
                    ok = False
                elif e["err"] not in ("eof",) and not ex.startswith(e["err"]):
                    self.rep.violation(site_key(op, "other_exception"), dict(info, step=op, expected_error=e["err"], got=ex))
                    ok = False
                continue
            if ex is not None:
                self.rep.violation(site_key(op, "exception:" + ex.split(":")[0], e, nw),
                                   dict(info, step=op, needAA=e["needAA"], centres_passed=e["given"], num_wann=nw, exception=ex,
                                        expected="the reader returns the system that was written"))
                ok = False
                break
            exp = sstore[e["dst"] - 1]
            try:
                gp = project(got)
            except ValueError as ve:
                self.rep.violation(site_key(op, "projection"), dict(info, step=op, problem=str(ve)))
                ok = False
                break
            bad = diff_sys(exp, gp)
            if bad:
                self.rep.violation(site_key(op, "projection"), dict(info, step=op, differing_fields=bad,
                                                                    expected={k: exp[k] for k in ("nw", "lat", "cen", "R")},
                                                                    got={k: gp[k] for k in ("nw", "lat", "cen", "R")}))
                ok = False
                break
            real[e["dst"]] = got
            if op == "LoadNpz" and e["src"] in real:
                # the order of the group elements has to survive as well (PointGroup(dictionary=...))
                if project(real[e["src"]])["pg"] != gp["pg"] and e["fresh"]:
                    self.rep.violation("from_npz:pointgroup_order", dict(info, step=op))
                    ok = False
            # bands and Berry curvature of the reloaded system (numeric part of the statement)
            if herm and e["src"] in real and (e["fresh"] or op != "LoadNpz"):
                a, b = bands(real[e["src"]]), bands(got)
                same_terms = set(src["mats"]) == set(gp["mats"]) and src["cen"] == gp["cen"]
                for (ea, ca), (eb, cb) in zip(a, b):
                    dev = float(np.max(np.abs(ea - eb)))
                    gap = float(np.min(np.diff(np.sort(ea)))) if len(ea) > 1 else 1.0
                    if same_terms and gap > 1e-3:
                        dev = max(dev, float(np.max(np.abs(ca - cb))))
                    self.maxdev = max(self.maxdev, dev)
                    self.numeric += 1
                    if dev > 1e-8:
                        self.rep.violation("evaluate_k:reloaded_system", dict(info, step=op, deviation=dev, kpoints=KPTS))
                        ok = False
        shutil.rmtree(d, ignore_errors=True)
        return ok


def replay_files(rep, s, wd, n):
    """one state of MC_SysFiles: real writers vs token tables, real readers on rendered token tables"""
    par = s["par"]
    sysrec = spec_sys(s["sys"])
    real = build_system(sysrec, GEN_NAMES[par[5]])
    d = os.path.join(wd, f"f{n}")
    os.makedirs(d, exist_ok=True)
    info = dict(params=dict(nw=par[0], shape=par[1], pat=par[2], AA=par[3], SS=par[4], grp=par[5]), ndegen_pattern=s["ndp"])
    tb, hr, wcc = L(s["tb"]), L(s["hr"]), L(s["wcc"])
    if s["ndp"] == 0:
        _, ex = real_call(real.to_tb_file, tb_file=os.path.join(d, "w_tb.dat"))
        if ex:
            rep.violation("to_tb_file:exception:" + ex.split(":")[0], dict(info, exception=ex))
        elif tokenize(os.path.join(d, "w_tb.dat")) != tb:
            rep.violation("to_tb_file:file_tokens", dict(info, expected_first_lines=tb[:12], got_first_lines=tokenize(os.path.join(d, "w_tb.dat"))[:12]))
        _, ex = real_call(real.to_hr_file, seedname=os.path.join(d, "w"))
        if ex:
            rep.violation("to_hr_file:exception:" + ex.split(":")[0], dict(info, exception=ex))
        else:
            if tokenize(os.path.join(d, "w_hr.dat")) != hr:
                rep.violation("to_hr_file:file_tokens", dict(info, expected_first_lines=hr[:12], got_first_lines=tokenize(os.path.join(d, "w_hr.dat"))[:12]))
            if tokenize(os.path.join(d, "w_wannier_centre_WT_format.dat"), header=False) != wcc:
                rep.violation("write_WCC_WT_format:file_tokens", dict(info, expected=wcc, got=tokenize(os.path.join(d, "w_wannier_centre_WT_format.dat"), header=False)))
    # the specification's files through the real readers
    render_tb(tb, os.path.join(d, "r_tb.dat"))
    render_hr(hr, os.path.join(d, "r_hr.dat"))
    render_wcc(wcc, os.path.join(d, "r_wannier_centre_WT_format.dat"))
    cases = [("ReadTb", s["rtb"], lambda: read_tb(os.path.join(d, "r_tb.dat"), False, True, sysrec["cen"]), dict(needAA=False, given=True)),
             ("ReadHr", s["rhr"], lambda: read_hr(os.path.join(d, "r"), sysrec["lat"], False, sysrec["cen"]), dict(needAA=False, given=False))]
    if "AA" in sysrec["mats"]:
        cases.append(("ReadTb", s["rtbAA"], lambda: read_tb(os.path.join(d, "r_tb.dat"), True, False, sysrec["cen"]), dict(needAA=True, given=False)))
    for op, expr, call, e in cases:
        got, ex = call()
        if expr["err"] != "":
            raise MachineryError(f"specification reader failed on its own file: {expr['err']} {info}")
        if ex is not None:
            rep.violation(site_key(op, "exception:" + ex.split(":")[0], e, sysrec["nw"]),
                          dict(info, step=op + " of a file rendered from the specification's token table", num_wann=sysrec["nw"], exception=ex))
            continue
        try:
            gp = project(got)
        except ValueError as ve:
            rep.violation(site_key(op, "projection"), dict(info, step=op, problem=str(ve)))
            continue
        exp = spec_sys(expr["sys"])
        bad = diff_sys(exp, gp)
        if bad:
            rep.violation(site_key(op, "projection"), dict(info, step=op + " (rendered file)", differing_fields=bad))
    shutil.rmtree(d, ignore_errors=True)


# --------------------------------------------------------------------------- random recorded round trips
def random_sparse_system(rng):
    import wannierberri as wb
    nw = rng.choice([1, 1, 2, 2, 3, 3, 4, 5])
    herm = rng.random() < 0.7
    nR = rng.choice([0, 1, 2, 3, 8, 16]) if nw <= 2 else rng.choice([0, 1, 2, 3])
    Rs = set()
    while len(Rs) < nR:
        R = tuple(rng.randint(-2, 2) for _ in range(3))
        if R != (0, 0, 0) and tuple(-x for x in R) not in Rs:
            Rs.add(R)
    with_aa = rng.random() < 0.5
    while True:
        lat = np.array([[rng.randint(-12, 12) for _ in range(3)] for _ in range(3)], dtype=float) / 8 + np.eye(3) * rng.choice([1, 2])
        if abs(np.linalg.det(lat)) > 0.4:
            break
    cen = np.array([[rng.randint(-12, 20) for _ in range(3)] for _ in range(nw)], dtype=float) / 8

    def cval():
        return (rng.randint(-40, 40) + 1j * rng.randint(-40, 40)) / 8

    ham, aa = {}, {}
    M0 = np.array([[cval() for _ in range(nw)] for _ in range(nw)])
    if herm:
        M0 = M0 + M0.conj().T
    ham[(0, 0, 0)] = {(i, j): M0[i, j] for i in range(nw) for j in range(nw)}
    A0 = np.array([[[cval() for _ in range(3)] for _ in range(nw)] for _ in range(nw)])
    if herm:
        A0 = A0 + A0.conj().transpose(1, 0, 2)
    for i in range(nw):
        A0[i, i, :] = 1j * A0[i, i, :].imag
    aa[(0, 0, 0)] = {(i, j): A0[i, j] for i in range(nw) for j in range(nw)}
    for R in sorted(Rs):
        M = np.array([[cval() for _ in range(nw)] for _ in range(nw)])
        A = np.array([[[cval() for _ in range(3)] for _ in range(nw)] for _ in range(nw)])
        ham[R] = {(i, j): M[i, j] for i in range(nw) for j in range(nw)}
        aa[R] = {(i, j): A[i, j] for i in range(nw) for j in range(nw)}
        if herm:
            mR = tuple(-x for x in R)
            ham[mR] = {(j, i): np.conj(M[i, j]) for i in range(nw) for j in range(nw)}
            aa[mR] = {(j, i): np.conj(A[i, j]) for i in range(nw) for j in range(nw)}
    mats = {"Ham": ham}
    if with_aa:
        mats["AA"] = aa
    with quiet():
        s = wb.system.System_R.from_sparse(real_lattice=lat, wannier_centers_cart=cen, matrices=mats)
        if rng.random() < 0.3:
            s.set_pointgroup(["Inversion"])
        if rng.random() < 0.3:
            s.periodic = np.array([True, True, False])
    return s, herm


def record_roundtrips(rep, rng, n, wd):
    from wannierberri.system.system_R import System_R
    recs, meta = [], []
    maxdev = 0.0
    for it in range(n):
        s, herm = random_sparse_system(rng)
        ps = project(s)
        d = os.path.join(wd, f"r{it}")
        os.makedirs(d, exist_ok=True)
        fmt = ("tb", "hr", "npz")[it % 3]
        rec = dict(fmt=fmt, sys=ps)
        if fmt == "tb":
            needAA, given = rng.random() < 0.5, rng.random() < 0.5
            if "AA" not in ps["mats"] and rng.random() < 0.8:
                needAA, given = False, True
            with quiet():
                s.to_tb_file(tb_file=os.path.join(d, "x_tb.dat"))
            rec.update(tb=tokenize(os.path.join(d, "x_tb.dat")), needAA=needAA, given=given)
            got, ex = read_tb(os.path.join(d, "x_tb.dat"), needAA, given, ps["cen"])
        elif fmt == "hr":
            given = rng.random() < 0.3
            with quiet():
                s.to_hr_file(seedname=os.path.join(d, "x"))
            rec.update(hr=tokenize(os.path.join(d, "x_hr.dat")), wcc=tokenize(os.path.join(d, "x_wannier_centre_WT_format.dat"), header=False), given=given)
            got, ex = read_hr(os.path.join(d, "x"), ps["lat"], given, ps["cen"])
        else:
            with quiet():
                s.to_npz(os.path.join(d, "dir"))
            names = sorted(os.path.splitext(f)[0] for f in os.listdir(os.path.join(d, "dir")))
            rec.update(props=[x for x in names if not x.startswith("_XX_R_")], matfiles=[x[6:] for x in names if x.startswith("_XX_R_")])
            got, ex = real_call(System_R.from_npz, os.path.join(d, "dir"))
        if ex is not None:
            rec["out"] = dict(err=ex.split(":")[0])
        else:
            try:
                rec["out"] = dict(err="", sys=project(got))
            except ValueError as ve:
                rec["out"] = dict(err="projection: " + str(ve))
            if herm and rec["out"]["err"] == "":
                for (ea, ca), (eb, cb) in zip(bands(s), bands(got)):
                    maxdev = max(maxdev, float(np.max(np.abs(ea - eb))))
        recs.append(rec)
        meta.append(dict(fmt=fmt, nw=ps["nw"], nR=len(ps["R"]), given=rec.get("given"), needAA=rec.get("needAA"), exception=ex))
        rep.case(("rec", fmt, ps["nw"], len(ps["R"]), it))
        shutil.rmtree(d, ignore_errors=True)
    return recs, meta, maxdev


def replay_counterexample(st, wd):
    """last state of a TLC counter-example executed on the real code: does the code do what that model says? (observation)"""
    obs = {}
    try:
        last = re.split(r"(?m)^State \d+: [^\n]*\n", st["output"])[-1]
        last = last.split("\n\n")[0]
        stt = tlaparse.parse_state_body(last)
        col = _Collect()
        obs["behaviour"] = [e["op"] for e in stt["hist"][1:]]
        obs["real_code_follows_model"] = bool(Replayer(col, wd).replay(stt, origin="tlc-counterexample"))
        if col.items:
            obs["differences"] = [k for k, _ in col.items][:3]
    except Exception as ex:   # observation only
        obs["replay_problem"] = str(ex)[:200]
    return obs


REC_CFG = "SPECIFICATION RecSpec\nCONSTANTS\n  WccSplitCeil = TRUE\nINVARIANT Report\nCHECK_DEADLOCK FALSE\n"


def mc_cfg(nws, shapes, pats, maxlen, invs, ceil=True, aazero=True, spec="Spec", extra=""):
    return (f"SPECIFICATION {spec}\nCONSTANTS\n  WccSplitCeil = {'TRUE' if ceil else 'FALSE'}\n  NWS = {tlc.tla_value(set(nws))}\n"
            f"  SHAPES = {tlc.tla_value(set(shapes))}\n  PATS = {tlc.tla_value(set(pats))}\n  AAZERO = {'TRUE' if aazero else 'FALSE'}\n"
            f"  MAXLEN = {maxlen}\n{extra}" + "".join(f"INVARIANT {i}\n" for i in invs) + "CHECK_DEADLOCK FALSE\n")


def drop_dump(st):
    """the state dump has been consumed; tlc.out stays as evidence"""
    try:
        os.remove(st["dump_path"])
    except (OSError, KeyError, TypeError):
        pass


class Capped:
    """passes at most `cap` violations per key to the Report (so that every distinct key is written out), counts the rest"""

    def __init__(self, rep, cap=3):
        self.rep, self.cap, self.count = rep, cap, {}

    def violation(self, key, detail):
        self.count[key] = self.count.get(key, 0) + 1
        if self.count[key] <= self.cap:
            self.rep.violation(key, detail)


def check(pid, tier):
    rep = Report(pid, tier, "model_checking")
    vio = Capped(rep)
    thorough = tier == "thorough"
    rng = random.Random(seed() * 7919 + 18)
    import wannierberri  # noqa: F401  (import cost outside the loops)
    wd = workdir("c18")
    rep.rule("TLC enumerates every behaviour (<= MAXLEN persistence actions) of every system of the family; a case = one behaviour "
             "replayed on real System_R objects and files (exact comparison of projections and tokens), one file-table state, or one "
             "seeded random recorded round trip validated by TLC; distinct by behaviour / parameters")
    rep.assume("all numbers are multiples of 1/8: exact in binary floating point and in the printed formats")
    rep.assume("_tb.dat carries the centres only through AA(R=0) (zero diagonal in convention I) unless they are passed; the lattice is an argument of the _hr.dat reader")

    # ---------------- spec: state machine, intended semantics; every leaf behaviour is replayed
    nws, shapes, pats, maxlen = ((1, 2, 3, 4), (1, 2, 3, 4, 5), (1, 2), 3) if thorough else ((1, 2, 3, 4), (1, 2, 3, 5), (1,), 3)
    invs = ["TbRoundTrip", "HrRoundTrip", "NpzRoundTrip", "WellFormed"]
    st = ftable.enumerate_states("MC_SysStore.tla", mc_cfg(nws, shapes, pats, maxlen, invs), "c18_store", timeout=2400)
    ftable.spec_violation(rep, st, "c18_store")
    tlc.check_not_vacuous(st, ["DoLoadNpz", "DoReadTb", "DoReadHr"], "c18_store")
    rep.add_tlc("c18_store", st)
    rp = Replayer(vio, wd)
    nleaf = followed = 0
    budget = 10 ** 9 if thorough else 400
    leaves = []
    for s in ftable.dump_states(st):
        h = s["hist"]
        if len(h) - 1 == maxlen and any(e["op"] in ("LoadNpz", "ReadTb", "ReadHr") for e in h[1:]):
            leaves.append(s)
    drop_dump(st)
    if not leaves:
        raise MachineryError("no behaviour of full length in the dump")
    if len(leaves) > budget:
        # quick tier: a seeded sample of the behaviours (all of them in the thorough tier); classes are checked below
        rng.shuffle(leaves)
        leaves = leaves[:budget]
    classes = {}
    for s in leaves:
        nleaf += 1
        h = s["hist"]
        key = (tuple(h[0]["par"]), tuple((e["op"], e["src"], e["needAA"], e["given"]) for e in h[1:]))
        rep.case(("beh",) + key)
        if rp.replay(s):
            followed += 1
        for e in h[1:]:
            classes[(h[0]["par"][0] % 2, e["op"])] = classes.get((h[0]["par"][0] % 2, e["op"]), 0) + 1
        if nleaf <= 2:
            rep.sample(dict(params=list(h[0]["par"]), behaviour=[e["op"] for e in h[1:]], errors=[e["err"] for e in h[1:]]))
    for par in (0, 1):
        for op in ("LoadNpz", "ReadTb", "ReadHr"):
            if not classes.get((par, op)):
                raise MachineryError(f"no replayed behaviour with {op} for {'odd' if par else 'even'} num_wann")
    rep.part("replay_store", behaviours=nleaf, followed_specification=followed, actions=rp.ops)

    # ---------------- thorough: longer behaviours (MAXLEN 4) of a smaller family, seeded sample replayed
    if thorough:
        std = ftable.enumerate_states("MC_SysStore.tla", mc_cfg((1, 2, 3), (1, 3), (1,), 4, invs), "c18_store_deep", timeout=2400)
        ftable.spec_violation(rep, std, "c18_store_deep")
        rep.add_tlc("c18_store_deep", std)
        deep = [s for s in ftable.dump_states(std)
                if len(s["hist"]) - 1 == 4 and s["hist"][-1]["op"] in ("LoadNpz", "ReadTb", "ReadHr")]
        drop_dump(std)
        rng.shuffle(deep)
        nd_ = fd_ = 0
        for s in deep[:2500]:
            h = s["hist"]
            rep.case(("beh",) + (tuple(h[0]["par"]), tuple((e["op"], e["src"], e["needAA"], e["given"]) for e in h[1:])))
            nd_ += 1
            fd_ += 1 if rp.replay(s) else 0
        rep.part("replay_store_deep", behaviours=nd_, followed_specification=fd_, of=len(deep))

    # ---------------- spec: file tables for every system and Ndegen pattern
    fshapes = (1, 2, 3, 4, 5)
    fcfg = mc_cfg(nws, fshapes, pats if thorough else (1,), 0, ["TbFileInverse", "TbFileInverseAA", "HrFileInverse", "NdegenLayout"],
                  spec="FSpec", extra="  NDPATS = {0, 1, 2}\n")
    stf = ftable.enumerate_states("MC_SysFiles.tla", fcfg, "c18_files", timeout=1200)
    ftable.spec_violation(rep, stf, "c18_files")
    rep.add_tlc("c18_files", stf)
    nf = 0
    ndseen = set()
    for s in ftable.dump_states(stf):
        nf += 1
        rep.case(("file", tuple(s["par"]), s["ndp"]))
        ndseen.add((s["ndp"], len(s["sys"]["R"]) > 15))
        replay_files(vio, s, wd, nf)
    drop_dump(stf)
    if nf != stf["distinct"] or (1, True) not in ndseen or (0, True) not in ndseen:
        raise MachineryError(f"file-table dump incomplete: {nf} of {stf['distinct']}, classes {sorted(ndseen)}")
    rep.part("replay_files", states=nf)

    # ---------------- sensitivity: models of plausible wrong variants must violate the property in TLC
    s1 = tlc.run_tlc("MC_SysStore.tla", mc_cfg((1, 2, 3), (1,), (1,), 2, ["HrRoundTrip"], ceil=False), "c18_wcc_floor", workers=4, timeout=900)
    if not s1.get("violation"):
        raise MachineryError("sensitivity self-test failed: the reader that splits the WCC file at n div 2 must violate HrRoundTrip")
    rep.part("c18_wcc_floor", sensitivity_violation=s1["violation"][1], **replay_counterexample(s1, wd),
             note="model of read_WCC_WT_format splitting at n//2 (system_hr.py as read); real_code_follows_model = the real code "
                  "fails exactly where this model fails")
    s2 = tlc.run_tlc("MC_SysStore.tla", mc_cfg((2,), (1,), (1,), 2, ["TbRoundTripNoPrecondition"], aazero=False), "c18_aadiag", workers=4, timeout=900)
    if not s2.get("violation"):
        raise MachineryError("sensitivity self-test failed: without the AADiagZero precondition the centres cannot come back from _tb.dat")
    rep.part("c18_aadiag", sensitivity_violation=s2["violation"][1])
    s3 = tlc.run_tlc("MC_SysStore.tla", mc_cfg((1,), (5,), (1,), 5, ["NpzRoundTripStrict"]), "c18_stale_npz", workers=4, timeout=900)
    if not s3.get("violation"):
        raise MachineryError("sensitivity self-test failed: a re-used npz directory must keep stale matrix files in the model")
    obs = dict(sensitivity_violation=s3["violation"][1], **replay_counterexample(s3, wd))
    rep.part("c18_stale_npz", **obs, note="observation, not claimed by C18: to_npz into an existing directory leaves the _XX_R_*.npz files of "
             "matrices the saved system does not have, from_npz loads them")

    # ---------------- code -> spec: recorded random round trips validated by TLC
    nrec = 900 if thorough else 150
    recs, meta, mdev = record_roundtrips(rep, rng, nrec, wd)
    # binding self-test inside the same batch: a corrupted copy of an accepted record must be rejected
    cand = [i for i, r in enumerate(recs) if r["fmt"] == "tb" and r["out"]["err"] == ""]
    if not cand:
        raise MachineryError("no successful _tb.dat record for the binding self-test")
    br = copy.deepcopy(recs[cand[0]])
    br["out"]["sys"]["mats"]["Ham"][0][0][0][0] += 1
    stv, bad = ftable.validate_records("SysStoreRec.tla", REC_CFG, recs + [br], "c18", chunk=400)
    rep.add_tlc("c18_records", stv)
    rep.add_traces(len(recs))
    if len(recs) not in bad:
        raise MachineryError("binding self-test failed: corrupted round-trip record accepted")
    if cand[0] in bad:
        raise MachineryError(f"binding self-test inconclusive: the uncorrupted record is rejected too ({bad[cand[0]]})")
    rep.part("binding_selftest", corrupted_record_rejected=bad.pop(len(recs)))
    for i, clauses in bad.items():
        m = meta[i]
        if m["fmt"] == "hr" and m["nw"] % 2 == 1 and not m["given"] and m["exception"]:
            key = "read_WCC_WT_format:odd_num_wann"
        else:
            key = f"{ {'tb': 'from_tb_file', 'hr': 'from_hr_file', 'npz': 'from_npz'}[m['fmt']] }:recorded"
        vio.violation(key, dict(meta=m, failing_clauses=clauses, record={k: v for k, v in recs[i].items() if k not in ("tb", "hr")}))
    fm = {f: sum(1 for m in meta if m["fmt"] == f) for f in ("tb", "hr", "npz")}
    if min(fm.values()) == 0 or not any(m["nw"] % 2 == 1 for m in meta if m["fmt"] == "hr"):
        raise MachineryError(f"record classes missing: {fm}")
    rep.sample(dict(record=meta[0]))
    rep.part("numeric_only", what="energy and Berry curvature of original vs reloaded system at two k-points (evaluate_k)",
             comparisons=rp.numeric, max_deviation=max(rp.maxdev, mdev), tolerance=1e-8)
    rep.part("violation_counts", **{k.replace(".", "_").replace(":", "_"): v for k, v in vio.count.items()})
    shutil.rmtree(wd, ignore_errors=True)
    return rep.finish()
