"""C18: system files round-trip (npz directory, _tb.dat, _hr.dat + Wannier-centre file).

spec  : SysStore.tla (token layout of the three formats, the readers as line cursors, the npz directory with its stale
        files; two systems are the same when they have the same set of R-vectors and the same block per R-vector),
        MC_SysStore.tla (state machine SaveNpz/LoadNpz/WriteTb/ReadTb/WriteHr/ReadHr over a family of systems with every
        num_wann in 1..4, action sequences <= MAXLEN, the behaviour kept in `hist`), MC_SysFiles.tla (one state per
        system x Ndegen pattern: file tokens and reader results, both phase conventions of _tb.dat),
        SysStoreRec.tla (record validation)
bind  : TLC behaviours (leaf states) are replayed on real System_R objects in a scratch directory: what the statement names
        (lattice, centres, R-vectors as a set, the block of every matrix per R-vector; for the npz directory also periodic,
        is_phonon, point group as a set) is compared exactly with the specification's system; the specification's token
        tables (Wannier90 layout, including Ndegen patterns the code never writes) are rendered and given to the real
        readers; real round trips of seeded random dyadic systems (from_sparse) are recorded and validated by TLC; seeded
        random non-dyadic systems are round-tripped and compared at the precision of the formats.
        HOW the code does it (tokens of the files it writes, names of the files in the directory, exception classes, order of
        R-vectors and group elements, reader step by step) is reported as information only.
"""
import os
import re
import copy
import random
import shutil
import numpy as np

from .. import tlc, ftable, tlaparse
from ..common import Report, MachineryError, seed, quiet, workdir, WORK

PROPS = {
    "C18": dict(level="model_checking",
                technique="TLC exhaustive on SysStore.tla/MC_SysStore.tla (state machine over a store of exact systems and abstract files, all action sequences up to the bound, token-level file layout) + replay of TLC behaviours (all of them in the thorough tier, a seeded class-covering sample in the quick tier) on real System_R objects and files + TLC validation of recorded real round trips",
                text="TLC checks TbRoundTrip / HrRoundTrip / NpzRoundTrip / WellFormed on every behaviour of at most MAXLEN persistence "
                     "actions for a family of systems (num_wann 1..4 including odd, non-orthogonal lattice, R lists in non-symmetric order, "
                     "without -R partners, with/without AA and a further matrix, several point groups, is_phonon) and the inverse "
                     "property of the readers on the token tables (R lists of 15, 16 and 17 vectors around the Ndegen line length, several "
                     "Ndegen patterns, both phase conventions of _tb.dat); behaviours are executed on the real to_npz/from_npz, "
                     "to_tb_file/from_tb_file, to_hr_file/from_hr_file (quick: seeded sample covering every class (parity of num_wann, "
                     "action, options, position of R=0); thorough: all) and what comes back is compared exactly, up to the order of "
                     "R-vectors and group elements; random dyadic systems are round-tripped on the real code and the C18 clauses of "
                     "SysStoreRec are evaluated on the records by TLC; random non-dyadic systems (magnitudes 1e-9..1e3, hexagonal "
                     "lattice and point group, is_phonon) are compared at the precision of the formats; bands and Berry curvature of "
                     "original and reloaded systems are compared numerically.",
                note="the exact part uses multiples of 1/8 (exact in floating point and in the printed formats); printed precision is "
                     "decided by the numeric part `precision` (tb/hr: relative 1e-7 per real component = 20 x the half-ulp of %15.8e; "
                     "centre file: exact repr, 1e-7 absolute for the zeroing threshold; lattice and npz: bit-exact); a _tb.dat file carries "
                     "the centres only through the diagonal of AA(R=0) (precondition AADiagZero / centres passed, DESIGN.md 7.2); the lattice "
                     "is an argument of the _hr.dat reader; layout of the written files, file names inside the directory, exception "
                     "classes and the step-by-step reader model are information (parts `layout_information`, `model_conformance`), "
                     "not violations",
                ref="DESIGN.md 3.4"),
}

GEN_NAMES = {0: [], 1: ["Inversion"], 2: ["C4z", "TimeReversal"]}
KPTS = [(0.1, 0.2, 0.3), (0.37, -0.21, 0.45)]
# names tried through the public has_R_mat when the private dictionary of matrices is not there any more
KNOWN_MATRICES = ["Ham", "AA", "BB", "CC", "SS", "SR", "SH", "SHR", "SA", "SHA", "OO", "GG", "FF"]
INFO_CLAUSES = {"file_layout", "reader_model", "files_written"}
SKIPPED = {}


def skipped_private(what, why):
    SKIPPED[what] = str(why)[:160]


def cpu():
    t = os.times()
    return t.user + t.system + t.children_user + t.children_system


# --------------------------------------------------------------------------- real systems <-> specification records
def to8(x, what):
    """float array -> nested ints in eighths (exactness is verified)"""
    a = np.asarray(x, dtype=float) * 8
    r = np.rint(a)
    if a.size and np.max(np.abs(a - r)) > 1e-9:
        raise ValueError(f"non-dyadic value in {what}: {np.max(np.abs(a - r))}")
    return r.astype(int).tolist()


def c8(x, what):
    x = np.asarray(x)
    re_, im_ = to8(x.real, what), to8(x.imag, what)
    return np.stack([np.array(re_), np.array(im_)], axis=-1).tolist()


def matrix_names(s):
    """names of the real-space matrices of a system (guarded adapter around the private dictionary)"""
    d = getattr(s, "_XX_R", None)
    if isinstance(d, dict):
        return list(d.keys())
    skipped_private("System_R._XX_R", "attribute gone; matrices enumerated through has_R_mat over " + ",".join(KNOWN_MATRICES))
    return [k for k in KNOWN_MATRICES if s.has_R_mat(k)]


def pg_elements(s):
    """[(signed 3x3 matrix, TR)] of the point group, None when it cannot be read any more"""
    try:
        out = []
        for sym in s.pointgroup.symmetries:
            try:
                d = sym.as_dict()
                M, tr = np.asarray(d["R"], dtype=float), bool(d["TR"])
            except (AttributeError, KeyError, TypeError):
                M, tr = np.asarray(sym.R, dtype=float) * (-1 if sym.Inv else 1), bool(sym.TR)
            out.append((M, tr))
        return out
    except AttributeError as ex:
        skipped_private("PointGroup.symmetries", ex)
        return None


def build_system(rec, gens=None):
    """specification record -> real System_R (R list in the given order)"""
    from wannierberri.system.system_R import System_R
    from wannierberri.fourier.rvectors import Rvectors
    with quiet():
        s = System_R(silent=True)
        s.real_lattice = np.array(rec["lat"], dtype=float) / 8
        s.num_wann = rec["nw"]
        s.set_wannier_centers(wannier_centers_cart=np.array(rec["cen"], dtype=float).reshape(rec["nw"], 3) / 8)
        s.rvec = Rvectors(lattice=s.real_lattice, iRvec=np.array(rec["R"], dtype=int), shifts_left_red=s.wannier_centers_red)
        for k, tab in rec["mats"].items():
            a = np.array(tab, dtype=float) / 8
            s.set_R_mat(k, a[..., 0] + 1j * a[..., 1])
        s.do_at_end_of_init()
        if gens is not None:
            s.set_pointgroup(gens)
        s.periodic = np.array(rec["periodic"], dtype=bool)
        s.is_phonon = bool(rec.get("phon", False))
    return s


def project(s):
    """real System_R -> dict of exact values in the units of the specification (R and pg in the object's own order)"""
    nw = int(s.num_wann)
    out = dict(nw=nw, lat=to8(s.real_lattice, "real_lattice"), cen=to8(s.wannier_centers_cart, "wannier_centers_cart"),
               R=[[int(x) for x in r] for r in s.rvec.iRvec], mats={}, periodic=[bool(x) for x in s.periodic],
               phon=bool(np.asarray(getattr(s, "is_phonon", False))))
    for k in matrix_names(s):
        out["mats"][k] = c8(s.get_R_mat(k), k)
    els = pg_elements(s)
    if els is None:
        out["pg"] = None
    else:
        pg = []
        for M, tr in els:
            Mi = np.rint(M)
            if np.max(np.abs(M - Mi)) > 1e-9:
                raise ValueError("non-integer point group element")
            pg.append([Mi.astype(int).tolist(), tr])
        out["pg"] = pg
    return out


def L(x):
    if isinstance(x, (tuple, list)):
        return [L(y) for y in x]
    return x


def spec_sys(st):
    """parsed TLA+ system -> plain python (lists)"""
    mats = {k: L(v) for k, v in (st["mats"].items() if isinstance(st["mats"], dict) else st["mats"])}
    pg = sorted([[L(m), bool(t)] for m, t in st["pg"]])
    return dict(nw=st["nw"], lat=L(st["lat"]), cen=L(st["cen"]), R=L(st["R"]), mats=mats, periodic=[bool(x) for x in st["periodic"]],
                pg=pg, phon=bool(st.get("phon", False)))


def by_R(p, k):
    """matrix k of a projection as {R-vector: block}; None when the table does not fit the R list"""
    tab = p["mats"][k]
    if len(tab) != len(p["R"]):
        return None
    return {tuple(r): tab[i] for i, r in enumerate(p["R"])}


def diff_sys(exp, got, names=None, carried=("periodic", "pg", "phon")):
    """names of the things the statement of C18 names that differ: lattice, centres, the set of R-vectors, the block of every
    matrix in `names` (default: all of exp) per R-vector; `carried`: further fields the format carries (npz directory).
    Returns (bad, info): info = differences that are not part of the statement (order of R-vectors, further matrices)"""
    bad, info = [], []
    for k in ("nw", "lat", "cen"):
        if exp[k] != got[k]:
            bad.append(k)
    rs_e, rs_g = sorted(map(tuple, exp["R"])), sorted(map(tuple, got["R"]))
    if rs_e != rs_g:
        bad.append("R")
    elif exp["R"] != got["R"]:
        info.append("R_order")
    names = list(exp["mats"]) if names is None else list(names)
    for k in names:
        if k not in got["mats"]:
            bad.append("missing_matrix." + k)
        elif "R" not in bad:
            a, b = by_R(exp, k), by_R(got, k)
            if a is None or b is None or a != b:
                bad.append("mats." + k)
    extra = sorted(set(got["mats"]) - set(names))
    if extra:
        info.append("further_matrices:" + ",".join(extra))
    for k in carried:
        if k == "pg":
            if exp["pg"] is not None and got["pg"] is not None:
                if sorted(exp["pg"]) != sorted(got["pg"]):          # a set: the order of the elements is not compared
                    bad.append("pg")
        elif exp.get(k) != got.get(k):
            bad.append(k)
    return bad, info


# --------------------------------------------------------------------------- text files <-> token tables
_INT = re.compile(r"[+-]?\d+$")


def tokenize(path, header=True):
    """text file -> list of lines of ints (integer tokens as they are, float tokens in eighths)"""
    out = []
    with open(path) as f:
        for n, line in enumerate(f):
            if n == 0 and header:
                out.append([])
                continue
            toks = []
            for t in line.split():
                if _INT.match(t):
                    toks.append(int(t))
                else:
                    x = float(t) * 8
                    if abs(x - round(x)) > 1e-9:
                        raise ValueError(f"non-dyadic token {t} in {os.path.basename(path)}")
                    toks.append(int(round(x)))
            out.append(toks)
    return out


def try_tokenize(path, header=True):
    """-> (tokens, None) or (None, problem): a file of the real code that cannot be tokenised is information about its
    layout; whether the numbers survive is decided by the round trip through the real reader"""
    try:
        return tokenize(path, header), None
    except (ValueError, OSError) as ex:
        return None, str(ex)[:160]


def fl(x):
    return f"{x / 8:.10e}"


def render_tb(lines, path, nw, nR):
    """token table -> _tb.dat in the Wannier90 layout (positions decide what a line is, not its length)"""
    nl = (nR + 14) // 15
    blk = nw * nw + 2
    with open(path, "w") as f:
        for n, l in enumerate(lines):
            if n == 0:
                f.write("rendered from the specification\n")
            elif n in (1, 2, 3):
                f.write(" ".join(fl(x) for x in l) + "\n")
            elif n < 6 + nl:
                f.write("  ".join(str(x) for x in l) + "\n")
            else:
                pos = (n - 6 - nl) % blk
                if pos <= 1:
                    f.write("  ".join(str(x) for x in l) + "\n")
                else:
                    f.write(f"{l[0]:3d} {l[1]:3d} " + " ".join(fl(x) for x in l[2:]) + "\n")


def render_hr(lines, path, nR):
    nl = (nR + 14) // 15
    with open(path, "w") as f:
        for n, l in enumerate(lines):
            if n == 0:
                f.write("rendered from the specification\n")
            elif n < 3 + nl:
                f.write("  ".join(str(x) for x in l) + "\n")
            else:
                f.write(" ".join(f"{x:3d}" for x in l[:5]) + " " + " ".join(fl(x) for x in l[5:]) + "\n")


# --------------------------------------------------------------------------- calls of the real code
def real_call(fn, *a, **kw):
    try:
        with quiet():
            return fn(*a, **kw), None
    except Exception as ex:   # any exception of the library is an answer; its class is information
        return None, type(ex).__name__ + ": " + str(ex)[:200]


def read_tb(path, needAA, given, cen8, conv2=True, by_seedname=False):
    from wannierberri.system.system_R import System_R
    kw = dict(silent=True)
    if by_seedname:
        kw["seedname"] = path
    else:
        kw["tb_file"] = path
    if needAA:
        kw["berry"] = True
    if given:
        kw["wannier_centers_cart"] = np.array(cen8, dtype=float) / 8
    if not conv2:
        kw["convention_II_to_I"] = False
    return real_call(System_R.from_tb_file, **kw)


def read_hr(seed_path, lat8, given, cen8):
    from wannierberri.system.system_R import System_R
    kw = dict(seedname=seed_path, real_lattice=np.array(lat8, dtype=float) / 8, silent=True)
    if given:
        kw["wannier_centers_cart"] = np.array(cen8, dtype=float) / 8
    return real_call(System_R.from_hr_file, **kw)


def bands(s):
    """energies and k-derivative quantities of a system at the two k-points, evaluated directly on the object (no do_ws_dist):
    band gradients and the internal terms of the Berry curvature need Ham and the centres only, the full curvature needs AA"""
    import wannierberri as wb
    res = []
    q = ["energy", "band_gradients", "berry_curvature_internal_terms"] + (["berry_curvature"] if s.has_R_mat("AA") else [])
    for k in KPTS:
        with quiet():
            r = wb.evaluate_k(s, k=k, quantities=q, return_single_as_dict=True)
        res.append({name: np.array(r[name]) for name in q})
    return res


def bands_deviation(a, b, same_centres):
    """max deviation between the band quantities of two systems that hold the same Hamiltonian.  Energies always; band
    gradients when the bands are not (nearly) degenerate; Berry curvature (internal terms; all terms when both have AA) when
    in addition the centres are the same (the split into internal and external terms depends on them)"""
    dev = 0.0
    for ra, rb in zip(a, b):
        ea = ra["energy"]
        dev = max(dev, float(np.max(np.abs(ea - rb["energy"]))))
        gap = float(np.min(np.diff(np.sort(ea)))) if len(ea) > 1 else 1.0
        if gap > 1e-2:
            dev = max(dev, float(np.max(np.abs(ra["band_gradients"] - rb["band_gradients"]))))
            if same_centres:
                dev = max(dev, float(np.max(np.abs(ra["berry_curvature_internal_terms"] - rb["berry_curvature_internal_terms"]))))
                if "berry_curvature" in ra and "berry_curvature" in rb:
                    dev = max(dev, float(np.max(np.abs(ra["berry_curvature"] - rb["berry_curvature"]))))
    return dev


SITE = {"SaveNpz": "to_npz", "LoadNpz": "from_npz", "WriteTb": "to_tb_file", "ReadTb": "from_tb_file",
        "WriteHr": "to_hr_file", "ReadHr": "from_hr_file"}


def site_key(op, what, e=None, nw=None):
    if op == "ReadHr" and what.startswith("exception") and nw is not None and nw % 2 == 1 and e is not None and not e["given"]:
        return "read_WCC_WT_format:odd_num_wann"
    return f"{SITE[op]}:{what}"


class _Collect:
    """stands in for the Report when a replay is an observation only"""

    def __init__(self):
        self.items = []

    def violation(self, key, detail):
        self.items.append((key, detail))


class Replayer:
    def __init__(self, rep, wd):
        self.rep = rep
        self.wd = wd
        self.n = 0
        self.maxdev = 0.0
        self.numeric = 0
        self.ops = {}
        self.info = {}          # differences that are not part of the statement: counted

    def note(self, what):
        self.info[what] = self.info.get(what, 0) + 1

    def replay(self, st, origin="tlc-behaviour"):
        """st: parsed TLC state of MC_SysStore (store, hist). Returns True when the real code did what the statement says"""
        self.n += 1
        d = os.path.join(self.wd, f"b{self.n}")
        os.makedirs(d, exist_ok=True)
        try:
            return self._replay(st, origin, d)
        finally:
            shutil.rmtree(d, ignore_errors=True)

    def _replay(self, st, origin, d):
        hist = st["hist"]
        par = hist[0]["par"]
        sstore = [spec_sys(x) for x in st["store"]]
        herm = par[1] not in (3, 7) and not sstore[0]["phon"]
        real = {1: build_system(sstore[0], GEN_NAMES[par[5]])}
        info = dict(origin=origin, params=dict(nw=par[0], shape=par[1], pat=par[2], AA=par[3], SS=par[4], grp=par[5]),
                    ops=[dict(op=e["op"], src=e["src"], needAA=e["needAA"], given=e["given"]) for e in hist[1:]])
        b0, _ = diff_sys(sstore[0], project(real[1]))
        if b0:
            raise MachineryError(f"harness cannot build the specification's system: {b0} {info}")
        ok = True
        npzdir, tbfile, hrseed = os.path.join(d, "npz"), os.path.join(d, "sys_tb.dat"), os.path.join(d, "sys")
        for e in hist[1:]:
            op = e["op"]
            self.ops[op] = self.ops.get(op, 0) + 1
            src = sstore[e["src"] - 1]
            nw = src["nw"]
            if op in ("SaveNpz", "WriteTb", "WriteHr"):
                if e["src"] not in real:
                    break
                sysr = real[e["src"]]
                if op == "SaveNpz":
                    _, ex = real_call(sysr.to_npz, npzdir)
                elif op == "WriteTb":
                    _, ex = real_call(sysr.to_tb_file, tb_file=tbfile)
                else:
                    _, ex = real_call(sysr.to_hr_file, seedname=hrseed)
                if ex:
                    self.rep.violation(site_key(op, "exception"), dict(info, step=e["op"], exception=ex))
                    ok = False
                    break
                continue
            if op == "LoadNpz":
                from wannierberri.system.system_R import System_R
                got, ex = real_call(System_R.from_npz, npzdir)
            elif op == "ReadTb":
                got, ex = read_tb(tbfile, e["needAA"], e["given"], src["cen"])
            else:
                got, ex = read_hr(hrseed, src["lat"], e["given"], src["cen"])
            if e["err"] != "":
                # the file does not carry what the call asks for: the statement says nothing; what the code does is information
                if ex is None:
                    self.note(f"{SITE[op]}:success_where_the_model_fails")
                elif e["err"] not in ("eof",) and not ex.startswith(e["err"]):
                    self.note(f"{SITE[op]}:other_exception_class:" + ex.split(":")[0])
                if ex is None:
                    break                       # the model has no system for this step: the rest cannot be followed
                continue
            if ex is not None:
                self.rep.violation(site_key(op, "exception", e, nw),
                                   dict(info, step=op, needAA=e["needAA"], centres_passed=e["given"], num_wann=nw, exception=ex,
                                        expected="the reader returns the system that was written"))
                ok = False
                break
            exp = sstore[e["dst"] - 1]
            try:
                gp = project(got)
            except ValueError as ve:
                self.rep.violation(site_key(op, "projection"), dict(info, step=op, problem=str(ve)))
                ok = False
                break
            if op == "LoadNpz":
                # a re-used directory keeps files of matrices the saved system does not have (model: stale files): only the
                # matrices of the saved system are part of the statement
                bad, inf = diff_sys(exp, gp, names=list(src["mats"]))
            elif op == "ReadTb":
                bad, inf = diff_sys(exp, gp, names=["Ham"] + (["AA"] if e["needAA"] else []), carried=())
            else:
                bad, inf = diff_sys(exp, gp, names=["Ham"], carried=())
            for x in inf:
                self.note(f"{SITE[op]}:{x.split(':')[0]}")
            if bad:
                self.rep.violation(site_key(op, "projection"), dict(info, step=op, differing_fields=bad,
                                                                    expected={k: exp[k] for k in ("nw", "lat", "cen", "R")},
                                                                    got={k: gp[k] for k in ("nw", "lat", "cen", "R")}))
                ok = False
                break
            real[e["dst"]] = got
            # bands and Berry curvature of the reloaded system (numeric part of the statement)
            if herm and e["src"] in real and (e["fresh"] or op != "LoadNpz"):
                ref = bands(real[e["src"]])
                bg, bex = real_call(bands, got)
                if bex is not None:
                    self.rep.violation("evaluate_k:reloaded_system", dict(info, step=op, exception=bex, what="evaluate_k raises on the reloaded system, not on the original"))
                    ok = False
                    break
                dev = bands_deviation(ref, bg, src["cen"] == gp["cen"])
                self.maxdev = max(self.maxdev, dev)
                self.numeric += len(KPTS)
                if not dev <= 1e-8:
                    self.rep.violation("evaluate_k:reloaded_system",
                                       dict(info, step=op, deviation=dev, kpoints=KPTS,
                                            what="energy / band_gradients / berry_curvature evaluated directly on the reloaded system"))
                    ok = False
        return ok


def replay_files(rep, obs, s, wd, n):
    """one state of MC_SysFiles: real readers on rendered token tables (Wannier90 layout), both conventions and the default
    file name on the real code; the layout of the files the real writers produce is information"""
    par = s["par"]
    sysrec = spec_sys(s["sys"])
    real = build_system(sysrec, GEN_NAMES[par[5]])
    d = os.path.join(wd, f"f{n}")
    os.makedirs(d, exist_ok=True)
    nw, nR = sysrec["nw"], len(sysrec["R"])
    info = dict(params=dict(nw=par[0], shape=par[1], pat=par[2], AA=par[3], SS=par[4], grp=par[5]), ndegen_pattern=s["ndp"])
    tb, hr, wcc = L(s["tb"]), L(s["hr"]), L(s["wcc"])

    def note(k):
        obs[k] = obs.get(k, 0) + 1

    def compare(key, got, ex, names, extra):
        """got: system returned by a real reader; the statement: it is the system of the state"""
        if ex is not None:
            rep.violation(key + ":exception" if not key.startswith("read_WCC") else key, dict(info, exception=ex, **extra))
            return
        try:
            gp = project(got)
        except ValueError as ve:
            rep.violation(key + ":projection", dict(info, problem=str(ve), **extra))
            return
        bad, inf = diff_sys(sysrec, gp, names=names, carried=())
        for x in inf:
            note(key + ":" + x.split(":")[0])
        if bad:
            rep.violation(key + ":projection", dict(info, differing_fields=bad, **extra))

    hr_wcc = None
    try:
        if s["ndp"] == 0:
            # ---- files written by the real code: layout = information, content = round trip through the real readers
            _, ex = real_call(real.to_tb_file, tb_file=os.path.join(d, "w_tb.dat"))
            if ex:
                rep.violation("to_tb_file:exception", dict(info, exception=ex))
            else:
                t, prob = try_tokenize(os.path.join(d, "w_tb.dat"))
                note("to_tb_file:tokens_as_modelled" if t == tb else "to_tb_file:tokens_differ_from_model")
                got, ex = read_tb(os.path.join(d, "w_tb.dat"), "AA" in sysrec["mats"], True, sysrec["cen"])
                compare("from_tb_file", got, ex, ["Ham"] + (["AA"] if "AA" in sysrec["mats"] else []), dict(step="real file, real reader"))
            _, ex = real_call(real.to_hr_file, seedname=os.path.join(d, "w"))
            if ex:
                rep.violation("to_hr_file:exception", dict(info, exception=ex))
            else:
                t, prob = try_tokenize(os.path.join(d, "w_hr.dat"))
                note("to_hr_file:tokens_as_modelled" if t == hr else "to_hr_file:tokens_differ_from_model")
                t, prob = try_tokenize(os.path.join(d, "w_wannier_centre_WT_format.dat"), header=False)
                note("write_WCC_WT_format:tokens_as_modelled" if t == wcc else "write_WCC_WT_format:tokens_differ_from_model")
                hr_wcc = os.path.join(d, "w_wannier_centre_WT_format.dat")
                got, ex = read_hr(os.path.join(d, "w"), sysrec["lat"], False, sysrec["cen"])
                if ex is not None and nw % 2 == 1:
                    rep.violation("read_WCC_WT_format:odd_num_wann", dict(info, exception=ex, num_wann=nw))
                else:
                    compare("from_hr_file", got, ex, ["Ham"], dict(step="real files, real reader"))
            if "AA" in sysrec["mats"]:
                # ---- convention I on both sides (use_convention_II=False / convention_II_to_I=False, centres passed)
                _, ex = real_call(real.to_tb_file, tb_file=os.path.join(d, "c1_tb.dat"), use_convention_II=False)
                if ex:
                    rep.violation("to_tb_file:exception", dict(info, exception=ex, option="use_convention_II=False"))
                else:
                    t, prob = try_tokenize(os.path.join(d, "c1_tb.dat"))
                    note("to_tb_file(convention I):tokens_as_modelled" if t == L(s["tbI"]) else "to_tb_file(convention I):tokens_differ_from_model")
                    got, ex = read_tb(os.path.join(d, "c1_tb.dat"), True, True, sysrec["cen"], conv2=False)
                    if s["rtbI"]["err"] != "":
                        raise MachineryError(f"specification reader failed on its own convention-I file {info}")
                    compare("from_tb_file:convention_I", got, ex, ["Ham", "AA"], dict(step="use_convention_II=False, convention_II_to_I=False"))
            # ---- default file name: to_tb_file(seedname=..) writes <seedname>_tb.dat, from_tb_file(seedname=..) reads it
            _, ex = real_call(real.to_tb_file, seedname=os.path.join(d, "sd"))
            if ex:
                rep.violation("to_tb_file:exception", dict(info, exception=ex, option="seedname instead of tb_file"))
            elif not os.path.exists(os.path.join(d, "sd_tb.dat")):
                note("to_tb_file(seedname):other_file_name")
            else:
                got, ex = read_tb(os.path.join(d, "sd"), False, True, sysrec["cen"], by_seedname=True)
                compare("from_tb_file:default_file_name", got, ex, ["Ham"], dict(step="seedname instead of tb_file"))
        # ---- the specification's files (Wannier90 layout) through the real readers
        render_tb(tb, os.path.join(d, "r_tb.dat"), nw, nR)
        render_hr(hr, os.path.join(d, "r_hr.dat"), nR)
        tag = "rendered_w90_file" if s["ndp"] == 0 else "foreign_ndegen"
        cases = [("from_tb_file:" + tag, s["rtb"], lambda: read_tb(os.path.join(d, "r_tb.dat"), False, True, sysrec["cen"]), ["Ham"])]
        if "AA" in sysrec["mats"]:
            cases.append(("from_tb_file:" + tag, s["rtbAA"], lambda: read_tb(os.path.join(d, "r_tb.dat"), True, False, sysrec["cen"]), ["Ham", "AA"]))
        # the centre file is the code's own pairing of writer and reader (no external layout): the real writer's file is used
        if hr_wcc is None:
            _, ex = real_call(real.to_hr_file, seedname=os.path.join(d, "w"))
            hr_wcc = os.path.join(d, "w_wannier_centre_WT_format.dat") if ex is None else None
        if hr_wcc is not None and os.path.exists(hr_wcc):
            shutil.copy(hr_wcc, os.path.join(d, "r_wannier_centre_WT_format.dat"))
            cases.append(("from_hr_file:" + tag, s["rhr"], lambda: read_hr(os.path.join(d, "r"), sysrec["lat"], False, sysrec["cen"]), ["Ham"]))
        else:
            cases.append(("from_hr_file:" + tag, s["rhr"], lambda: read_hr(os.path.join(d, "r"), sysrec["lat"], True, sysrec["cen"]), ["Ham"]))
        for key, expr, call, names in cases:
            if expr["err"] != "":
                raise MachineryError(f"specification reader failed on its own file: {expr['err']} {info}")
            got, ex = call()
            if ex is not None and key.startswith("from_hr_file") and nw % 2 == 1:
                rep.violation("read_WCC_WT_format:odd_num_wann", dict(info, exception=ex, num_wann=nw))
                continue
            compare(key, got, ex, names, dict(step="file rendered from the specification's token table"))
    finally:
        shutil.rmtree(d, ignore_errors=True)


# --------------------------------------------------------------------------- random recorded round trips
def random_sparse_system(rng):
    import wannierberri as wb
    nw = rng.choice([1, 1, 2, 2, 3, 3, 4, 5])
    herm = rng.random() < 0.7
    nR = rng.choice([0, 1, 2, 3, 7, 8, 16]) if nw <= 2 else rng.choice([0, 1, 2, 3])
    Rs = set()
    while len(Rs) < nR:
        R = tuple(rng.randint(-2, 2) for _ in range(3))
        if R != (0, 0, 0) and tuple(-x for x in R) not in Rs:
            Rs.add(R)
    with_aa = rng.random() < 0.5
    while True:
        lat = np.array([[rng.randint(-12, 12) for _ in range(3)] for _ in range(3)], dtype=float) / 8 + np.eye(3) * rng.choice([1, 2])
        if abs(np.linalg.det(lat)) > 0.4:
            break
    cen = np.array([[rng.randint(-12, 20) for _ in range(3)] for _ in range(nw)], dtype=float) / 8

    def cval():
        return (rng.randint(-40, 40) + 1j * rng.randint(-40, 40)) / 8

    ham, aa = {}, {}
    M0 = np.array([[cval() for _ in range(nw)] for _ in range(nw)])
    if herm:
        M0 = M0 + M0.conj().T
    ham[(0, 0, 0)] = {(i, j): M0[i, j] for i in range(nw) for j in range(nw)}
    A0 = np.array([[[cval() for _ in range(3)] for _ in range(nw)] for _ in range(nw)])
    if herm:
        A0 = A0 + A0.conj().transpose(1, 0, 2)
    for i in range(nw):
        A0[i, i, :] = 1j * A0[i, i, :].imag
    aa[(0, 0, 0)] = {(i, j): A0[i, j] for i in range(nw) for j in range(nw)}
    for R in sorted(Rs):
        M = np.array([[cval() for _ in range(nw)] for _ in range(nw)])
        A = np.array([[[cval() for _ in range(3)] for _ in range(nw)] for _ in range(nw)])
        ham[R] = {(i, j): M[i, j] for i in range(nw) for j in range(nw)}
        aa[R] = {(i, j): A[i, j] for i in range(nw) for j in range(nw)}
        if herm:
            mR = tuple(-x for x in R)
            ham[mR] = {(j, i): np.conj(M[i, j]) for i in range(nw) for j in range(nw)}
            aa[mR] = {(j, i): np.conj(A[i, j]) for i in range(nw) for j in range(nw)}
    mats = {"Ham": ham}
    if with_aa:
        mats["AA"] = aa
    with quiet():
        s = wb.system.System_R.from_sparse(real_lattice=lat, wannier_centers_cart=cen, matrices=mats)
        if rng.random() < 0.3:
            s.set_pointgroup(["Inversion"])
        if rng.random() < 0.3:
            s.periodic = np.array([True, True, False])
        if rng.random() < 0.2:
            s.is_phonon = True
    return s, herm


def record_roundtrips(rep, vio, rng, n, wd):
    """-> (records, meta): one record per round trip the real code completed or refused at the reader; a writer that raises
    on a valid system is a violation at once (there is nothing to record)"""
    from wannierberri.system.system_R import System_R
    recs, meta = [], []
    maxdev = 0.0
    for it in range(n):
        s, herm = random_sparse_system(rng)
        ps = project(s)
        d = os.path.join(wd, f"r{it}")
        os.makedirs(d, exist_ok=True)
        fmt = ("tb", "hr", "npz")[it % 3]
        rec = dict(fmt=fmt, sys=ps)
        m = dict(fmt=fmt, nw=ps["nw"], nR=len(ps["R"]))
        try:
            if fmt == "tb":
                needAA, given = rng.random() < 0.5, rng.random() < 0.5
                conv2 = rng.random() < 0.75
                if "AA" not in ps["mats"] and rng.random() < 0.8:
                    needAA, given = False, True
                if not conv2:
                    given = True            # a convention-I file does not carry the centres at all
                _, wex = real_call(s.to_tb_file, tb_file=os.path.join(d, "x_tb.dat"), **({} if conv2 else dict(use_convention_II=False)))
                if wex:
                    vio.violation("to_tb_file:exception", dict(meta=m, exception=wex, conv2=conv2))
                    continue
                toks, prob = try_tokenize(os.path.join(d, "x_tb.dat"))
                rec.update(tb=toks if toks is not None else [], needAA=needAA, given=given, conv2=conv2)
                got, ex = read_tb(os.path.join(d, "x_tb.dat"), needAA, given, ps["cen"], conv2=conv2)
                m.update(given=given, needAA=needAA, conv2=conv2, layout_problem=prob)
            elif fmt == "hr":
                given = rng.random() < 0.3
                _, wex = real_call(s.to_hr_file, seedname=os.path.join(d, "x"))
                if wex:
                    vio.violation("to_hr_file:exception", dict(meta=m, exception=wex))
                    continue
                toks, prob = try_tokenize(os.path.join(d, "x_hr.dat"))
                wtoks, prob2 = try_tokenize(os.path.join(d, "x_wannier_centre_WT_format.dat"), header=False)
                rec.update(hr=toks if toks is not None else [], wcc=wtoks if wtoks is not None else [], given=given)
                got, ex = read_hr(os.path.join(d, "x"), ps["lat"], given, ps["cen"])
                m.update(given=given, layout_problem=prob or prob2)
            else:
                _, wex = real_call(s.to_npz, os.path.join(d, "dir"))
                if wex:
                    vio.violation("to_npz:exception", dict(meta=m, exception=wex))
                    continue
                names = sorted(os.path.splitext(f)[0] for f in os.listdir(os.path.join(d, "dir")) if f.endswith(".npz"))
                rec.update(props=[x for x in names if not x.startswith("_XX_R_")], matfiles=[x[6:] for x in names if x.startswith("_XX_R_")])
                got, ex = real_call(System_R.from_npz, os.path.join(d, "dir"))
            if ex is not None:
                rec["out"] = dict(err=ex.split(":")[0])
            else:
                try:
                    pg_ = project(got)
                    if pg_["pg"] is None or ps["pg"] is None:
                        pg_["pg"] = ps["pg"] = []
                    rec["out"] = dict(err="", sys=pg_)
                except ValueError as ve:
                    rec["out"] = dict(err="projection: " + str(ve))
                if herm and rec["out"]["err"] == "" and not ps["phon"]:
                    ref = bands(s)
                    bg, bex = real_call(bands, got)
                    dev = bands_deviation(ref, bg, ps["cen"] == rec["out"]["sys"]["cen"]) if bex is None else float("inf")
                    maxdev = max(maxdev, dev) if bex is None else maxdev
                    if bex is not None:
                        vio.violation("evaluate_k:reloaded_system", dict(meta=m, exception=bex, origin="random recorded round trip",
                                                                         what="evaluate_k raises on the reloaded system, not on the original"))
                    elif not dev <= 1e-8:
                        vio.violation("evaluate_k:reloaded_system", dict(meta=m, deviation=dev, kpoints=KPTS, origin="random recorded round trip",
                                                                         what="energy / band_gradients / berry_curvature evaluated directly on the reloaded system"))
            m["exception"] = ex
            recs.append(rec)
            meta.append(m)
            rep.case(("rec", fmt, ps["nw"], len(ps["R"]), it))
        finally:
            shutil.rmtree(d, ignore_errors=True)
    return recs, meta, maxdev


# --------------------------------------------------------------------------- printed precision (numeric, deciding)
TOL_TEXT = 1e-7         # relative, per real component: %15.8e keeps 9 significant digits (half-ulp 5e-9)
TOL_WCC = 1e-7          # absolute: the centre file is written with repr (exact) but |x| <= 1e-7 is written as 0.0


def _mag(rng):
    return rng.choice([-1, 1]) * (1 + rng.random()) * 10.0 ** rng.uniform(-9, 3)


def random_float_system(rng, hexagonal):
    import wannierberri as wb
    nw = rng.choice([1, 2, 3, 4, 5])
    Rs = set()
    for _ in range(rng.choice([0, 1, 3, 8])):
        R = tuple(rng.randint(-2, 2) for _ in range(3))
        if R != (0, 0, 0):
            Rs.add(R)
    if hexagonal:
        a, c = 1 + rng.random(), 1 + 2 * rng.random()
        lat = np.array([[a, 0, 0], [-a / 2, a * np.sqrt(3) / 2, 0], [0, 0, c]])
    else:
        while True:
            lat = np.array([[rng.uniform(-1.5, 1.5) for _ in range(3)] for _ in range(3)]) + np.eye(3) * 2.5
            if abs(np.linalg.det(lat)) > 1:
                break
    cen = np.array([[rng.uniform(-3, 3) for _ in range(3)] for _ in range(nw)])
    if rng.random() < 0.3:
        cen[0, 0] = 3e-8                       # below the zeroing threshold of the centre file
    ham = {R: {(i, j): _mag(rng) + 1j * _mag(rng) for i in range(nw) for j in range(nw)} for R in Rs | {(0, 0, 0)}}
    mats = {"Ham": ham}
    if rng.random() < 0.6:
        aa = {R: {(i, j): np.array([_mag(rng) + 1j * _mag(rng) for _ in range(3)]) for i in range(nw) for j in range(nw)}
              for R in Rs | {(0, 0, 0)}}
        for i in range(nw):
            aa[(0, 0, 0)][(i, i)] = np.zeros(3, dtype=complex)
        mats["AA"] = aa
    with quiet():
        s = wb.system.System_R.from_sparse(real_lattice=lat, wannier_centers_cart=cen, matrices=mats)
        if hexagonal:
            s.set_pointgroup(rng.choice([["C3z", "Inversion"], ["C6z"], ["C3z", "TimeReversal"]]))
            s.is_phonon = rng.random() < 0.5
    return s


def _blocks(s, k):
    a = np.asarray(s.get_R_mat(k))
    return {tuple(int(x) for x in r): a[i] for i, r in enumerate(s.rvec.iRvec)}


def _reldev(a, b, floor=None):
    """max over real components of |a-b| / (|a| (+ floor))"""
    a, b = np.asarray(a), np.asarray(b)
    if a.shape != b.shape:
        return float("inf")
    dev = 0.0
    for x, y in ((a.real, b.real), (a.imag, b.imag)):
        den = np.abs(x) + (0.0 if floor is None else floor)
        num = np.abs(x - y)
        with np.errstate(divide="ignore", invalid="ignore"):
            r = np.where(num == 0, 0.0, num / np.where(den == 0, np.nan, den))
        r = np.where(np.isnan(r), np.inf, r)
        dev = max(dev, float(np.max(r)) if r.size else 0.0)
    return dev


def precision_roundtrips(vio, rng, n, wd):
    """non-dyadic numbers through the three formats; -> dict of observed maxima"""
    from wannierberri.system.system_R import System_R
    obs = dict(cases=0, tb_rel=0.0, hr_rel=0.0, wcc_abs=0.0, tb_centres_rel=0.0, hexagonal=0, phonon=0)

    def same_R(s, t):
        return sorted(map(tuple, np.asarray(s.rvec.iRvec).tolist())) == sorted(map(tuple, np.asarray(t.rvec.iRvec).tolist()))

    for it in range(n):
        fmt = ("tb", "hr", "npz")[it % 3]
        hexagonal = fmt == "npz" and (it // 3) % 2 == 0
        s = random_float_system(rng, hexagonal)
        nw = int(s.num_wann)
        m = dict(fmt=fmt, nw=nw, nR=int(s.rvec.nRvec), hexagonal=hexagonal, case=it, seed=seed())
        d = os.path.join(wd, f"p{it}")
        os.makedirs(d, exist_ok=True)
        obs["cases"] += 1
        try:
            cen = np.array(s.wannier_centers_cart, dtype=float)
            if fmt == "tb":
                has_aa = s.has_R_mat("AA")
                given = (not has_aa) or rng.random() < 0.5
                _, ex = real_call(s.to_tb_file, tb_file=os.path.join(d, "x_tb.dat"))
                if ex:
                    vio.violation("to_tb_file:exception", dict(meta=m, exception=ex))
                    continue
                kw = dict(tb_file=os.path.join(d, "x_tb.dat"), silent=True)
                if has_aa:
                    kw["berry"] = True
                if given:
                    kw["wannier_centers_cart"] = cen
                t, ex = real_call(System_R.from_tb_file, **kw)
                if ex:
                    vio.violation("from_tb_file:exception", dict(meta=m, exception=ex, numbers="non-dyadic"))
                    continue
                bad = []
                if not np.array_equal(np.asarray(t.real_lattice), np.asarray(s.real_lattice)):
                    bad.append(("lattice", float(np.max(np.abs(np.asarray(t.real_lattice) - np.asarray(s.real_lattice))))))
                if not same_R(s, t):
                    bad.append(("R", None))
                else:
                    hs, ht = _blocks(s, "Ham"), _blocks(t, "Ham")
                    dev = max(_reldev(hs[r], ht[r]) for r in hs)
                    obs["tb_rel"] = max(obs["tb_rel"], dev)
                    if dev > TOL_TEXT:
                        bad.append(("Ham", dev))
                    cdev = 0.0 if given else _reldev(cen, np.asarray(t.wannier_centers_cart))
                    if given and not np.array_equal(cen, np.asarray(t.wannier_centers_cart)):
                        cdev = float("inf")
                    obs["tb_centres_rel"] = max(obs["tb_centres_rel"], cdev)
                    if cdev > TOL_TEXT:
                        bad.append(("centres", cdev))
                    if has_aa:
                        as_, at = _blocks(s, "AA"), _blocks(t, "AA")
                        dev = 0.0
                        for r in as_:
                            if r == (0, 0, 0):
                                # the diagonal is printed as AA + centre: the absolute error scales with the centre
                                idx = np.arange(nw)
                                off = ~np.eye(nw, dtype=bool)
                                if nw > 1:
                                    dev = max(dev, _reldev(as_[r][off], at[r][off]))
                                dg = as_[r][idx, idx, :] - at[r][idx, idx, :]
                                num = np.maximum(np.abs(dg.real), np.abs(dg.imag))
                                den = np.abs(cen) + np.abs(as_[r][idx, idx, :])
                                with np.errstate(divide="ignore", invalid="ignore"):
                                    q = np.where(num == 0, 0.0, num / np.where(den == 0, np.nan, den))
                                dev = max(dev, float(np.max(np.where(np.isnan(q), np.inf, q))))
                            else:
                                dev = max(dev, _reldev(as_[r], at[r]))
                        obs["tb_rel"] = max(obs["tb_rel"], dev)
                        if dev > TOL_TEXT:
                            bad.append(("AA", dev))
                if bad:
                    vio.violation("to_tb_file:precision", dict(meta=m, centres_passed=given, beyond_tolerance=bad, tolerance=TOL_TEXT,
                                                                what="relative deviation per real component after to_tb_file / from_tb_file"))
            elif fmt == "hr":
                given = rng.random() < 0.3
                _, ex = real_call(s.to_hr_file, seedname=os.path.join(d, "x"))
                if ex:
                    vio.violation("to_hr_file:exception", dict(meta=m, exception=ex))
                    continue
                kw = dict(seedname=os.path.join(d, "x"), real_lattice=np.array(s.real_lattice), silent=True)
                if given:
                    kw["wannier_centers_cart"] = cen
                t, ex = real_call(System_R.from_hr_file, **kw)
                if ex:
                    key = "read_WCC_WT_format:odd_num_wann" if (nw % 2 == 1 and not given) else "from_hr_file:exception"
                    vio.violation(key, dict(meta=m, exception=ex, numbers="non-dyadic"))
                    continue
                bad = []
                if not same_R(s, t):
                    bad.append(("R", None))
                else:
                    hs, ht = _blocks(s, "Ham"), _blocks(t, "Ham")
                    dev = max(_reldev(hs[r], ht[r]) for r in hs)
                    obs["hr_rel"] = max(obs["hr_rel"], dev)
                    if dev > TOL_TEXT:
                        bad.append(("Ham", dev))
                ct = np.asarray(t.wannier_centers_cart)
                cdev = float(np.max(np.abs(ct - cen))) if ct.shape == cen.shape else float("inf")
                obs["wcc_abs"] = max(obs["wcc_abs"], cdev)
                if cdev > TOL_WCC:
                    bad.append(("centres", cdev))
                if bad:
                    key = "write_WCC_WT_format:precision" if [b for b in bad if b[0] == "centres"] and len(bad) == 1 else "to_hr_file:precision"
                    vio.violation(key, dict(meta=m, centres_passed=given, beyond_tolerance=bad, tolerance=dict(Ham=TOL_TEXT, centres=TOL_WCC)))
            else:
                obs["hexagonal"] += 1 if hexagonal else 0
                obs["phonon"] += 1 if bool(np.asarray(s.is_phonon)) else 0
                _, ex = real_call(s.to_npz, os.path.join(d, "dir"))
                if ex:
                    vio.violation("to_npz:exception", dict(meta=m, exception=ex))
                    continue
                t, ex = real_call(System_R.from_npz, os.path.join(d, "dir"))
                if ex:
                    vio.violation("from_npz:exception", dict(meta=m, exception=ex, numbers="non-dyadic"))
                    continue
                bad = []
                for name in ("real_lattice", "wannier_centers_cart", "periodic"):
                    if not np.array_equal(np.asarray(getattr(s, name)), np.asarray(getattr(t, name))):
                        bad.append(name)
                if bool(np.asarray(s.is_phonon)) != bool(np.asarray(t.is_phonon)):
                    bad.append("is_phonon")
                if not same_R(s, t) or set(matrix_names(s)) != set(matrix_names(t)):
                    bad.append("R/matrix names")
                else:
                    for k in matrix_names(s):
                        a, b = _blocks(s, k), _blocks(t, k)
                        if any(not np.array_equal(a[r], b[r]) for r in a):
                            bad.append("mats." + k)
                ea, eb = pg_elements(s), pg_elements(t)
                if ea is not None and eb is not None:
                    # the same set of group elements (float matrices: a generated group is rebuilt from its elements)
                    if len(ea) != len(eb) or any(min((float(np.max(np.abs(M - N))) if tr == tr2 else 9.0) for N, tr2 in eb) > 1e-9 for M, tr in ea):
                        bad.append("pointgroup")
                if bad:
                    vio.violation("to_npz:precision", dict(meta=m, differing=bad, what="the npz directory is binary: every value has to come back bit by bit"))
        finally:
            shutil.rmtree(d, ignore_errors=True)
    return obs


def soc_observation(rng, wd):
    """SystemSOC.to_npz/from_npz (system_soc.py) on a hand-made object: information only (the object is assembled by the harness
    through attributes of the class, not by the package)"""
    out = {}
    d = os.path.join(wd, "soc")
    try:
        from wannierberri.system.system_soc import SystemSOC
        s = random_float_system(rng, False)
        nw, nR = int(s.num_wann), int(s.rvec.nRvec)
        with quiet():
            soc = SystemSOC(system_up=s, cell=dict(positions=[[0, 0, 0]], typat=[1], magmoms_on_axis=[0.0]))
            soc.rvec = s.rvec
            dv = np.array([[[[_mag(rng) + 1j * _mag(rng) for _ in range(3)] for _ in range(nw)] for _ in range(nw)] for _ in range(nR)])
            soc.set_R_mat("dV_soc_wann_0_0", dv)
        for label, with_pg in (("pointgroup_as_constructed", False), ("pointgroup_of_the_scalar_system", True)):
            if with_pg:
                soc.pointgroup = s.pointgroup
            shutil.rmtree(d, ignore_errors=True)
            _, ex = real_call(soc.to_npz, d)
            if ex:
                out[label] = "to_npz raises " + ex
                continue
            t, ex = real_call(SystemSOC.from_npz, d)
            if ex:
                out[label] = "from_npz raises " + ex
                continue
            same = np.array_equal(np.asarray(t.get_R_mat("dV_soc_wann_0_0")), dv) and int(t.num_wann) == 2 * nw and \
                np.array_equal(np.asarray(t.system_up.get_R_mat("Ham")), np.asarray(s.get_R_mat("Ham")))
            out[label] = "round trip ok" if same else "round trip differs"
    except Exception as ex:                   # assembled through internals: anything here is the harness's own doing
        skipped_private("SystemSOC (hand-made)", f"{type(ex).__name__}: {ex}")
    finally:
        shutil.rmtree(d, ignore_errors=True)
    return out


def replay_counterexample(st, wd):
    """last state of a TLC counter-example executed on the real code: does the code do what that model says? (observation)"""
    obs = {}
    try:
        last = re.split(r"(?m)^State \d+: [^\n]*\n", st["output"])[-1]
        last = last.split("\n\n")[0]
        stt = tlaparse.parse_state_body(last)
        col = _Collect()
        obs["behaviour"] = [e["op"] for e in stt["hist"][1:]]
        rp = Replayer(col, wd)
        ok = bool(rp.replay(stt, origin="tlc-counterexample"))
        obs["real_code_follows_this_model"] = ok and not rp.info
        if col.items:
            obs["differences"] = [k for k, _ in col.items][:3]
        if rp.info:
            obs["information"] = dict(rp.info)
    except Exception as ex:   # observation only
        obs["replay_problem"] = str(ex)[:200]
    return obs


REC_CFG = "SPECIFICATION RecSpec\nCONSTANTS\n  WccSplitCeil = TRUE\nINVARIANT Report\nCHECK_DEADLOCK FALSE\n"


def mc_cfg(nws, shapes, pats, maxlen, invs, ceil=True, aazero=True, spec="Spec", extra=""):
    return (f"SPECIFICATION {spec}\nCONSTANTS\n  WccSplitCeil = {'TRUE' if ceil else 'FALSE'}\n  NWS = {tlc.tla_value(set(nws))}\n"
            f"  SHAPES = {tlc.tla_value(set(shapes))}\n  PATS = {tlc.tla_value(set(pats))}\n  AAZERO = {'TRUE' if aazero else 'FALSE'}\n"
            f"  MAXLEN = {maxlen}\n{extra}" + "".join(f"INVARIANT {i}\n" for i in invs) + "CHECK_DEADLOCK FALSE\n")


def enum_states(module, cfg, name, timeout):
    """ftable.enumerate_states without the coverage statistics (they double the CPU time of these models; non-vacuity is
    counted on the dump instead)"""
    st = tlc.run_tlc(module, cfg, name, workers=4, dump=True, coverage=False, timeout=timeout)
    if st.get("timeout"):
        raise MachineryError(f"TLC timed out on {name}")
    if st.get("error") and not st.get("violation"):
        raise MachineryError(f"TLC error on {name}: {st['error'][:600]}")
    return st


def drop_dump(st):
    """the state dump has been consumed; tlc.out stays as evidence"""
    try:
        os.remove(st["dump_path"])
    except (OSError, KeyError, TypeError):
        pass


class Capped:
    """passes at most `cap` violations per key to the Report (so that every distinct key is written out), counts the rest"""

    def __init__(self, rep, cap=3):
        self.rep, self.cap, self.count = rep, cap, {}

    def violation(self, key, detail):
        self.count[key] = self.count.get(key, 0) + 1
        if self.count[key] <= self.cap:
            self.rep.violation(key, detail)


def beh_key(s):
    h = s["hist"]
    return (tuple(h[0]["par"]), tuple((e["op"], e["src"], e["needAA"], e["given"]) for e in h[1:]))


def classes_of(s):
    """classes a behaviour covers: (parity of num_wann, action, options of the read, R=0 first?)"""
    h = s["hist"]
    par = h[0]["par"]
    r0first = par[1] != 2
    out = set()
    for e in h[1:]:
        if e["op"] in ("LoadNpz", "ReadTb", "ReadHr"):
            out.add((par[0] % 2, e["op"], bool(e["needAA"]), bool(e["given"]), r0first, e["err"] == ""))
    return out


def draw_leaves(leaves, budget, rng):
    """deterministic, class-covering sample: the dump order of TLC is not deterministic, so sort by the full key first"""
    leaves = sorted(leaves, key=lambda s: repr(beh_key(s)))
    if len(leaves) <= budget:
        return leaves, len(leaves)
    order = list(range(len(leaves)))
    rng.shuffle(order)
    seen, first, rest = set(), [], []
    for i in order:
        c = classes_of(leaves[i]) - seen
        if c:
            seen |= c
            first.append(i)
        else:
            rest.append(i)
    pick = (first + rest)[:max(budget, len(first))]
    return [leaves[i] for i in pick], len(leaves)


def check(pid, tier):
    rep = Report(pid, tier, "model_checking")
    try:
        return _check(rep, pid, tier)
    except Exception:
        # never lose what has been found: write the violations out before the machinery problem is reported
        if rep.violations:
            try:
                rep.part("aborted", note="the run stopped early; the violations collected so far are reported")
                rep.finish()
            except Exception:
                pass
        raise


def _check(rep, pid, tier):
    vio = Capped(rep)
    thorough = tier == "thorough"
    rng = random.Random(seed() * 7919 + 18)
    import wannierberri  # noqa: F401  (import cost outside the loops)
    tag = f"{pid.lower()}_{tier}_{os.getpid()}"
    wd = workdir(tag)
    tlc_names = []
    timing = {}
    t_last = [cpu()]

    def lap(name):
        now = cpu()
        timing[name] = round(now - t_last[0], 1)
        t_last[0] = now

    def tname(n):
        tlc_names.append(f"{tag}_{n}")
        return tlc_names[-1]

    rep.rule("TLC enumerates every behaviour (<= MAXLEN persistence actions) of every system of the family; a case = one behaviour "
             "replayed on real System_R objects and files (quick: seeded sample that covers every class (parity of num_wann, action, "
             "options, position of R=0); thorough: all), one file-table state, one seeded random recorded round trip validated by "
             "TLC, or one seeded random non-dyadic round trip; distinct by behaviour / parameters")
    rep.assume("exact part: all numbers are multiples of 1/8 (exact in binary floating point and in the printed formats); printed "
               "precision is the business of the numeric part `precision`")
    rep.assume("_tb.dat carries the centres only through AA(R=0) (zero diagonal in convention I) unless they are passed; the lattice is an argument of the _hr.dat reader")
    rep.assume("two systems are the same when they have the same set of R-vectors and the same block for every R-vector")

    # ---------------- spec: state machine, intended semantics; leaf behaviours are replayed
    nws, shapes, pats, maxlen = ((1, 2, 3, 4), (1, 2, 3, 4, 5), (1, 2), 3) if thorough else ((1, 2, 3), (1, 2, 3, 5), (1,), 3)
    invs = ["TbRoundTrip", "HrRoundTrip", "NpzRoundTrip", "WellFormed"]
    st = enum_states("MC_SysStore.tla", mc_cfg(nws, shapes, pats, maxlen, invs), tname("store"), 2400)
    ftable.spec_violation(rep, st, "c18_store")
    rep.add_tlc("c18_store", st)
    lap("tlc_store")
    rp = Replayer(vio, wd)
    nleaf = followed = 0
    budget = 10 ** 9 if thorough else 160
    leaves = []
    for s in ftable.dump_states(st):
        h = s["hist"]
        if len(h) - 1 == maxlen and any(e["op"] in ("LoadNpz", "ReadTb", "ReadHr") for e in h[1:]):
            leaves.append(s)
    drop_dump(st)
    if not leaves:
        raise MachineryError("no behaviour of full length in the dump")
    allcls = set().union(*[classes_of(s) for s in leaves])
    leaves, nall = draw_leaves(leaves, budget, rng)
    covered = set()
    for s in leaves:
        nleaf += 1
        h = s["hist"]
        rep.case(("beh",) + beh_key(s))
        if rp.replay(s):
            followed += 1
        covered |= classes_of(s)
        if nleaf <= 2:
            rep.sample(dict(params=list(h[0]["par"]), behaviour=[e["op"] for e in h[1:]], errors=[e["err"] for e in h[1:]]))
    if covered != allcls:
        raise MachineryError(f"replayed behaviours miss classes: {sorted(allcls - covered)[:5]}")
    for par in (0, 1):
        for op in ("LoadNpz", "ReadTb", "ReadHr"):
            if not any(c[0] == par and c[1] == op and c[5] for c in covered):
                raise MachineryError(f"no replayed behaviour with a successful {op} for {'odd' if par else 'even'} num_wann")
    rep.part("replay_store", behaviours=nleaf, of_leaf_behaviours=nall, classes=len(covered), did_what_the_statement_says=followed, actions=rp.ops)
    lap("replay_store")

    # ---------------- thorough: longer behaviours (MAXLEN 4) of a smaller family, seeded sample replayed
    if thorough:
        std = enum_states("MC_SysStore.tla", mc_cfg((1, 2, 3), (1, 3), (1,), 4, invs), tname("store_deep"), 2400)
        ftable.spec_violation(rep, std, "c18_store_deep")
        rep.add_tlc("c18_store_deep", std)
        deep = [s for s in ftable.dump_states(std)
                if len(s["hist"]) - 1 == 4 and s["hist"][-1]["op"] in ("LoadNpz", "ReadTb", "ReadHr")]
        drop_dump(std)
        deep, ndeep = draw_leaves(deep, 2500, rng)
        nd_ = fd_ = 0
        for s in deep:
            rep.case(("beh",) + beh_key(s))
            nd_ += 1
            fd_ += 1 if rp.replay(s) else 0
        rep.part("replay_store_deep", behaviours=nd_, did_what_the_statement_says=fd_, of=ndeep)
        lap("store_deep")

    # ---------------- spec: file tables for every system and Ndegen pattern
    fshapes = (1, 2, 3, 4, 5, 6, 7)
    fcfg = mc_cfg((1, 2, 3, 4) if thorough else (1, 2, 3), fshapes, pats if thorough else (1,), 0,
                  ["TbFileInverse", "TbFileInverseAA", "TbFileInverseConvI", "HrFileInverse", "NdegenLayout"],
                  spec="FSpec", extra="  NDPATS = {0, 1, 2}\n" if thorough else "  NDPATS = {0, 2}\n")
    stf = enum_states("MC_SysFiles.tla", fcfg, tname("files"), 1200)
    ftable.spec_violation(rep, stf, "c18_files")
    rep.add_tlc("c18_files", stf)
    lap("tlc_files")
    nf = 0
    ndseen = set()
    fobs = {}
    fstates = sorted(ftable.dump_states(stf), key=lambda s: (tuple(s["par"]), s["ndp"]))
    for s in fstates:
        nf += 1
        rep.case(("file", tuple(s["par"]), s["ndp"]))
        ndseen.add((s["ndp"] != 0, len(s["sys"]["R"])))
        replay_files(vio, fobs, s, wd, nf)
    drop_dump(stf)
    need = {(True, 15), (True, 16), (True, 17), (False, 15), (False, 16), (False, 17)}
    if nf != stf["distinct"] or not need <= ndseen:
        raise MachineryError(f"file-table dump incomplete: {nf} of {stf['distinct']}, classes missing {sorted(need - ndseen)}")
    rep.part("replay_files", states=nf)
    lap("replay_files")

    # ---------------- sensitivity: models of plausible wrong variants must violate the property in TLC
    s1 = tlc.run_tlc("MC_SysStore.tla", mc_cfg((1, 2, 3), (1,), (1,), 2, ["HrRoundTrip"], ceil=False), tname("wcc_floor"), workers=4, timeout=900)
    if not s1.get("violation"):
        raise MachineryError("sensitivity self-test failed: the reader that splits the WCC file at n div 2 must violate HrRoundTrip")
    rep.part("c18_wcc_floor", sensitivity_violation=s1["violation"][1], **replay_counterexample(s1, wd),
             note="model of the former defect of read_WCC_WT_format (splitting at n//2, repaired in 849f3dda): TLC must find HrRoundTrip "
                  "violated; the behaviour of the counter-example is executed on the real code as an observation")
    if thorough:
        s2 = tlc.run_tlc("MC_SysStore.tla", mc_cfg((2,), (1,), (1,), 2, ["TbRoundTripNoPrecondition"], aazero=False), tname("aadiag"), workers=4, timeout=900)
        if not s2.get("violation"):
            raise MachineryError("sensitivity self-test failed: without the AADiagZero precondition the centres cannot come back from _tb.dat")
        rep.part("c18_aadiag", sensitivity_violation=s2["violation"][1])
        s3 = tlc.run_tlc("MC_SysStore.tla", mc_cfg((1,), (5,), (1,), 5, ["NpzRoundTripStrict"]), tname("stale_npz"), workers=4, timeout=900)
        if not s3.get("violation"):
            raise MachineryError("sensitivity self-test failed: a re-used npz directory must keep stale matrix files in the model")
        obs = dict(sensitivity_violation=s3["violation"][1], **replay_counterexample(s3, wd))
        rep.part("c18_stale_npz", **obs, note="observation, not claimed by C18: to_npz into an existing directory leaves the _XX_R_*.npz files of "
                 "matrices the saved system does not have, from_npz loads them")
    lap("sensitivity")

    # ---------------- code -> spec: recorded random round trips validated by TLC
    nrec = 900 if thorough else 90
    recs, meta, mdev = record_roundtrips(rep, vio, rng, nrec, wd)
    lap("records_real")
    # binding self-test inside the same batch: corrupted copies of the first records the real code completed; the copy of a
    # record TLC accepts must be rejected (a record TLC rejects anyway proves nothing and is skipped)
    cand = [i for i, r in enumerate(recs) if r["fmt"] == "tb" and r["out"]["err"] == ""][:4]
    corrupted = []
    for i in cand:
        br = copy.deepcopy(recs[i])
        br["out"]["sys"]["mats"]["Ham"][0][0][0][0] += 1
        corrupted.append(br)
    stv, bad = ftable.validate_records("SysStoreRec.tla", REC_CFG, recs + corrupted, tname("rec"), chunk=400)
    rep.add_tlc("c18_records", stv)
    rep.add_traces(len(recs))
    bad_corrupted = {j: bad.pop(len(recs) + j, []) for j in range(len(corrupted))}
    usable = [j for j, i in enumerate(cand) if not [c for c in bad.get(i, []) if c not in INFO_CLAUSES]]
    if usable:
        j = usable[0]
        if not [c for c in bad_corrupted[j] if c not in INFO_CLAUSES]:
            raise MachineryError("binding self-test failed: corrupted round-trip record accepted")
        rep.part("binding_selftest", corrupted_record_rejected=bad_corrupted[j])
    elif not cand and not rep.violations:
        raise MachineryError("no successful _tb.dat record for the binding self-test")
    else:
        rep.part("binding_selftest", skipped="TLC rejects every candidate record itself (see the violations)")
    conf = {}
    for i, clauses in sorted(bad.items()):
        m = meta[i]
        for c in clauses:
            if c in INFO_CLAUSES:
                conf[c] = conf.get(c, 0) + 1
        clauses = [c for c in clauses if c not in INFO_CLAUSES]
        if not clauses:
            continue
        if m["fmt"] == "hr" and m["nw"] % 2 == 1 and not m["given"] and m["exception"]:
            key = "read_WCC_WT_format:odd_num_wann"
        else:
            key = f"{ {'tb': 'from_tb_file', 'hr': 'from_hr_file', 'npz': 'from_npz'}[m['fmt']] }:recorded"
        vio.violation(key, dict(meta=m, failing_clauses=clauses, record={k: v for k, v in recs[i].items() if k not in ("tb", "hr")}))
    rep.part("model_conformance", records=len(recs), information_only=True,
             records_where_the_code_differs_from_the_model=conf,
             note="file_layout: tokens of the written file vs the model's table; reader_model: result of the real reader vs the model's "
                  "reader on the real file; files_written: names of the .npz files of the directory")
    fm = {f: sum(1 for m in meta if m["fmt"] == f) for f in ("tb", "hr", "npz")}
    if not rep.violations and (min(fm.values()) == 0 or not any(m["nw"] % 2 == 1 for m in meta if m["fmt"] == "hr")
                               or not any(m.get("conv2") is False for m in meta)):
        raise MachineryError(f"record classes missing: {fm}")
    if meta:
        rep.sample(dict(record=meta[0]))
    lap("records_tlc")

    # ---------------- printed precision: non-dyadic numbers (numeric, deciding at the precision of the formats)
    pobs = precision_roundtrips(vio, rng, 240 if thorough else 45, wd)
    for _ in range(pobs["cases"]):
        rep.case(("precision", _))
    rep.part("precision", numeric_only=True, **pobs, tolerance=dict(tb_hr_relative=TOL_TEXT, centre_file_absolute=TOL_WCC, lattice_and_npz="bit-exact"),
             note="deviations are rounding of the formats (deterministic bound: %15.8e has a half-ulp of 5e-9 relative), not noise")
    rep.part("soc_npz_observation", **soc_observation(rng, wd))
    lap("precision")

    rep.part("numeric_only", what="energy, band gradients and Berry curvature of original vs reloaded system at two k-points (evaluate_k on the objects as loaded)",
             comparisons=rp.numeric, max_deviation=max(rp.maxdev, mdev), tolerance=1e-8)
    rep.part("layout_information", information_only=True, replay_store=rp.info, replay_files=fobs,
             note="counts of differences that are not part of the statement: layout of the written files, order of R-vectors / group "
                  "elements, further matrices returned, what the code does where the file does not carry what the call asks for")
    if SKIPPED:
        rep.part("skipped_private", **{k.replace(".", "_"): v for k, v in SKIPPED.items()})
    rep.part("violation_counts", **{k.replace(".", "_").replace(":", "_"): v for k, v in vio.count.items()})
    rep.part("cpu_seconds", **timing, total=round(sum(timing.values()), 1))
    shutil.rmtree(wd, ignore_errors=True)
    if not rep.violations:
        for n in tlc_names:
            shutil.rmtree(os.path.join(WORK, "tlc", n), ignore_errors=True)
            for c0 in range(0, 2000, 400):
                shutil.rmtree(os.path.join(WORK, "tlc", f"rec_{n}_{c0}"), ignore_errors=True)
            shutil.rmtree(os.path.join(WORK, "records", n), ignore_errors=True)
    return rep.finish()
