"""C09: point-group operations form a group acting on tensors.

spec  : PointGroupAlg.tla (PointSymmetry / PointGroup / Transform transcribed on exact integer matrices and tensors)
        MC_PointGroupAlg        every generator list of a catalogue (<= 2 generators quick, <= 3 thorough) on cubic-type
                                (sc, tet, ort, fcc, bcc) and hexagonal-type (hex, ohex) lattices: closure loop pass by pass,
                                group axioms, lattice invariance, stars, symmetric_grid, dict round trip; tensor action,
                                action law, symmetrisation for ranks 0..3 and pairs of the predefined Transforms
        MC_PointGroupLoop       the closure loop statement by statement against the operators
        MC_PointGroupTransforms Transform / TransformProduct: involutions, commuting pairs, product rule
bind  : spec -> code: every TLC state is replayed on the real PointGroup / PointSymmetry / Transform objects (exact
        comparison after rounding with verified integrality); code -> spec: seeded random generator sets (any element of
        O_h x {1,T} or D_6h x {1,T}), lattices, tensors, k-points are run on the real code and the recorded results validated
        by TLC against PointGroupAlgRec.tla.
Tensors on hexagonal lattices are compared through their components in the reciprocal hexagonal frame (integers there).
"""
import copy
import itertools
import math
import random
import re
import warnings
import zlib
from concurrent.futures import ThreadPoolExecutor

import numpy as np

from .. import tlc, ftable
from ..common import Report, MachineryError, seed

PROPS = {
    "C09": dict(level="model_checking",
                technique="TLC exhaustive on PointGroupAlg.tla (closure loop of PointGroup.__init__, group axioms, lattice invariance, "
                          "stars, tensor action law and symmetrisation over catalogue generator lists, lattices, ranks 0-3, Transform pairs) "
                          "+ replay of every TLC state on the real PointGroup/PointSymmetry/Transform + TLC validation of recorded random calls",
                text="TLC generates the group of every generator list (<=2 generators quick, <=3 thorough) of a catalogue of crystallographic "
                     "and magnetic operations on 7 lattices and checks closure, identity, inverses, |G|<=96, lattice invariance, star "
                     "(each image once), the action law Act(g,Act(h,T))=Act(gh,T), idempotence and invariance of the symmetrisation; "
                     "every state is replayed on the real code (symmetries in order, products, check_basis_symmetry, symmetric_grid, star, "
                     "as_dict round trip, transform_tensor, symmetrize_tensor) and random real calls are validated by TLC.",
                note="the action law needs transformTR/transformInv to be commuting involutions (spec predicate ValidPair; of the 36 pairs of "
                     "predefined transforms only {odd_trans_021, odd_trans_102} and {odd_trans_102, trans} fail it; no formula declares such a pair); "
                     "float tolerance 1e-7 only for the integrality of projected values (observed 1e-14)",
                ref="DESIGN.md 3.3"),
}

TOL = 1e-7
SQ3 = math.sqrt(3.0)
FRAME = {"cub": np.eye(3), "hex": np.array([[1.0, 1.0 / SQ3, 0.0], [0.0, 2.0 / SQ3, 0.0], [0.0, 0.0, 1.0]])}
LATS = {"sc": ("cub", [[1, 0, 0], [0, 1, 0], [0, 0, 1]]), "tet": ("cub", [[1, 0, 0], [0, 1, 0], [0, 0, 2]]),
        "ort": ("cub", [[1, 0, 0], [0, 2, 0], [0, 0, 3]]), "fcc": ("cub", [[0, 1, 1], [1, 0, 1], [1, 1, 0]]),
        "bcc": ("cub", [[-1, 1, 1], [1, -1, 1], [1, 1, -1]]), "hex": ("hex", [[1, 0, 0], [0, 1, 0], [0, 0, 1]]),
        "ohex": ("hex", [[1, 0, 0], [-1, 2, 0], [0, 0, 1]])}
TRANSFORM_NAMES = ["ident", "odd", "odd_conj", "odd_trans_021", "odd_trans_102", "trans"]


class NonIntegral(Exception):
    pass


def rint(x, what=""):
    x = np.asarray(x)
    r = np.rint(x.real)
    if x.size and (np.abs(x.real - r).max() > TOL or (np.iscomplexobj(x) and np.abs(x.imag).max() > TOL)):
        raise NonIntegral(f"{what}: deviation {np.abs(x.real - r).max():.3e}")
    return r.astype(int)


def wb():
    from wannierberri.symmetry import point_symmetry as ps
    return ps


# ----------------------------------------------------------------------------------------- frames, lattices, elements
def recip_basis(fam, A):
    return np.array(A, dtype=float) @ FRAME[fam]


def real_lattice(fam, A):
    """real lattice whose reciprocal lattice (up to the factor 2 pi) has the rows A @ frame"""
    return np.linalg.inv(recip_basis(fam, A)).T


def cart_from_frame(fam, Rf):
    Ft = FRAME[fam].T
    return Ft @ np.array(Rf, dtype=float) @ np.linalg.inv(Ft)


def frame_from_cart(fam, Rc):
    Ft = FRAME[fam].T
    return rint(np.linalg.inv(Ft) @ Rc @ Ft, "rotation matrix in the frame")


def elem_of(fam, s):
    """real PointSymmetry -> (R in the frame, Inv, TR) of the specification"""
    return (tuple(map(tuple, frame_from_cart(fam, s.R).tolist())), bool(s.Inv), bool(s.TR))


def elem_json(e):
    return dict(R=[list(r) for r in e[0]], inv=bool(e[1]), tr=bool(e[2]))


def spec_elem(d):
    return (tuple(tuple(r) for r in d["R"]), bool(d["inv"]), bool(d["tr"]))


def reduced_of(s, B):
    """the matrix W of the specification: transpose of the code's basis @ R.T @ inv(basis)"""
    return tuple(map(tuple, rint((B @ s.R.T @ np.linalg.inv(B)).T, "rotation matrix in reduced coordinates").tolist()))


_EXTRA = {}


def base_object(name):
    ps = wb()
    if name in ps.dict_sym:
        return ps.dict_sym[name]
    if not _EXTRA:
        _EXTRA["C3d"] = ps.Rotation(3, [1, 1, 1])
        _EXTRA["C2d"] = ps.Rotation(2, [1, 1, 0])
    return _EXTRA[name]


def generator_arg(names, as_string):
    """a generator of the catalogue (sequence of base names) as the code takes it: "A*B" or a PointSymmetry"""
    ps = wb()
    if as_string and all(n in ps.dict_sym for n in names):
        return "*".join(names)
    return ps.product([base_object(n) for n in names])


def build_group(fam, A, gens, use_real=True):
    """-> (PointGroup or None, raised AssertionError?)"""
    ps = wb()
    with warnings.catch_warnings():
        warnings.simplefilter("ignore")
        try:
            if use_real:
                return ps.PointGroup(list(gens), real_lattice=real_lattice(fam, A)), False
            return ps.PointGroup(list(gens), recip_lattice=2 * np.pi * recip_basis(fam, A)), False
        except AssertionError:
            return None, True


# ----------------------------------------------------------------------------------------- tensors
def to_cart(fam, T, lead=()):
    """spec tensor dict(rank, re, im) (frame components) -> complex Cartesian array"""
    r = T["rank"]
    t = (np.array(T["re"], dtype=float) + 1j * np.array(T["im"], dtype=float)).reshape((3,) * r)
    return frame_to_cart_array(fam, t, r)


def frame_to_cart_array(fam, t, r):
    if fam == "cub":
        return t
    F = FRAME[fam]
    for ax in range(t.ndim - r, t.ndim):
        t = np.moveaxis(np.tensordot(t, F, axes=([ax], [0])), -1, ax)
    return t


def cart_to_frame_array(fam, t, r):
    if fam != "cub":
        Fi = np.linalg.inv(FRAME[fam])
        for ax in range(t.ndim - r, t.ndim):
            t = np.moveaxis(np.tensordot(t, Fi, axes=([ax], [0])), -1, ax)
    return t


def from_cart(fam, arr, r):
    t = cart_to_frame_array(fam, np.asarray(arr, dtype=complex), r)
    re = rint(t.real, "tensor component (real part)")
    im = rint(t.imag, "tensor component (imaginary part)")
    return dict(rank=r, re=[int(x) for x in re.reshape(-1)], im=[int(x) for x in im.reshape(-1)])


def tens_eq(a, b):
    return a["rank"] == b["rank"] and list(a["re"]) == list(b["re"]) and list(a["im"]) == list(b["im"])


def transform_obj(t):
    """name of a predefined transform or dict(factor, conj, axes) -> real Transform"""
    ps = wb()
    if isinstance(t, str):
        return getattr(ps, "transform_" + t)
    return ps.Transform(factor=t["factor"], conj=t["conj"], transpose_axes=tuple(t["axes"]) if len(t["axes"]) else None)


def transform_json(t):
    tr = transform_obj(t)
    return dict(factor=int(tr.factor), conj=bool(tr.conj), axes=[int(a) for a in (tr.transpose_axes or ())])


def call_act(fam, sym, T, tTR, tInv):
    """transform_tensor on the specification's tensor; a rank-0 tensor is passed with one leading axis of length 1
    (as all rank-0 results of wannierberri are), the 0-dimensional form is probed separately"""
    data = to_cart(fam, T)
    if T["rank"] == 0:
        data = data.reshape((1,))
    out = sym.transform_tensor(data, T["rank"], transform_obj(tTR), transform_obj(tInv))
    return from_cart(fam, out[0] if T["rank"] == 0 else out, T["rank"])


def call_symmetrize(fam, pg, T, tTR, tInv):
    """symmetrize_tensor times the group size (integers)"""
    data = to_cart(fam, T)
    if T["rank"] == 0:
        data = data.reshape((1,))
    S = pg.symmetrize_tensor(data, transformTR=transform_obj(tTR), transformInv=transform_obj(tInv), rank=T["rank"]) * pg.size
    return from_cart(fam, S[0] if T["rank"] == 0 else S, T["rank"])


# ----------------------------------------------------------------------------------------- fast dump reader
def _pyval(txt):
    s = txt.replace("<<>>", "()").replace("<<", "(").replace(">>", ",)")
    s = re.sub(r"(\w+) \|->", r'"\1":', s).replace("[", "{").replace("]", "}")
    s = re.sub(r"\bTRUE\b", "True", s)
    s = re.sub(r"\bFALSE\b", "False", s)
    return eval(s, {"__builtins__": {}}, {})


def dump_states(st):
    import os
    p = st.get("dump_path")
    if not p or not os.path.exists(p):
        raise MachineryError(f"no state dump produced ({st.get('meta')})")
    with open(p) as f:
        text = f.read()
    os.remove(p)            # dumps of the thorough tier are large
    for part in re.split(r"(?m)^State \d+:\s*$", text)[1:]:
        d = {}
        for ch in re.split(r"(?m)^/\\ ", part):
            ch = ch.strip()
            if not ch:
                continue
            m = re.match(r"(\w+)\s*=\s*", ch)
            try:
                d[m.group(1)] = _pyval(ch[m.end():])
            except Exception as ex:  # noqa
                raise MachineryError(f"cannot read the TLC dump value of {m.group(1) if m else '?'}: {ex}: {ch[:200]}")
        yield d


# ----------------------------------------------------------------------------------------- configurations
GROUP_INV = ["GroupClosed", "GroupIdentity", "GroupInverses", "GroupSize", "GroupNoDup", "GroupFrame", "GroupLattice",
             "DictRoundTrip", "StarListsOnce", "GridUniform"]
GROUP_INV_THOROUGH = GROUP_INV + ["GenerateIsLoop", "GroupAxiomsDirect"]
TENSOR_INV = ["ActionLaw", "ActionLawGens", "ActIdentity", "SymInvariant", "SymIdempotent", "SymIsSum",
              "TransformCommutesWithRotation", "ActLinear"]


def tset(xs):
    return "{" + ", ".join(tlc.tla_value(x) for x in xs) + "}"


def main_cfg(LATS_=(), LATS1=(), MAXGEN=2, ORDERED=False, TRIPLES=(), DUPS=False, TENSOR_LATS=(), RANKS=(0, 1, 2, 3),
             COMBOS="few", NGENERIC=1, BASIS=False, MAXPAIRS=12, KSET="few", NKMAX=2, ONLYC=(), ONLYH=(), invs=(), variant="code"):
    b = tlc.tla_value
    return (f'SPECIFICATION Spec\nCONSTANTS\n  Variant = "{variant}"\n  LATS = {tset(LATS_)}\n  LATS1 = {tset(LATS1)}\n  MAXGEN = {MAXGEN}\n'
            f'  ORDERED = {b(ORDERED)}\n  TRIPLES = {tset(TRIPLES)}\n  DUPS = {b(DUPS)}\n  TENSOR_LATS = {tset(TENSOR_LATS)}\n'
            f'  RANKS = {tset(RANKS)}\n  COMBOS = "{COMBOS}"\n  NGENERIC = {NGENERIC}\n  BASIS = {b(BASIS)}\n  MAXPAIRS = {MAXPAIRS}\n'
            f'  KSET = "{KSET}"\n  NKMAX = {NKMAX}\n  ONLYC = {tset(ONLYC)}\n  ONLYH = {tset(ONLYH)}\n' + "".join(f"INVARIANT {i}\n" for i in invs) + "CHECK_DEADLOCK FALSE\n")


KPTS_FEW = [(4, (0, 0, 0)), (4, (1, 0, 0)), (4, (1, 1, 0)), (4, (1, 2, 3)), (4, (2, 2, 2)), (6, (2, 2, 0)), (6, (3, 0, 1)), (12, (1, 5, 7))]
KPTS_MORE = [(4, (2, 0, 0)), (4, (2, 2, 0)), (4, (1, 1, 1)), (4, (3, 1, 2)), (6, (2, 4, 0)), (6, (3, 3, 3)), (6, (1, 2, 3)),
             (6, (4, 2, 3)), (12, (6, 6, 1)), (12, (4, 8, 3)), (5, (1, 2, 0)), (5, (1, 1, 3))]


def run_model(module, cfg, name, workers, dump=True, timeout=3000):
    st = tlc.run_tlc(module, cfg, name, workers=workers, dump=dump, timeout=timeout)
    if st.get("timeout"):
        raise MachineryError(f"TLC timed out on {name}")
    if st.get("error") and not st.get("violation"):
        raise MachineryError(f"TLC error on {name}: {st['error'][:800]}")
    return st


# ----------------------------------------------------------------------------------------- replay of the TLC states
class Replayer:
    def __init__(self, rep, rng):
        self.rep = rep
        self.rng = rng
        self.groups = {}
        self.count = dict(group=0, group_asym=0, tensor=0, tensor_invalid_pair=0, star=0, grid=0, dict=0, products=0, act=0,
                          lead_axis=0, sizes={})
        self.maxdev = 0.0

    def group(self, lat, gens):
        key = (lat, gens)
        if key not in self.groups:
            fam, A = LATS[lat]
            as_string = zlib.crc32(repr(key).encode()) % 2 == 0
            args = [generator_arg(n, as_string) for n in gens]
            pg, raised = build_group(fam, A, args, use_real=True)
            pg2 = None
            if raised:
                pg2, _ = build_group(fam, A, args, use_real=False)
            self.groups[key] = (pg, raised, pg2)
        return self.groups[key]

    def viol(self, key, **detail):
        self.rep.violation(key, detail)

    def replay_group(self, s):
        rep = self.rep
        ps = wb()
        lat, gens = s["lat"], tuple(tuple(g) for g in s["gens"])
        fam, A = LATS[lat]
        G = [spec_elem(e) for e in s["G"]]
        out = s["out"]
        info = dict(lattice=lat, generators=["*".join(g) for g in gens])
        pg, raised, pg_recip = self.group(lat, gens)
        rep.case(("group", lat, gens), nontrivial=len(G) > 1)
        self.count["group"] += 1
        self.count["sizes"][len(G)] = self.count["sizes"].get(len(G), 0) + 1
        # lattice invariance decision: the constructor asserts it when a real lattice is given
        if raised != (not out["symm"]):
            self.viol("PointGroup.__init__:basis_symmetry_assert", **info, spec_lattice_symmetric=out["symm"], code_raised=raised)
            return
        if raised:
            self.count["group_asym"] += 1
            pg = pg_recip
        try:
            got = [elem_of(fam, x) for x in pg.symmetries]
        except NonIntegral as ex:
            self.viol("PointGroup.symmetries:non_integral", **info, detail=str(ex))
            return
        if got != G:
            self.viol("PointGroup.symmetries", **info, expected=[elem_json(e) for e in G], got=[elem_json(e) for e in got])
            return
        for basis, name, exp in ((pg.real_lattice, "real", out["symmreal"]), (pg.recip_lattice, "recip", out["symm"])):
            r = bool(pg.check_basis_symmetry(basis))
            if r != exp:
                self.viol("check_basis_symmetry:" + name, **info, expected=exp, got=r)
        # symmetric_grid
        nkmax = round(len(out["grids"]) ** (1 / 3))
        for q, nk in enumerate(itertools.product(range(1, nkmax + 1), repeat=3)):
            r = bool(pg.symmetric_grid(list(nk)))
            self.count["grid"] += 1
            if r != out["grids"][q]:
                self.viol("symmetric_grid", **info, nk=nk, expected=out["grids"][q], got=r)
        # pairwise products (all pairs up to 24 elements, seeded sample of 600 pairs beyond)
        n = len(G)
        pairs = list(itertools.product(range(n), repeat=2))
        if n > 24:
            pairs = random.Random(zlib.crc32(repr((lat, gens)).encode()) + seed()).sample(pairs, 600)
        for a, b in pairs:
            p = elem_of(fam, pg.symmetries[a] * pg.symmetries[b])
            self.count["products"] += 1
            if p != G[out["tab"][a][b] - 1]:
                self.viol("PointSymmetry.__mul__", **info, a=elem_json(G[a]), b=elem_json(G[b]), expected=elem_json(G[out["tab"][a][b] - 1]), got=elem_json(p))
                break
        if not out["symm"]:
            return
        B = pg.recip_lattice
        try:
            W = [reduced_of(x, B) for x in pg.symmetries]
        except NonIntegral as ex:
            self.viol("transform_reduced_vector:non_integral", **info, detail=str(ex))
            return
        expW = [tuple(tuple(r) for r in w) for w in out["W"]]
        if W != expW:
            self.viol("transform_reduced_vector:matrix", **info, expected=expW, got=W)
        # stars
        kpts = KPTS_FEW + (KPTS_MORE if len(out["stars"]) > len(KPTS_FEW) else [])
        for q, (N, k) in enumerate(kpts):
            st = pg.star(np.array(k, dtype=float) / N)
            self.count["star"] += 1
            try:
                gotst = [tuple(int(x) for x in v) for v in rint(st * N, "star (numerators)")]
            except NonIntegral as ex:
                self.viol("star:non_integral", **info, k=k, N=N, detail=str(ex))
                continue
            expst = [tuple(v) for v in out["stars"][q]]
            if gotst != expst:
                self.viol("star", **info, k=k, N=N, expected=expst, got=gotst)
        # as_dict / PointGroup(dictionary=...)
        with warnings.catch_warnings():
            warnings.simplefilter("ignore")
            d = pg.as_dict()
            try:
                pgd = ps.PointGroup(dictionary=d)
                gotd = [elem_of(fam, x) for x in pgd.symmetries]
            except Exception as ex:  # noqa
                gotd = f"{type(ex).__name__}: {ex}"
        self.count["dict"] += 1
        if gotd != [spec_elem(e) for e in out["dict"]]:
            self.viol("PointGroup.as_dict:round_trip", **info, expected=[elem_json(spec_elem(e)) for e in out["dict"]],
                      got=gotd if isinstance(gotd, str) else [elem_json(e) for e in gotd])
        elif not np.allclose(pgd.real_lattice, pg.real_lattice, rtol=0, atol=1e-12):
            self.viol("PointGroup.as_dict:lattice", **info, expected=pg.real_lattice.tolist(), got=pgd.real_lattice.tolist())
        if len(G) >= 8 and len(gens) == 2 and self.count.setdefault("group_samples", 0) < 2:
            self.count["group_samples"] += 1
            rep.sample(dict(fn="PointGroup", **info, size=len(G), elements_3_to_5=[elem_json(e) for e in G[2:5]],
                            star_of=dict(N=kpts[3][0], k=kpts[3][1]), star=[list(v) for v in out["stars"][3]]))

    def replay_tensor(self, s):
        rep = self.rep
        lat, gens = s["lat"], tuple(tuple(g) for g in s["gens"])
        fam, A = LATS[lat]
        pg, raised, _ = self.group(lat, gens)
        if pg is None:
            raise MachineryError("tensor state on a lattice that is not invariant")
        inp, out = s["inp"], s["out"]
        T = dict(rank=inp["rank"], re=list(inp["T"]["re"]), im=list(inp["T"]["im"]))
        tTR, tInv = inp["tTR"], inp["tInv"]
        info = dict(lattice=lat, generators=["*".join(g) for g in gens], rank=T["rank"], transformTR=tTR, transformInv=tInv, T=T)
        key = ("tensor", lat, gens, T["rank"], tTR, tInv, tuple(T["re"]), tuple(T["im"]))
        rep.case(key, nontrivial=T["rank"] > 0 or len(pg.symmetries) > 1)
        self.count["tensor"] += 1
        valid = not ({tTR, tInv} in ({"odd_trans_021", "odd_trans_102"}, {"odd_trans_102", "trans"}))
        if not valid:
            self.count["tensor_invalid_pair"] += 1
        try:
            data0 = to_cart(fam, T).reshape((1,) + (3,) * T["rank"])       # one leading axis (see call_act)
            oTR, oInv = transform_obj(tTR), transform_obj(tInv)
            for n, sym in enumerate(pg.symmetries):
                got = from_cart(fam, sym.transform_tensor(data0, T["rank"], oTR, oInv)[0], T["rank"])
                self.count["act"] += 1
                exp = dict(rank=T["rank"], re=list(out["acted"][n]["re"]), im=list(out["acted"][n]["im"]))
                if not tens_eq(got, exp):
                    self.viol("transform_tensor", **info, element=elem_json(elem_of(fam, sym)), expected=exp, got=got)
                    return
            # leading (spectator) axes: rank < dim
            n = zlib.crc32(repr(key).encode()) % len(pg.symmetries)
            data = np.stack([to_cart(fam, T), 3 * to_cart(fam, T)])      # shape (2, 3, ..., 3), rank < dim
            o = pg.symmetries[n].transform_tensor(data, T["rank"], transform_obj(tTR), transform_obj(tInv))
            exp = dict(rank=T["rank"], re=list(out["acted"][n]["re"]), im=list(out["acted"][n]["im"]))
            self.count["lead_axis"] += 1
            if not (tens_eq(from_cart(fam, o[0], T["rank"]), exp) and np.allclose(o[1], 3 * o[0], rtol=0, atol=1e-9)):
                self.viol("transform_tensor:leading_axes", **info, element=elem_json(elem_of(fam, pg.symmetries[n])), expected=exp,
                          got=from_cart(fam, o[0], T["rank"]))
            gotS = call_symmetrize(fam, pg, T, tTR, tInv)
            expS = dict(rank=T["rank"], re=list(out["sym"]["re"]), im=list(out["sym"]["im"]))
            if not tens_eq(gotS, expS):
                self.viol("symmetrize_tensor", **info, expected_times_size=expS, got_times_size=gotS)
        except NonIntegral as ex:
            self.viol("transform_tensor:non_integral", **info, detail=str(ex))
        if len(pg.symmetries) >= 8 and T["rank"] == 2 and self.count.setdefault("tensor_samples", 0) < 2:
            self.count["tensor_samples"] += 1
            rep.sample(dict(fn="symmetrize_tensor", **{k: v for k, v in info.items() if k != "T"}, T_re=T["re"][:9], sym_times_size_re=list(out["sym"]["re"])[:9]))


# ----------------------------------------------------------------------------------------- transforms
EXTRA_TRANSFORMS = dict(cyc_120=dict(factor=1, conj=False, axes=(1, 2, 0)), cyc_201=dict(factor=-1, conj=False, axes=(2, 0, 1)),
                        rev_210=dict(factor=1, conj=True, axes=(2, 1, 0)), conj=dict(factor=1, conj=True, axes=()),
                        conj_trans=dict(factor=-1, conj=True, axes=(1, 0)))


def generic_tensor(r, v):
    n = 3 ** r
    return dict(rank=r, re=[((p * p * (v + 1) + 3 * p + v) % 7) - 3 for p in range(1, n + 1)],
                im=[((5 * p + v * p * p + 1) % 5) - 2 for p in range(1, n + 1)])


def any_transform(name):
    return name if name in TRANSFORM_NAMES else EXTRA_TRANSFORMS[name]


def apply_transform(t, T):
    arr = np.array(to_cart("cub", T)).reshape((1,) + (3,) * T["rank"])      # one leading axis (0-dimensional arrays: see rank0_scalar)
    transform_obj(t)(arr)
    return from_cart("cub", arr[0], T["rank"])


def replay_transforms(rep, st):
    ps = wb()
    n = 0
    nprod = 0
    for s in dump_states(st):
        if s["out"] == ():
            continue
        n += 1
        r, t, u, out = s["rank"], s["t"], s["u"], s["out"]
        rep.case(("transform", r, t, u))
        T0 = generic_tensor(r, 1)
        info = dict(rank=r, t=t, u=u)
        g1 = apply_transform(any_transform(t), T0)
        e1 = dict(rank=r, re=list(out["t_T"]["re"]), im=list(out["t_T"]["im"]))
        if not tens_eq(g1, e1):
            rep.violation("Transform.__call__", dict(info, T=T0, expected=e1, got=g1))
            continue
        g2 = apply_transform(any_transform(u), g1)
        e2 = dict(rank=r, re=list(out["u_t_T"]["re"]), im=list(out["u_t_T"]["im"]))
        if not tens_eq(g2, e2):
            rep.violation("Transform.__call__:composition", dict(info, T=T0, expected=e2, got=g2))
        # involution / commutation as decided by the specification, observed on the real objects: the positive direction on
        # the generic tensor (exact equality required), the negative one on a tensor whose components are pairwise
        # distinct in absolute value (a signed/conjugating permutation fixes it only if it is the identity map)
        D = dict(rank=r, re=list(range(1, 3 ** r + 1)), im=list(range(101, 3 ** r + 101)))
        tt, uu = any_transform(t), any_transform(u)
        if out["involution"] and not tens_eq(apply_transform(tt, g1), T0):
            rep.violation("Transform:involution", dict(info, spec_says_involution=True, T=T0, t_t_T=apply_transform(tt, g1)))
        if not out["involution"] and tens_eq(apply_transform(tt, apply_transform(tt, D)), D):
            rep.violation("Transform:involution", dict(info, spec_says_involution=False, T=D))
        ab_, ba_ = apply_transform(tt, apply_transform(uu, D)), apply_transform(uu, apply_transform(tt, D))
        if out["commute"] != tens_eq(ab_, ba_):
            rep.violation("Transform:commute", dict(info, spec_says_commute=out["commute"], T=D, t_u_T=ab_, u_t_T=ba_))
        # TransformProduct
        err = None
        try:
            tp = ps.TransformProduct([transform_obj(any_transform(t)), transform_obj(any_transform(u))])
        except (ValueError, NotImplementedError) as ex:
            err = type(ex).__name__
        if (err is None) != out["product_defined"]:
            rep.violation("TransformProduct:defined", dict(info, spec_defined=out["product_defined"], code_error=err))
        elif err is None:
            nprod += 1
            got = dict(factor=int(tp.factor), conj=bool(tp.conj), axes=tuple(tp.transpose_axes or ()))
            exp = dict(factor=out["product"]["factor"], conj=out["product"]["conj"], axes=tuple(out["product"]["axes"]))
            if got != exp:
                rep.violation("TransformProduct", dict(info, expected=exp, got=got))
            # the product rule on the real objects: tp(A x B) = t(A) x u(B)
            for ra in range(r + 1):
                Aa, Bb = generic_tensor(ra, 1), generic_tensor(r - ra, 2)
                x = np.array(to_cart("cub", Aa)).reshape((1,) + (3,) * ra)
                y = np.array(to_cart("cub", Bb)).reshape((1,) + (3,) * (r - ra))
                ab = np.multiply.outer(x[0], y[0])[None]
                tp(ab)
                transform_obj(any_transform(t))(x)
                transform_obj(any_transform(u))(y)
                if not np.array_equal(ab[0], np.multiply.outer(x[0], y[0])):
                    rep.violation("TransformProduct:product_rule", dict(info, rank_A=ra, rank_B=r - ra))
    if 2 * n != st["distinct"] or nprod == 0:
        raise MachineryError(f"transform states: dump {n}, TLC {st['distinct']}, products {nprod}")
    return n


# ----------------------------------------------------------------------------------------- exact helpers for the random records
def _mm(a, b):
    return tuple(tuple(sum(a[i][k] * b[k][j] for k in range(3)) for j in range(3)) for i in range(3))


def _det(a):
    return (a[0][0] * (a[1][1] * a[2][2] - a[1][2] * a[2][1]) - a[0][1] * (a[1][0] * a[2][2] - a[1][2] * a[2][0])
            + a[0][2] * (a[1][0] * a[2][1] - a[1][1] * a[2][0]))


def holohedry(fam):
    """all improper-or-proper integer frame matrices of the holohedry (O_h: 48, D_6h: 24), by closure (harness-side helper
    used only to draw random inputs)"""
    neg = lambda R: tuple(tuple(-x for x in r) for r in R)  # noqa
    if fam == "cub":
        gen = [((0, -1, 0), (1, 0, 0), (0, 0, 1)), ((0, 0, 1), (1, 0, 0), (0, 1, 0)), neg(((1, 0, 0), (0, 1, 0), (0, 0, 1)))]
    else:
        gen = [((0, -1, 0), (1, 1, 0), (0, 0, 1)), ((1, 0, 0), (-1, -1, 0), (0, 0, -1)), neg(((1, 0, 0), (0, 1, 0), (0, 0, 1)))]
    L = list(gen)
    grew = True
    while grew:
        grew = False
        for a in list(L):
            for b in list(L):
                c = _mm(a, b)
                if c not in L:
                    L.append(c)
                    grew = True
    return L


def predicted_size(mats_tr):
    """size of the group generated by improper matrices with TR flags (harness-side, to keep the TLC cost bounded)"""
    L = list(dict.fromkeys(mats_tr))
    grew = True
    while grew:
        grew = False
        for a in list(L):
            for b in list(L):
                c = (_mm(a[0], b[0]), a[1] != b[1])
                if c not in L:
                    L.append(c)
                    grew = True
                    if len(L) > 96:
                        return len(L)
    return len(L)


def random_lattice(rng, fam):
    r = rng.random()
    names = [k for k, v in LATS.items() if v[0] == fam]
    if r < 0.7:
        return LATS[rng.choice(names)][1]
    while True:
        A = [[rng.randint(-2, 2) for _ in range(3)] for _ in range(3)]
        if 1 <= _det(A) <= 4:
            return A


def make_records(rep, rng, nrec):
    ps = wb()
    recs = []
    hol = {f: holohedry(f) for f in ("cub", "hex")}
    if len(hol["cub"]) != 48 or len(hol["hex"]) != 24:
        raise MachineryError("holohedry helper wrong")
    classes = {}
    tries = 0
    while len(recs) < nrec and tries < 50 * nrec:
        tries += 1
        fam = rng.choice(["cub", "cub", "hex"])
        A = random_lattice(rng, fam)
        ng = rng.choice([0, 1, 1, 2, 2, 2, 3])
        gens = [(rng.choice(hol[fam]), rng.random() < 0.35) for _ in range(ng)]
        size = predicted_size(gens) if gens else 1
        if size > 24 and rng.random() < (0.9 if size <= 48 else 0.97):
            continue
        with warnings.catch_warnings():
            warnings.simplefilter("ignore")
            objs = [ps.PointSymmetry(cart_from_frame(fam, R), TR) for R, TR in gens]
        pg, raised = build_group(fam, A, objs, use_real=True)
        pgr, _ = build_group(fam, A, objs, use_real=False)
        latj = dict(fam=fam, A=[list(r) for r in A])
        genj = [dict(R=[list(r) for r in R], TR=bool(TR)) for R, TR in gens]
        try:
            Gj = [elem_json(elem_of(fam, s)) for s in pgr.symmetries]
            symm = bool(pgr.check_basis_symmetry(pgr.recip_lattice))
            symmreal = bool(pgr.check_basis_symmetry(pgr.real_lattice))
            if raised != (not (symm and symmreal)):
                rep.violation("PointGroup.__init__:basis_symmetry_assert", dict(lattice=latj, generators=genj, code_raised=raised,
                                                                                 check_basis_symmetry=[symmreal, symm]))
            W = [[list(r) for r in reduced_of(s, pgr.recip_lattice)] for s in pgr.symmetries] if symm else []
        except NonIntegral as ex:
            rep.violation("PointGroup.symmetries:non_integral", dict(lattice=latj, generators=genj, detail=str(ex)))
            continue
        kind = rng.choice(["group", "group", "mul", "star", "star", "act", "actlaw", "actlaw", "symm", "symm", "grid", "dict", "tprod"])
        G = pgr.symmetries
        rank = rng.choice([0, 1, 1, 2, 2, 3, 3])
        avail = [t for t in TRANSFORM_NAMES if len(transform_json(t)["axes"]) <= rank]
        tTR, tInv = rng.choice(avail), rng.choice(avail)
        if rng.random() < 0.15 and rank >= 2:
            tTR = dict(factor=rng.choice([1, -1]), conj=rng.random() < 0.5, axes=rng.choice([p for p in itertools.permutations(range(rng.choice([2, rank])))]))
        T = dict(rank=rank, re=[rng.randint(-20, 20) for _ in range(3 ** rank)], im=[rng.randint(-9, 9) if rng.random() < 0.6 else 0 for _ in range(3 ** rank)])
        tj = dict(tTR=transform_json(tTR), tInv=transform_json(tInv))
        try:
            if kind == "group":
                if size > 24 and sum(1 for r in recs if r["fn"] == "group" and len(r["out"]) > 24) >= max(2, nrec // 100):
                    continue
                rec = dict(fn="group", lat=latj, gens=genj, out=Gj, W=W, symm=symm, symmreal=symmreal)
            elif kind == "mul":
                a, b = rng.choice(G), rng.choice(G)
                rec = dict(fn="mul", a=elem_json(elem_of(fam, a)), b=elem_json(elem_of(fam, b)), out=elem_json(elem_of(fam, a * b)))
            elif kind == "star":
                if not symm:
                    continue
                N = rng.choice([2, 3, 4, 5, 6, 7, 8, 12])
                k = [rng.randint(-N, 2 * N) for _ in range(3)]
                st = pgr.star(np.array(k, dtype=float) / N)
                rec = dict(fn="star", lat=latj, G=Gj, k=k, N=N, out=[[int(x) for x in v] for v in rint(st * N, "star")])
            elif kind == "act":
                g = rng.choice(G)
                rec = dict(fn="act", g=elem_json(elem_of(fam, g)), T=T, out=call_act(fam, g, T, tTR, tInv), **tj)
            elif kind == "actlaw":
                g, h = rng.choice(G), rng.choice(G)
                gh = g * h
                d0 = to_cart(fam, T).reshape((1,) + (3,) * rank)
                hT = h.transform_tensor(d0, rank, transform_obj(tTR), transform_obj(tInv))
                ghT = g.transform_tensor(hT, rank, transform_obj(tTR), transform_obj(tInv))       # the code's own composition
                rec = dict(fn="actlaw", g=elem_json(elem_of(fam, g)), h=elem_json(elem_of(fam, h)), gh=elem_json(elem_of(fam, gh)), T=T,
                           out_g_h=from_cart(fam, ghT[0], rank), out_gh=call_act(fam, gh, T, tTR, tInv), **tj)
            elif kind == "symm":
                if len(G) > 24:
                    continue
                Sj = call_symmetrize(fam, pgr, T, tTR, tInv)
                some = rng.sample(G, min(3, len(G)))
                rec = dict(fn="symm", G=Gj, T=T, out=Sj, out2=call_symmetrize(fam, pgr, Sj, tTR, tInv), acted=[call_act(fam, g, Sj, tTR, tInv) for g in some], **tj)
            elif kind == "grid":
                nk = [rng.randint(1, 6) for _ in range(3)]
                rec = dict(fn="grid", lat=latj, G=Gj, nk=nk, out=bool(pgr.symmetric_grid(nk)))
            elif kind == "dict":
                if not symm or pg is None:
                    continue
                with warnings.catch_warnings():
                    warnings.simplefilter("ignore")
                    d = pg.as_dict()
                    pgd = ps.PointGroup(dictionary=d)
                dj = [dict(R=[[int(x) for x in r] for r in frame_from_cart(fam, d[f"symm{n}_R"])], TR=bool(d[f"symm{n}_TR"])) for n in range(d["nsym"])]
                rec = dict(fn="dict", G=Gj, dict=dj, out=[elem_json(elem_of(fam, s)) for s in pgd.symmetries])
            else:
                ts = [rng.choice(TRANSFORM_NAMES + list(EXTRA_TRANSFORMS)) for _ in range(rng.choice([1, 2, 2, 3]))]
                try:
                    tp = ps.TransformProduct([transform_obj(any_transform(t)) for t in ts])
                    rec = dict(fn="tprod", ts=[transform_json(any_transform(t)) for t in ts], defined=True,
                               out=dict(factor=int(tp.factor), conj=bool(tp.conj), axes=[int(a) for a in (tp.transpose_axes or ())]))
                except (ValueError, NotImplementedError):
                    rec = dict(fn="tprod", ts=[transform_json(any_transform(t)) for t in ts], defined=False, out=dict(factor=1, conj=False, axes=[]))
        except NonIntegral as ex:
            rep.violation(f"{kind}:non_integral", dict(lattice=latj, generators=genj, detail=str(ex)))
            continue
        recs.append(rec)
        classes[kind] = classes.get(kind, 0) + 1
        rep.case(("rec", kind, len(recs), repr(genj), repr(latj)))
    return recs, classes


REC_CFG = 'SPECIFICATION RecSpec\nCONSTANT Variant = "code"\nINVARIANT Report\nCHECK_DEADLOCK FALSE\n'
REC_SITE = dict(group="PointGroup.__init__", mul="PointSymmetry.__mul__", star="PointGroup.star", act="transform_tensor",
                actlaw="transform_tensor:action_law", symm="symmetrize_tensor", grid="symmetric_grid", dict="PointGroup.as_dict",
                tprod="TransformProduct")


# ----------------------------------------------------------------------------------------- the check
def check(pid, tier):
    rep = Report(pid, tier, "model_checking")
    thorough = tier == "thorough"
    rng = random.Random(seed() * 7919 + 9)
    ps = wb()
    W = 16
    rep.rule("TLC enumerates every list of <= 2 (quick, from 12 operations per family) / <= 3 (thorough) generators from a catalogue of 19 cubic-type and 17 hexagonal-type "
             "operations (incl. time-reversed ones; thorough: 3-generator lists from 15/13 of them) on the lattices sc, hex (all lists) and "
             "tet, ort, fcc, bcc, ohex (lists of <= 1 quick, <= 2 thorough, including operations the lattice is not invariant under), "
             "for each group 8/20 k-points, all grids nk<=2/3, "
             "and for sc/hex groups tensors of rank 0..3 with pairs of the six predefined Transforms; a case = one TLC state replayed on "
             "the real code (exact comparison) or one recorded random call validated by TLC; distinct by input")
    rep.assume("integer frame matrices and tensor components: float results of the code are rounded after verifying integrality to 1e-7")
    rep.assume("PointSymmetry.__eq__ (tolerance 1e-12) is modelled as exact equality; rounding errors of products of the catalogue operations stay below it")
    rep.assume("transform_tensor is a group action only if transformTR and transformInv are commuting involutions (ValidPair); the two "
               "non-commuting pairs of predefined transforms are replayed but excluded from the action-law clauses")

    import time
    t_start = time.time()
    timing = {}

    def lap(name):
        timing[name] = round(time.time() - t_start, 1)
    pool = ThreadPoolExecutor(max_workers=6)
    # -------- side models, started in the background
    loopmax = 16 if thorough else 6
    loop_cfg = (f'SPECIFICATION Spec\nCONSTANTS\n  Variant = "code"\n  FAMS = {{"cub", "hex"}}\n  MAXGEN = 2\n  LOOPMAX = {loopmax}\n'
                "CONSTRAINT Bounded\nINVARIANT PassIsOperator\nINVARIANT DoneIsGenerate\nINVARIANT AppendOnly\nINVARIANT DistinctTail\nCHECK_DEADLOCK FALSE\n")
    f_loop = pool.submit(run_model, "MC_PointGroupLoop.tla", loop_cfg, "c09_loop", 3, False)
    tr_inv = ["TransformsOK", "InvolutionCharacterised", "CommuteCharacterised", "PredefinedInvolutions", "PredefinedPairs", "ProductRule", "ProductDefinedIff"]
    tr_cfg = 'SPECIFICATION Spec\nCONSTANTS\n  Variant = "code"\n  RANKS = {0, 1, 2, 3}\n' + "".join(f"INVARIANT {i}\n" for i in tr_inv) + "CHECK_DEADLOCK FALSE\n"
    f_tr = pool.submit(run_model, "MC_PointGroupTransforms.tla", tr_cfg, "c09_transforms", 2, True)
    # sensitivity self-tests: plausible wrong variants must be rejected by TLC
    sens = {
        "tr_or": (main_cfg(LATS_=["sc"], MAXGEN=1, ONLYC=[3, 15], invs=GROUP_INV, variant="tr_or"), {"GroupIdentity", "GroupInverses", "GroupClosed"}),
        "star_exact": (main_cfg(LATS_=["sc"], MAXGEN=1, ONLYC=[2, 12], invs=["StarListsOnce"], variant="star_exact"), {"StarListsOnce"}),
        "invalid_pair": (main_cfg(LATS_=["sc"], MAXGEN=2, ONLYC=[2, 3], TENSOR_LATS=["sc"], RANKS=[3], COMBOS="invalid", invs=["ActionLawUnconditional"]), {"ActionLawUnconditional"}),
        "dup_generators": (main_cfg(LATS_=["sc"], DUPS=True, invs=["GroupClosed", "GroupIdentity", "GroupInverses", "SymIdempotent", "GroupNoDup"]), {"SymIdempotent", "GroupNoDup"}),
    }
    f_sens = {k: pool.submit(run_model, "MC_PointGroupAlg.tla", v[0], "c09_sens_" + k, 2, False) for k, v in sens.items()}

    # -------- main model: groups
    if thorough:
        gcfg = main_cfg(LATS_=["sc", "hex", "tet", "ort", "fcc", "bcc", "ohex"], MAXGEN=2, ORDERED=True, KSET="more", NKMAX=3, invs=GROUP_INV_THOROUGH)
        g3cfg = main_cfg(LATS_=["sc", "hex"], MAXGEN=3, TRIPLES=list(range(1, 20)), KSET="few", NKMAX=2, invs=GROUP_INV,
                         ONLYC=[2, 3, 4, 6, 7, 9, 10, 12, 13, 14, 15, 16, 17, 18, 19], ONLYH=[2, 3, 4, 6, 7, 9, 10, 11, 12, 13, 14, 15, 16])
        tcfg = main_cfg(LATS_=["sc", "hex"], MAXGEN=2, TENSOR_LATS=["sc", "hex"], COMBOS="all", NGENERIC=1, MAXPAIRS=24, invs=TENSOR_INV)
        bcfg = main_cfg(LATS_=["sc", "hex"], MAXGEN=1, TENSOR_LATS=["sc", "hex"], COMBOS="few", NGENERIC=1, BASIS=True, MAXPAIRS=48, invs=TENSOR_INV)
    else:
        # quick: 12 generators per family (My, C2y, C4y, Identity, ... are left to the thorough tier)
        gcfg = main_cfg(LATS_=["sc", "hex"], LATS1=["tet", "ort", "fcc", "bcc", "ohex"], MAXGEN=2, invs=GROUP_INV,
                        ONLYC=[2, 3, 4, 6, 7, 9, 10, 12, 13, 15, 17, 19], ONLYH=[2, 3, 4, 6, 7, 9, 10, 11, 12, 14, 15, 16])
        g3cfg = None
        tcfg = main_cfg(LATS_=["sc", "hex"], MAXGEN=2, TENSOR_LATS=["sc", "hex"], COMBOS="few", NGENERIC=1, MAXPAIRS=12, invs=TENSOR_INV,
                        ONLYC=[2, 3, 7, 12, 13, 15], ONLYH=[2, 3, 4, 7, 11, 14])
        bcfg = None
    f_t = pool.submit(run_model, "MC_PointGroupAlg.tla", tcfg, "c09_tensors", 8 if not thorough else W, True)
    st_g = run_model("MC_PointGroupAlg.tla", gcfg, "c09_groups", 6 if not thorough else W, True)
    lap("tlc_groups_done")
    rp = Replayer(rep, rng)
    ftable.spec_violation(rep, st_g, "c09_groups")
    tlc.check_not_vacuous(st_g, ["Pass"], "c09_groups")
    rep.add_tlc("c09_groups", st_g)
    ng = 0
    for s in dump_states(st_g):
        if s["pc"] == "group":
            ng += 1
            rp.replay_group(s)
    if ng == 0 or rp.count["group_asym"] == 0 or rp.count["star"] == 0 or max(rp.count["sizes"]) < 48:
        raise MachineryError(f"vacuous group replay: {rp.count}")
    if g3cfg:
        st3 = run_model("MC_PointGroupAlg.tla", g3cfg, "c09_groups3", W, True)
        ftable.spec_violation(rep, st3, "c09_groups3")
        rep.add_tlc("c09_groups3", st3)
        for s in dump_states(st3):
            if s["pc"] == "group" and len(s["gens"]) == 3:
                rp.replay_group(s)
        if max(rp.count["sizes"]) < 96:
            raise MachineryError("no group of 96 elements among the 3-generator lists")

    # -------- main model: tensors
    lap("groups_replayed")
    st_t = f_t.result()
    lap("tlc_tensors_done")
    ftable.spec_violation(rep, st_t, "c09_tensors")
    tlc.check_not_vacuous(st_t, ["Pass", "PickTensor"], "c09_tensors")
    rep.add_tlc("c09_tensors", st_t)
    for s in dump_states(st_t):
        if s["pc"] == "tensor":
            rp.replay_tensor(s)
    if bcfg:
        st_b = run_model("MC_PointGroupAlg.tla", bcfg, "c09_basis_tensors", W, True)
        ftable.spec_violation(rep, st_b, "c09_basis_tensors")
        rep.add_tlc("c09_basis_tensors", st_b)
        for s in dump_states(st_b):
            if s["pc"] == "tensor" and zlib.crc32(repr((s["gens"], s["inp"])).encode()) % 10 == 0:
                rp.replay_tensor(s)
    if rp.count["tensor"] == 0 or rp.count["tensor_invalid_pair"] == 0 or rp.count["act"] < 100:
        raise MachineryError(f"vacuous tensor replay: {rp.count}")
    rep.part("replay", **{k: v for k, v in rp.count.items() if k != "sizes"}, group_sizes={str(k): v for k, v in sorted(rp.count["sizes"].items())})

    # -------- side models
    lap("tensors_replayed")
    st_l = f_loop.result()
    ftable.spec_violation(rep, st_l, "c09_loop")
    tlc.check_not_vacuous(st_l, ["While", "ForS1End", "ForS2End", "Body", "Check"], "c09_loop")
    rep.add_tlc("c09_loop", st_l)
    st_tr = f_tr.result()
    ftable.spec_violation(rep, st_tr, "c09_transforms")
    rep.add_tlc("c09_transforms", st_tr)
    replay_transforms(rep, st_tr)
    for k, f in f_sens.items():
        s0 = f.result()
        if not s0.get("violation") or s0["violation"][1] not in sens[k][1]:
            raise MachineryError(f"sensitivity self-test failed: variant {k} should violate one of {sorted(sens[k][1])}, TLC says {s0.get('violation')}")
        rep.part("variant_" + k, violated=s0["violation"][1])
    pool.shutdown()
    lap("side_models_done")

    # -------- inputs outside the exhaustive model, decided on the real code
    # (a) a generator list that names the same operation twice: the specification of the loop keeps both copies
    #     (variant_dup_generators: TLC shows the list then violates SymIdempotent / GroupNoDup)
    with warnings.catch_warnings():
        warnings.simplefilter("ignore")
        pgd = ps.PointGroup(["C2x", "Inversion*Mx"], real_lattice=np.eye(3))
    T1 = dict(rank=1, re=[1, 2, 3], im=[0, 0, 0])
    S1 = pgd.symmetrize_tensor(to_cart("cub", T1), transformTR=ps.transform_ident, transformInv=ps.transform_ident)
    S2 = pgd.symmetrize_tensor(S1, transformTR=ps.transform_ident, transformInv=ps.transform_ident)
    rep.case(("duplicate_generators",))
    if pgd.size != 2 or not np.allclose(S1, S2, atol=1e-12):
        rep.violation("PointGroup.__init__:duplicate_generators",
                      dict(generators=["C2x", "Inversion*Mx"], note="both generators are the same operation C2x; the group is {C2x, E}",
                           expected_size=2, got_size=pgd.size, T=[1, 2, 3], symmetrized=S1.real.tolist(), symmetrized_twice=S2.real.tolist(),
                           tlc_counterexample=f"MC_PointGroupAlg with DUPS=TRUE violates {rep.parts.get('variant_dup_generators', {}).get('violated')}"))
    # (b) a rank-0 tensor given as a 0-dimensional array (what symmetrize_tensor / gen_symmetric_tensor pass for rank 0)
    rep.case(("rank0_scalar",))
    try:
        o = ps.TimeReversal.transform_tensor(np.array(5.0), 0, ps.transform_odd, ps.transform_ident)
        if abs(complex(o) + 5.0) > 1e-12:
            rep.violation("transform_tensor:rank0_scalar", dict(data=5.0, element="TimeReversal", transformTR="odd", expected=-5.0, got=complex(o).real))
    except Exception as ex:  # noqa
        rep.violation("transform_tensor:rank0_scalar",
                      dict(call="TimeReversal.transform_tensor(np.array(5.0), 0, transform_odd, transform_ident)", expected=-5.0,
                           got=f"{type(ex).__name__}: {ex}", spec="Act(TimeReversal, [rank |-> 0, re |-> <<5>>, im |-> <<0>>], odd, ident).re = <<-5>>"))

    # -------- code -> spec : recorded random calls validated by TLC
    recs, classes = make_records(rep, rng, 1600 if thorough else 240)
    lap("records_made")
    missing = [k for k in REC_SITE if classes.get(k, 0) == 0]
    if missing:
        raise MachineryError(f"record classes empty: {missing}")
    # binding self-test: corrupted records must be rejected
    corrupt = []
    r = copy.deepcopy(next(x for x in recs if x["fn"] == "group" and len(x["out"]) >= 4))
    r["out"][1], r["out"][2] = r["out"][2], r["out"][1]
    corrupt.append((r, "equals_spec"))
    r = copy.deepcopy(next(x for x in recs if x["fn"] == "mul"))
    r["out"]["tr"] = not r["out"]["tr"]
    corrupt.append((r, "equals_spec"))
    r = copy.deepcopy(next(x for x in recs if x["fn"] == "star" and len(x["out"]) >= 2))
    r["out"].append([r["out"][0][0] + r["N"], r["out"][0][1], r["out"][0][2]])
    corrupt.append((r, "each_image_once"))
    r = copy.deepcopy(next(x for x in recs if x["fn"] == "act" and x["T"]["rank"] >= 1 and any(x["out"]["re"])))
    j = next(k for k, v in enumerate(r["out"]["re"]) if v)
    r["out"]["re"][j] = -r["out"]["re"][j]
    corrupt.append((r, "equals_spec"))
    nchunk = 8 if thorough else 6
    bounds = [round(k * len(recs) / nchunk) for k in range(nchunk + 1)]
    with ThreadPoolExecutor(max_workers=nchunk + 1) as vp:       # validate_records runs TLC with one worker: several chunks at once
        futs = [vp.submit(ftable.validate_records, "PointGroupAlgRec.tla", REC_CFG, recs[bounds[k]:bounds[k + 1]], f"c09_{k}") for k in range(nchunk)]
        f_self = vp.submit(ftable.validate_records, "PointGroupAlgRec.tla", REC_CFG, [c[0] for c in corrupt], "c09_selftest")
        parts = [f.result() for f in futs]
        _, b2 = f_self.result()
    bad = {}
    stv = dict(distinct=0, generated=0, wall_s=0.0, mode="record-validation")
    for k, (stk, badk) in enumerate(parts):
        for key in ("distinct", "generated", "wall_s"):
            stv[key] += stk[key]
        bad.update({bounds[k] + i: c for i, c in badk.items()})
    rep.add_tlc("c09_records", stv)
    rep.add_traces(len(recs))
    rep.part("records", **classes)
    for i, clauses in bad.items():
        r = recs[i]
        rep.violation(REC_SITE[r["fn"]] + ":recorded", dict(record=r, failing_clauses=clauses))
    rep.sample(next(x for x in recs if x["fn"] == "actlaw" and x["T"]["rank"] == 1))
    for n, (_, clause) in enumerate(corrupt):
        if clause not in b2.get(n, []):
            raise MachineryError(f"binding self-test failed: corrupted {corrupt[n][0]['fn']} record accepted (clauses {b2.get(n)})")
    lap("records_validated")
    rep.part("timing_s", **timing, tlc_wall={k: v.get("wall_s") for k, v in rep.parts.items() if isinstance(v, dict) and "wall_s" in v})
    rep.part("binding_selftest", corrupted_records_rejected={corrupt[n][0]["fn"]: b2[n] for n in range(len(corrupt))})
    return rep.finish()
