"""C09: point-group operations form a group acting on tensors.

spec  : PointGroupAlg.tla (PointSymmetry / PointGroup / Transform transcribed on exact integer matrices and tensors)
        MC_PointGroupAlg        every generator list of a catalogue (<= 2 generators quick, <= 3 thorough; lists that name an
                                operation twice included) on cubic-type (sc, tet, ort, fcc, bcc) and hexagonal-type (hex, ohex)
                                lattices: closure loop pass by pass, group axioms, lattice invariance, stars, symmetric_grid,
                                dict round trip; tensor action, action law, symmetrisation for ranks 0..3 (4: thorough)
        MC_PointGroupLoop       the closure loop statement by statement against the operators
        MC_PointGroupTransforms Transform / TransformProduct: involutions, commuting pairs, product rule
bind  : spec -> code: every TLC state is replayed on the real PointGroup / PointSymmetry / Transform objects.  What the
        property does not fix is NOT compared: the list PointGroup.symmetries and the star are compared as sets (the spec's
        per-element data are indexed through the permutation between the two orders), exceptions are accepted by kind
        (any exception = "rejected"), Transform objects are described by their effect on a probe tensor.
        code -> spec: seeded random generator sets (any element of O_h x {1,T} or D_6h x {1,T}), lattices, tensors, k-points,
        point groups of irrep space groups (PointGroup(spacegroup=...)), Rotation(n, axis) / Mirror(axis) objects,
        PointGroup.symmetrize(EnergyResult) are run on the real code and the recorded results validated by TLC against
        PointGroupAlgRec.tla.
Tensors on hexagonal lattices are compared through their components in the reciprocal hexagonal frame (integers there).
"""
import copy
import itertools
import math
import os
import random
import re
import warnings
import zlib
from concurrent.futures import ThreadPoolExecutor

import numpy as np

from .. import tlc, ftable
from ..common import Report, MachineryError, seed

PROPS = {
    "C09": dict(level="model_checking",
                technique="TLC exhaustive on PointGroupAlg.tla (closure loop of PointGroup.__init__, group axioms, lattice invariance, "
                          "stars, tensor action law and symmetrisation over catalogue generator lists, lattices, ranks 0-3, Transform pairs) "
                          "+ replay of every TLC state on the real PointGroup/PointSymmetry/Transform (sets, not orders) + TLC validation of recorded random calls",
                text="TLC generates the group of every generator list (<=2 generators quick, <=3 thorough, repeated generators included) of a catalogue of "
                     "crystallographic and magnetic operations on 7 lattices and checks closure, identity, inverses, no duplicates, |G|<=96, lattice invariance, "
                     "star (each image once), the action law Act(g,Act(h,T))=Act(gh,T), idempotence and invariance of the symmetrisation; every state is "
                     "replayed on the real code: the set of elements, products, check_basis_symmetry, symmetric_grid, transform_reduced_vector, star (as a set of "
                     "images modulo the lattice, each once), as_dict round trip (set), transform_tensor per element, symmetrize_tensor, PointGroup.symmetrize of "
                     "an EnergyResult; lattices with an irrational axis ratio (float twins of tet/ort/hex) must give the same answers. Random real calls "
                     "(quick 120, thorough 800: groups, products, stars, actions incl. rank 4 and swap_axes transforms, action law, symmetrisation, grids, dict, "
                     "TransformProduct, Rotation/Mirror objects, point groups of irrep space groups) are validated by TLC.",
                note="the action law needs transformTR/transformInv to be commuting involutions (spec predicate ValidPair; of the 36 pairs of "
                     "predefined transforms only {odd_trans_021, odd_trans_102} and {odd_trans_102, trans} fail it; no formula declares such a pair); "
                     "float tolerance 1e-7 only for the integrality of projected values (observed 1e-14). The order of PointGroup.symmetries / of the star and "
                     "which representative of a star point is listed are information only (part 'order_info'). Variant keep_dups (both copies of a repeated "
                     "generator kept, the behaviour before repair 36802561) must be rejected by TLC.",
                ref="DESIGN.md 3.3"),
}

TAG = f"_p{os.getpid()}"           # scratch names are unique per process: several checks may run at once
TOL = 1e-7
SQ3 = math.sqrt(3.0)
FRAME = {"cub": np.eye(3), "hex": np.array([[1.0, 1.0 / SQ3, 0.0], [0.0, 2.0 / SQ3, 0.0], [0.0, 0.0, 1.0]])}
LATS = {"sc": ("cub", [[1, 0, 0], [0, 1, 0], [0, 0, 1]]), "tet": ("cub", [[1, 0, 0], [0, 1, 0], [0, 0, 2]]),
        "ort": ("cub", [[1, 0, 0], [0, 2, 0], [0, 0, 3]]), "fcc": ("cub", [[0, 1, 1], [1, 0, 1], [1, 1, 0]]),
        "bcc": ("cub", [[-1, 1, 1], [1, -1, 1], [1, 1, -1]]), "hex": ("hex", [[1, 0, 0], [0, 1, 0], [0, 0, 1]]),
        "ohex": ("hex", [[1, 0, 0], [-1, 2, 0], [0, 0, 1]])}
TRANSFORM_NAMES = ["ident", "odd", "odd_conj", "odd_trans_021", "odd_trans_102", "trans"]


GOLD = (1.0 + math.sqrt(5.0)) / 2.0
# float twins: the same lattice with irrational axis ratios (Cartesian y, z components of the reciprocal vectors scaled);
# every group that leaves the integer lattice invariant leaves the twin invariant and has the same reduced matrices
TWIN = {"tet": (1.0, 1.0, GOLD), "ort": (1.0, math.sqrt(0.87), GOLD / 1.5), "hex": (1.0, 1.0, GOLD), "ohex": (1.0, 1.0, GOLD / 1.5)}


class NonIntegral(Exception):
    pass


def rint(x, what=""):
    x = np.asarray(x)
    r = np.rint(x.real)
    if x.size and (np.abs(x.real - r).max() > TOL or (np.iscomplexobj(x) and np.abs(x.imag).max() > TOL)):
        raise NonIntegral(f"{what}: deviation {np.abs(x.real - r).max():.3e}")
    return r.astype(int)


def wb():
    from wannierberri.symmetry import point_symmetry as ps
    return ps


def cpu_s():
    t = os.times()
    return t.user + t.system + t.children_user + t.children_system


# ----------------------------------------------------------------------------------------- frames, lattices, elements
def recip_basis(fam, A, scale=None):
    B = np.array(A, dtype=float) @ FRAME[fam]
    return B if scale is None else B * np.array(scale, dtype=float)[None, :]


def real_lattice(fam, A, scale=None):
    """real lattice whose reciprocal lattice (up to the factor 2 pi) has the rows A @ frame"""
    return np.linalg.inv(recip_basis(fam, A, scale)).T


def cart_from_frame(fam, Rf):
    Ft = FRAME[fam].T
    return Ft @ np.array(Rf, dtype=float) @ np.linalg.inv(Ft)


def frame_from_cart(fam, Rc):
    Ft = FRAME[fam].T
    return rint(np.linalg.inv(Ft) @ Rc @ Ft, "rotation matrix in the frame")


def elem_of(fam, s):
    """real PointSymmetry -> (R in the frame, Inv, TR) of the specification (R, Inv, TR: documented attributes)"""
    return (tuple(map(tuple, frame_from_cart(fam, s.R).tolist())), bool(s.Inv), bool(s.TR))


def elem_json(e):
    return dict(R=[list(r) for r in e[0]], inv=bool(e[1]), tr=bool(e[2]))


def spec_elem(d):
    return (tuple(tuple(r) for r in d["R"]), bool(d["inv"]), bool(d["tr"]))


def sign_of(e):
    return (-1 if e[1] else 1) * (-1 if e[2] else 1)


def reduced_vectors(s, B):
    """the REAL transform_reduced_vector on the three basis vectors: rows = images = sign * W^T (integers on an invariant lattice)"""
    return tuple(map(tuple, rint(s.transform_reduced_vector(np.eye(3), B), "transform_reduced_vector(eye, recip_lattice)").tolist()))


_EXTRA = {}


def base_object(name):
    ps = wb()
    if name in ps.dict_sym:
        return ps.dict_sym[name]
    if not _EXTRA:
        _EXTRA["C3d"] = ps.Rotation(3, [1, 1, 1])
        _EXTRA["C2d"] = ps.Rotation(2, [1, 1, 0])
    return _EXTRA[name]


def generator_arg(names, as_string):
    """a generator of the catalogue (sequence of base names) as the code takes it: "A*B" or a PointSymmetry"""
    ps = wb()
    if as_string and all(n in ps.dict_sym for n in names):
        return "*".join(names)
    return ps.product([base_object(n) for n in names])


def build_group(fam, A, gens, mode="real", scale=None):
    """-> (PointGroup or None, exception or None).  mode: 'real' (real_lattice given: the constructor verifies the
    lattice), 'recip' (recip_lattice given), 'none' (no lattice).  Any exception means 'rejected'."""
    ps = wb()
    with warnings.catch_warnings():
        warnings.simplefilter("ignore")
        try:
            if mode == "real":
                return ps.PointGroup(list(gens), real_lattice=real_lattice(fam, A, scale)), None
            if mode == "recip":
                return ps.PointGroup(list(gens), recip_lattice=2 * np.pi * recip_basis(fam, A, scale)), None
            return ps.PointGroup(list(gens)), None
        except Exception as ex:  # noqa  (class and text of the exception are not part of the property)
            return None, ex


def group_for_comparison(fam, A, gens):
    """a PointGroup whose lattice is NOT verified by the constructor (for lattices that are not invariant): reciprocal
    lattice given; if a future constructor verifies that too, fall back to no lattice + attributes set by the harness"""
    pg, ex = build_group(fam, A, gens, "recip")
    if pg is not None:
        return pg
    pg, ex = build_group(fam, A, gens, "none")
    if pg is not None:
        try:
            pg.recip_lattice = 2 * np.pi * recip_basis(fam, A)
            pg.real_lattice = real_lattice(fam, A)
        except Exception:  # noqa
            return None
    return pg


# ----------------------------------------------------------------------------------------- tensors
def to_cart(fam, T):
    """spec tensor dict(rank, re, im) (frame components) -> complex Cartesian array"""
    r = T["rank"]
    t = (np.array(T["re"], dtype=float) + 1j * np.array(T["im"], dtype=float)).reshape((3,) * r)
    return frame_to_cart_array(fam, t, r)


def frame_to_cart_array(fam, t, r):
    if fam == "cub":
        return t
    F = FRAME[fam]
    for ax in range(t.ndim - r, t.ndim):
        t = np.moveaxis(np.tensordot(t, F, axes=([ax], [0])), -1, ax)
    return t


def cart_to_frame_array(fam, t, r):
    if fam != "cub":
        Fi = np.linalg.inv(FRAME[fam])
        for ax in range(t.ndim - r, t.ndim):
            t = np.moveaxis(np.tensordot(t, Fi, axes=([ax], [0])), -1, ax)
    return t


def from_cart(fam, arr, r):
    t = cart_to_frame_array(fam, np.asarray(arr, dtype=complex), r)
    re = rint(t.real, "tensor component (real part)")
    im = rint(t.imag, "tensor component (imaginary part)")
    return dict(rank=r, re=[int(x) for x in re.reshape(-1)], im=[int(x) for x in im.reshape(-1)])


def tens_eq(a, b):
    return a["rank"] == b["rank"] and list(a["re"]) == list(b["re"]) and list(a["im"]) == list(b["im"])


def transform_obj(t):
    """name of a predefined transform, dict(factor, conj, axes[, swap]) or a real Transform -> real Transform"""
    ps = wb()
    if isinstance(t, str):
        return getattr(ps, "transform_" + t)
    if not isinstance(t, dict):
        return t
    if t.get("swap") is not None:
        return ps.Transform(factor=t["factor"], conj=t["conj"], swap_axes=tuple(t["swap"]))
    return ps.Transform(factor=t["factor"], conj=t["conj"], transpose_axes=tuple(t["axes"]) if len(t["axes"]) else None)


def apply_T(tr, arr):
    """Transform.__call__ on a copy: works for an in-place implementation (the present one returns the same array) and
    for one that returns a new array"""
    a = np.array(arr, dtype=complex, copy=True)
    out = tr(a)
    return a if out is None else np.asarray(out)


_TJ = {}


def transform_json(t):
    """(factor, conj, axes) of a transform BY ITS EFFECT on a probe tensor (not by its attributes): axes = the
    transpose_axes on the last len(axes) tensor axes that reproduces it, leading fixed axes stripped"""
    key = repr(t) if isinstance(t, (str, dict)) else None
    if key in _TJ:
        return dict(_TJ[key])
    tr = transform_obj(t)
    n = 2 * 27
    X = (np.arange(1, n + 1) + 1j * (100 + np.arange(1, n + 1))).reshape(2, 3, 3, 3)
    Y = apply_T(tr, X)
    if Y.shape != X.shape:
        raise MachineryError(f"transform {t} changes the shape of a (2,3,3,3) array")
    factor = 1 if Y[0, 0, 1, 2].real > 0 else -1
    conj = bool((Y[0, 0, 1, 2].imag > 0) != (factor > 0))
    src = np.unravel_index(int(round(abs(Y[0, 0, 1, 2].real))) - 1, X.shape)
    if src[0] != 0 or sorted(src[1:]) != [0, 1, 2]:
        raise MachineryError(f"transform {t} is not a permutation of the tensor axes")
    axes = [list(src[1:]).index(m) for m in range(3)]
    Z = X.transpose((0,) + tuple(1 + a for a in axes))
    Z = factor * (Z.conj() if conj else Z)
    if not np.array_equal(Z, Y):
        raise MachineryError(f"transform {t} is not a signed (conjugating) permutation of the tensor axes")
    while axes and axes[0] == 0:
        axes = [a - 1 for a in axes[1:]]
    res = dict(factor=int(factor), conj=conj, axes=[int(a) for a in axes])
    if key is not None:
        _TJ[key] = dict(res)
    return res


_MR = {}


def min_rank(t):
    """smallest tensor rank (array without leading axes) the transform can be applied to, found by trying"""
    key = repr(t)
    if key not in _MR:
        tr = transform_obj(t)
        _MR[key] = 9
        for r in range(4):
            try:
                apply_T(tr, np.zeros((3,) * r, dtype=complex))
                _MR[key] = r
                break
            except Exception:  # noqa
                pass
    return _MR[key]


def call_act(fam, sym, T, tTR, tInv):
    """transform_tensor on the specification's tensor; a rank-0 tensor is passed with one leading axis of length 1
    (as all rank-0 results of wannierberri are), the 0-dimensional form is a separate positive case"""
    data = to_cart(fam, T)
    if T["rank"] == 0:
        data = data.reshape((1,))
    out = sym.transform_tensor(data, T["rank"], transform_obj(tTR), transform_obj(tInv))
    return from_cart(fam, out[0] if T["rank"] == 0 else out, T["rank"])


def call_symmetrize(fam, pg, T, tTR, tInv):
    """symmetrize_tensor times the group size (integers)"""
    data = to_cart(fam, T)
    if T["rank"] == 0:
        data = data.reshape((1,))
    S = pg.symmetrize_tensor(data, transformTR=transform_obj(tTR), transformInv=transform_obj(tInv), rank=T["rank"]) * pg.size
    return from_cart(fam, S[0] if T["rank"] == 0 else S, T["rank"])


def energy_result(fam, T, tTR, tInv):
    """EnergyResult with two energies carrying T and 3 T (None if the result class cannot be built this way any more)"""
    try:
        from wannierberri.result import EnergyResult
        data = np.stack([to_cart(fam, T), 3 * to_cart(fam, T)])
        return EnergyResult(np.array([0.0, 1.0]), data, transformTR=transform_obj(tTR), transformInv=transform_obj(tInv), rank=T["rank"], save_mode="")
    except Exception:  # noqa
        return None


def call_symmetrize_result(fam, pg, res, rank):
    """PointGroup.symmetrize(EnergyResult) times the group size -> (tensor of the first energy, consistent second energy?)"""
    S = pg.symmetrize(res)
    d = np.asarray(S.data) * pg.size
    return from_cart(fam, d[0], rank), bool(np.allclose(d[1], 3 * d[0], rtol=0, atol=1e-9))


# ----------------------------------------------------------------------------------------- fast dump reader
def _pyval(txt):
    s = txt.replace("<<>>", "()").replace("<<", "(").replace(">>", ",)")
    s = re.sub(r"(\w+) \|->", r'"\1":', s).replace("[", "{").replace("]", "}")
    s = re.sub(r"\bTRUE\b", "True", s)
    s = re.sub(r"\bFALSE\b", "False", s)
    return eval(s, {"__builtins__": {}}, {})


def dump_states(st):
    p = st.get("dump_path")
    if not p or not os.path.exists(p):
        raise MachineryError(f"no state dump produced ({st.get('meta')})")
    with open(p) as f:
        text = f.read()
    os.remove(p)            # dumps of the thorough tier are large
    for part in re.split(r"(?m)^State \d+:\s*$", text)[1:]:
        d = {}
        for ch in re.split(r"(?m)^/\\ ", part):
            ch = ch.strip()
            if not ch:
                continue
            m = re.match(r"(\w+)\s*=\s*", ch)
            try:
                d[m.group(1)] = _pyval(ch[m.end():])
            except Exception as ex:  # noqa
                raise MachineryError(f"cannot read the TLC dump value of {m.group(1) if m else '?'}: {ex}: {ch[:200]}")
        yield d


# ----------------------------------------------------------------------------------------- configurations
GROUP_INV = ["GroupClosed", "GroupIdentity", "GroupInverses", "GroupSize", "GroupNoDup", "GroupFrame", "GroupLattice",
             "DictRoundTrip", "StarListsOnce", "GridUniform"]
GROUP_INV_THOROUGH = GROUP_INV + ["GenerateIsLoop", "GroupAxiomsDirect"]
TENSOR_INV = ["ActionLaw", "ActionLawGens", "ActIdentity", "SymInvariant", "SymIdempotent", "SymIsSum",
              "TransformCommutesWithRotation", "ActLinear"]


def tset(xs):
    return "{" + ", ".join(tlc.tla_value(x) for x in xs) + "}"


def main_cfg(LATS_=(), LATS1=(), MAXGEN=2, ORDERED=False, TRIPLES=(), DUPS=False, TENSOR_LATS=(), RANKS=(0, 1, 2, 3),
             COMBOS="few", NGENERIC=1, BASIS=False, MAXPAIRS=12, KSET="few", NKMAX=2, ONLYC=(), ONLYH=(), invs=(), variant="code"):
    b = tlc.tla_value
    return (f'SPECIFICATION Spec\nCONSTANTS\n  Variant = "{variant}"\n  LATS = {tset(LATS_)}\n  LATS1 = {tset(LATS1)}\n  MAXGEN = {MAXGEN}\n'
            f'  ORDERED = {b(ORDERED)}\n  TRIPLES = {tset(TRIPLES)}\n  DUPS = {b(DUPS)}\n  TENSOR_LATS = {tset(TENSOR_LATS)}\n'
            f'  RANKS = {tset(RANKS)}\n  COMBOS = "{COMBOS}"\n  NGENERIC = {NGENERIC}\n  BASIS = {b(BASIS)}\n  MAXPAIRS = {MAXPAIRS}\n'
            f'  KSET = "{KSET}"\n  NKMAX = {NKMAX}\n  ONLYC = {tset(ONLYC)}\n  ONLYH = {tset(ONLYH)}\n' + "".join(f"INVARIANT {i}\n" for i in invs) + "CHECK_DEADLOCK FALSE\n")


KPTS_FEW = [(4, (0, 0, 0)), (4, (1, 0, 0)), (4, (1, 1, 0)), (4, (1, 2, 3)), (4, (2, 2, 2)), (6, (2, 2, 0)), (6, (3, 0, 1)), (12, (1, 5, 7))]
KPTS_MORE = [(4, (2, 0, 0)), (4, (2, 2, 0)), (4, (1, 1, 1)), (4, (3, 1, 2)), (6, (2, 4, 0)), (6, (3, 3, 3)), (6, (1, 2, 3)),
             (6, (4, 2, 3)), (12, (6, 6, 1)), (12, (4, 8, 3)), (5, (1, 2, 0)), (5, (1, 1, 3))]


def run_model(module, cfg, name, workers, dump=True, timeout=3000):
    st = tlc.run_tlc(module, cfg, name + TAG, workers=workers, dump=dump, timeout=timeout)
    if st.get("timeout"):
        raise MachineryError(f"TLC timed out on {name}")
    if st.get("error") and not st.get("violation"):
        raise MachineryError(f"TLC error on {name}: {st['error'][:800]}")
    return st


def star_matches(gotst, expst, images, N):
    """the property: each distinct image (modulo the reciprocal lattice) exactly once, nothing but images.
    -> (ok, same order and representatives as the specification's algorithm?)"""
    gm = [tuple(x % N for x in v) for v in gotst]
    em = {tuple(x % N for x in v) for v in expst}
    ok = len(gotst) == len(expst) and len(set(gm)) == len(gm) and set(gm) == em and all(tuple(v) in images for v in gotst)
    return ok, list(map(tuple, gotst)) == list(map(tuple, expst))


# ----------------------------------------------------------------------------------------- replay of the TLC states
class Replayer:
    def __init__(self, rep, rng):
        self.rep = rep
        self.rng = rng
        self.groups = {}
        self.count = dict(group=0, group_asym=0, tensor=0, tensor_invalid_pair=0, star=0, grid=0, dict=0, products=0, act=0,
                          lead_axis=0, reduced_vectors=0, twin_lattices=0, symmetrize_result=0, dup_generator_lists=0, sizes={})
        self.info = dict(element_order_differs=0, star_order_or_representative_differs=0)
        self.skipped = {}
        self.samples = {}

    def skip(self, what, why):
        self.skipped.setdefault(what, str(why)[:200])

    def group(self, lat, gens):
        key = (lat, gens)
        if key not in self.groups:
            fam, A = LATS[lat]
            as_string = zlib.crc32(repr(key).encode()) % 2 == 0
            args = [generator_arg(n, as_string) for n in gens]
            pg, ex = build_group(fam, A, args, "real")
            pg2 = None
            if pg is None:
                pg2 = group_for_comparison(fam, A, args)
            self.groups[key] = (pg, ex, pg2, args)
        return self.groups[key]

    def viol(self, key, **detail):
        self.rep.violation(key, detail)

    def lattice_dependent(self, pg, fam, G, perm, out, info, suffix=""):
        """check_basis_symmetry, symmetric_grid, transform_reduced_vector, star on the lattice of pg"""
        rep = self.rep
        try:
            for basis, name, exp in ((pg.real_lattice, "real", out["symmreal"]), (pg.recip_lattice, "recip", out["symm"])):
                r = bool(pg.check_basis_symmetry(basis))
                if r != exp:
                    self.viol("check_basis_symmetry:" + name + suffix, **info, expected=exp, got=r)
            nkmax = round(len(out["grids"]) ** (1 / 3))
            for q, nk in enumerate(itertools.product(range(1, nkmax + 1), repeat=3)):
                if suffix and not out["symm"]:
                    break
                r = bool(pg.symmetric_grid(list(nk)))
                self.count["grid"] += 1
                if r != out["grids"][q]:
                    self.viol("symmetric_grid" + suffix, **info, nk=nk, expected=out["grids"][q], got=r)
            if not out["symm"]:
                return
            B = pg.recip_lattice
            expW = [tuple(tuple(r) for r in w) for w in out["W"]]
            try:
                for a, x in enumerate(pg.symmetries):
                    M = reduced_vectors(x, B)
                    self.count["reduced_vectors"] += 1
                    W, sg = expW[perm[a]], sign_of(G[perm[a]])
                    if M != tuple(tuple(sg * W[j][i] for j in range(3)) for i in range(3)):
                        self.viol("transform_reduced_vector" + suffix, **info, element=elem_json(G[perm[a]]),
                                  expected_rows=[[sg * W[j][i] for j in range(3)] for i in range(3)], got_rows=M)
                        break
            except NonIntegral as ex:
                self.viol("transform_reduced_vector:non_integral" + suffix, **info, detail=str(ex))
            kpts = KPTS_FEW + (KPTS_MORE if len(out["stars"]) > len(KPTS_FEW) else [])
            for q, (N, k) in enumerate(kpts):
                st = pg.star(np.array(k, dtype=float) / N)
                self.count["star"] += 1
                try:
                    gotst = [tuple(int(x) for x in v) for v in rint(np.asarray(st) * N, "star (numerators)")]
                except NonIntegral as ex:
                    self.viol("star:non_integral" + suffix, **info, k=k, N=N, detail=str(ex))
                    continue
                expst = [tuple(v) for v in out["stars"][q]]
                images = {tuple(sign_of(G[n]) * sum(expW[n][i][j] * k[j] for j in range(3)) for i in range(3)) for n in range(len(G))}
                ok, same = star_matches(gotst, expst, images, N)
                if not ok:
                    self.viol("star" + suffix, **info, k=k, N=N, images_each_once_expected=expst, got=gotst)
                elif not same:
                    self.info["star_order_or_representative_differs"] += 1
        except NonIntegral:
            raise
        except Exception as ex:  # noqa   a public method of the property raised on a valid input
            self.viol(f"raises:PointGroup.lattice_methods{suffix}:{type(ex).__name__}", **info, error=f"{type(ex).__name__}: {ex}")

    def replay_group(self, s):
        rep = self.rep
        ps = wb()
        lat, gens = s["lat"], tuple(tuple(g) for g in s["gens"])
        fam, A = LATS[lat]
        G = [spec_elem(e) for e in s["G"]]
        out = s["out"]
        info = dict(lattice=lat, generators=["*".join(g) for g in gens])
        pg, ex, pg_recip, args = self.group(lat, gens)
        raised = pg is None
        rep.case(("group", lat, gens), nontrivial=len(G) > 1)
        self.count["group"] += 1
        self.count["sizes"][len(G)] = self.count["sizes"].get(len(G), 0) + 1
        if len(set(gens)) < len(gens):
            self.count["dup_generator_lists"] += 1
        # lattice invariance decision: the constructor rejects the lattice (any exception) when a real lattice is given
        if raised != (not out["symm"]):
            self.viol("PointGroup.__init__:basis_symmetry_check" if not raised else f"raises:PointGroup.__init__:{type(ex).__name__}",
                      **info, spec_lattice_symmetric=out["symm"], code_raised=raised, error=str(ex)[:300] if ex else None)
            return
        if raised:
            self.count["group_asym"] += 1
            pg = pg_recip
            if pg is None:
                self.skip("groups_on_non_invariant_lattices", "PointGroup cannot be built without a lattice check any more")
                return
        try:
            got = [elem_of(fam, x) for x in pg.symmetries]
        except NonIntegral as ex2:
            self.viol("PointGroup.symmetries:non_integral", **info, detail=str(ex2))
            return
        if len(got) != len(G) or len(set(got)) != len(got) or set(got) != set(G):
            self.viol("PointGroup.symmetries", **info, expected_set=[elem_json(e) for e in G], got=[elem_json(e) for e in got])
            return
        if got != G:
            self.info["element_order_differs"] += 1
        idx = {e: n for n, e in enumerate(G)}
        perm = [idx[e] for e in got]
        self.lattice_dependent(pg, fam, G, perm, out, info)
        # a lattice with irrational axis ratios that the same group leaves invariant: the same answers
        if lat in TWIN and out["symm"]:
            pgt, ext = build_group(fam, A, args, "real", scale=TWIN[lat])
            self.count["twin_lattices"] += 1
            if pgt is None:
                self.viol("PointGroup.__init__:basis_symmetry_check:irrational_axis_ratio", **info, scale_of_cartesian_components=TWIN[lat],
                          error=f"{type(ext).__name__}: {ext}"[:300])
            else:
                try:
                    gott = [elem_of(fam, x) for x in pgt.symmetries]
                    if len(gott) != len(G) or set(gott) != set(G):
                        self.viol("PointGroup.symmetries:irrational_axis_ratio", **info, got=[elem_json(e) for e in gott])
                    else:
                        self.lattice_dependent(pgt, fam, G, [idx[e] for e in gott], out, dict(info, scale_of_cartesian_components=TWIN[lat]), ":irrational_axis_ratio")
                except NonIntegral as ex2:
                    self.viol("PointGroup.symmetries:non_integral", **info, detail=str(ex2))
        # pairwise products (all pairs up to 24 elements, seeded sample of 600 pairs beyond)
        n = len(G)
        pairs = list(itertools.product(range(n), repeat=2))
        if n > 24:
            pairs = random.Random(zlib.crc32(repr((lat, gens)).encode()) + seed()).sample(pairs, 600)
        for a, b in pairs:
            p = elem_of(fam, pg.symmetries[a] * pg.symmetries[b])
            self.count["products"] += 1
            e = G[out["tab"][perm[a]][perm[b]] - 1]
            if p != e:
                self.viol("PointSymmetry.__mul__", **info, a=elem_json(got[a]), b=elem_json(got[b]), expected=elem_json(e), got=elem_json(p))
                break
        if not out["symm"]:
            return
        # as_dict / PointGroup(dictionary=...): the same set of elements on the same lattice
        with warnings.catch_warnings():
            warnings.simplefilter("ignore")
            try:
                pgd = ps.PointGroup(dictionary=pg.as_dict())
                gotd = [elem_of(fam, x) for x in pgd.symmetries]
            except NonIntegral:
                raise
            except Exception as ex2:  # noqa
                gotd = f"{type(ex2).__name__}: {ex2}"
        self.count["dict"] += 1
        if isinstance(gotd, str) or len(gotd) != len(G) or set(gotd) != set(G):
            self.viol("PointGroup.as_dict:round_trip", **info, expected_set=[elem_json(e) for e in G],
                      got=gotd if isinstance(gotd, str) else [elem_json(e) for e in gotd])
        elif not np.allclose(pgd.real_lattice, pg.real_lattice, rtol=0, atol=1e-12):
            self.viol("PointGroup.as_dict:lattice", **info, expected=pg.real_lattice.tolist(), got=pgd.real_lattice.tolist())
        if len(G) >= 8 and len(gens) == 2:
            k3 = (KPTS_FEW[3][0], KPTS_FEW[3][1])
            self.samples.setdefault("group", {})[(lat, gens)] = dict(
                fn="PointGroup", **info, size=len(G), three_elements=[elem_json(e) for e in sorted(G)[:3]],
                star_of=dict(N=k3[0], k=k3[1]), star_as_set=sorted(list(v) for v in out["stars"][3]))

    def replay_tensor(self, s):
        rep = self.rep
        lat, gens = s["lat"], tuple(tuple(g) for g in s["gens"])
        fam, A = LATS[lat]
        pg = self.group(lat, gens)[0]
        if pg is None:
            raise MachineryError("tensor state on a lattice that is not invariant")
        G = [spec_elem(e) for e in s["G"]]
        inp, out = s["inp"], s["out"]
        T = dict(rank=inp["rank"], re=list(inp["T"]["re"]), im=list(inp["T"]["im"]))
        tTR, tInv = inp["tTR"], inp["tInv"]
        info = dict(lattice=lat, generators=["*".join(g) for g in gens], rank=T["rank"], transformTR=tTR, transformInv=tInv, T=T)
        key = ("tensor", lat, gens, T["rank"], tTR, tInv, tuple(T["re"]), tuple(T["im"]))
        rep.case(key, nontrivial=T["rank"] > 0 or len(pg.symmetries) > 1)
        self.count["tensor"] += 1
        valid = not ({tTR, tInv} in ({"odd_trans_021", "odd_trans_102"}, {"odd_trans_102", "trans"}))
        if not valid:
            self.count["tensor_invalid_pair"] += 1
        try:
            got = [elem_of(fam, x) for x in pg.symmetries]
            if set(got) != set(G) or len(got) != len(G):
                return              # reported by replay_group of the same generator list
            idx = {e: n for n, e in enumerate(G)}
            perm = [idx[e] for e in got]
            data0 = to_cart(fam, T).reshape((1,) + (3,) * T["rank"])       # one leading axis (see call_act)
            oTR, oInv = transform_obj(tTR), transform_obj(tInv)
            for a, sym in enumerate(pg.symmetries):
                gt = from_cart(fam, sym.transform_tensor(data0, T["rank"], oTR, oInv)[0], T["rank"])
                self.count["act"] += 1
                exp = dict(rank=T["rank"], re=list(out["acted"][perm[a]]["re"]), im=list(out["acted"][perm[a]]["im"]))
                if not tens_eq(gt, exp):
                    self.viol("transform_tensor", **info, element=elem_json(got[a]), expected=exp, got=gt)
                    return
            # leading (spectator) axes: rank < dim
            a = zlib.crc32(repr(key).encode()) % len(pg.symmetries)
            data = np.stack([to_cart(fam, T), 3 * to_cart(fam, T)])      # shape (2, 3, ..., 3), rank < dim
            o = pg.symmetries[a].transform_tensor(data, T["rank"], transform_obj(tTR), transform_obj(tInv))
            exp = dict(rank=T["rank"], re=list(out["acted"][perm[a]]["re"]), im=list(out["acted"][perm[a]]["im"]))
            self.count["lead_axis"] += 1
            if not (tens_eq(from_cart(fam, o[0], T["rank"]), exp) and np.allclose(o[1], 3 * o[0], rtol=0, atol=1e-9)):
                self.viol("transform_tensor:leading_axes", **info, element=elem_json(got[a]), expected=exp, got=from_cart(fam, o[0], T["rank"]))
            gotS = call_symmetrize(fam, pg, T, tTR, tInv)
            expS = dict(rank=T["rank"], re=list(out["sym"]["re"]), im=list(out["sym"]["im"]))
            if not tens_eq(gotS, expS):
                self.viol("symmetrize_tensor", **info, expected_times_size=expS, got_times_size=gotS)
            # PointGroup.symmetrize(result): the same projection through Result.transform
            res = energy_result(fam, T, tTR, tInv)
            if res is None:
                self.skip("PointGroup.symmetrize(EnergyResult)", "EnergyResult(Energies, data, transformTR=, transformInv=, rank=, save_mode=) cannot be built")
            else:
                gotR, lin = call_symmetrize_result(fam, pg, res, T["rank"])
                self.count["symmetrize_result"] += 1
                if not tens_eq(gotR, expS) or not lin:
                    self.viol("PointGroup.symmetrize:EnergyResult", **info, expected_times_size=expS, got_times_size=gotR, second_energy_is_3x_first=lin)
        except NonIntegral as ex:
            self.viol("transform_tensor:non_integral", **info, detail=str(ex))
        except MachineryError:
            raise
        except Exception as ex:  # noqa   the action / projection raised on a valid tensor
            self.viol(f"raises:transform_tensor_or_symmetrize:{type(ex).__name__}", **info, error=f"{type(ex).__name__}: {ex}"[:400])
        if len(pg.symmetries) >= 8 and T["rank"] == 2:
            self.samples.setdefault("tensor", {})[key[1:6]] = dict(
                fn="symmetrize_tensor", **{k: v for k, v in info.items() if k != "T"}, T_re=T["re"][:9], sym_times_size_re=list(out["sym"]["re"])[:9])

    def emit_samples(self):
        for kind in ("group", "tensor"):
            for k in sorted(self.samples.get(kind, {}), key=repr)[:2]:
                self.rep.sample(self.samples[kind][k])


# ----------------------------------------------------------------------------------------- transforms
EXTRA_TRANSFORMS = dict(cyc_120=dict(factor=1, conj=False, axes=(1, 2, 0)), cyc_201=dict(factor=-1, conj=False, axes=(2, 0, 1)),
                        rev_210=dict(factor=1, conj=True, axes=(2, 1, 0)), conj=dict(factor=1, conj=True, axes=()),
                        conj_trans=dict(factor=-1, conj=True, axes=(1, 0)),
                        odd_copy=dict(factor=-1, conj=False, axes=()),          # Transform(factor=-1): equal to, not identical with, transform_odd
                        # the same kind of permutation given through swap_axes (numpy axes of the array)
                        swap_12=dict(factor=1, conj=False, axes=(1, 0), swap=(-1, -2)),
                        swap_13c=dict(factor=-1, conj=True, axes=(2, 1, 0), swap=(-1, -3)))


def generic_tensor(r, v):
    n = 3 ** r
    return dict(rank=r, re=[((p * p * (v + 1) + 3 * p + v) % 7) - 3 for p in range(1, n + 1)],
                im=[((5 * p + v * p * p + 1) % 5) - 2 for p in range(1, n + 1)])


def any_transform(name):
    return name if name in TRANSFORM_NAMES else EXTRA_TRANSFORMS[name]


def apply_transform(t, T):
    arr = np.array(to_cart("cub", T)).reshape((1,) + (3,) * T["rank"])      # one leading axis
    return from_cart("cub", apply_T(transform_obj(t), arr)[0], T["rank"])


def replay_transforms(rep, st):
    ps = wb()
    n = 0
    nprod = 0
    for s in dump_states(st):
        if s["out"] == ():
            continue
        n += 1
        r, t, u, out = s["rank"], s["t"], s["u"], s["out"]
        rep.case(("transform", r, t, u))
        T0 = generic_tensor(r, 1)
        info = dict(rank=r, t=t, u=u)
        try:
            g1 = apply_transform(any_transform(t), T0)
            e1 = dict(rank=r, re=list(out["t_T"]["re"]), im=list(out["t_T"]["im"]))
            if not tens_eq(g1, e1):
                rep.violation("Transform.__call__", dict(info, T=T0, expected=e1, got=g1))
                continue
            g2 = apply_transform(any_transform(u), g1)
            e2 = dict(rank=r, re=list(out["u_t_T"]["re"]), im=list(out["u_t_T"]["im"]))
            if not tens_eq(g2, e2):
                rep.violation("Transform.__call__:composition", dict(info, T=T0, expected=e2, got=g2))
            # involution / commutation as decided by the specification, observed on the real objects: the positive direction on
            # the generic tensor (exact equality required), the negative one on a tensor whose components are pairwise
            # distinct in absolute value (a signed/conjugating permutation fixes it only if it is the identity map)
            D = dict(rank=r, re=list(range(1, 3 ** r + 1)), im=list(range(101, 3 ** r + 101)))
            tt, uu = any_transform(t), any_transform(u)
            if out["involution"] and not tens_eq(apply_transform(tt, g1), T0):
                rep.violation("Transform:involution", dict(info, spec_says_involution=True, T=T0, t_t_T=apply_transform(tt, g1)))
            if not out["involution"] and tens_eq(apply_transform(tt, apply_transform(tt, D)), D):
                rep.violation("Transform:involution", dict(info, spec_says_involution=False, T=D))
            ab_, ba_ = apply_transform(tt, apply_transform(uu, D)), apply_transform(uu, apply_transform(tt, D))
            if out["commute"] != tens_eq(ab_, ba_):
                rep.violation("Transform:commute", dict(info, spec_says_commute=out["commute"], T=D, t_u_T=ab_, u_t_T=ba_))
        except (NonIntegral, MachineryError):
            raise
        except Exception as ex:  # noqa
            rep.violation(f"raises:Transform.__call__:{type(ex).__name__}", dict(info, error=f"{type(ex).__name__}: {ex}"[:300]))
            continue
        # TransformProduct (any exception = not defined)
        err = None
        try:
            tp = ps.TransformProduct([transform_obj(any_transform(t)), transform_obj(any_transform(u))])
        except Exception as ex:  # noqa
            err = type(ex).__name__
        if (err is None) != out["product_defined"]:
            rep.violation("TransformProduct:defined", dict(info, spec_defined=out["product_defined"], code_error=err))
        elif err is None:
            nprod += 1
            got = transform_json(tp)                     # by effect
            exp = dict(factor=out["product"]["factor"], conj=out["product"]["conj"], axes=list(out["product"]["axes"]))
            if got != exp:
                rep.violation("TransformProduct", dict(info, expected=exp, got=got))
            # the product rule on the real objects: tp(A x B) = t(A) x u(B)
            for ra in range(r + 1):
                Aa, Bb = generic_tensor(ra, 1), generic_tensor(r - ra, 2)
                x = np.array(to_cart("cub", Aa)).reshape((1,) + (3,) * ra)
                y = np.array(to_cart("cub", Bb)).reshape((1,) + (3,) * (r - ra))
                ab = apply_T(tp, np.multiply.outer(x[0], y[0])[None])
                x2 = apply_T(transform_obj(any_transform(t)), x)
                y2 = apply_T(transform_obj(any_transform(u)), y)
                if not np.array_equal(ab[0], np.multiply.outer(x2[0], y2[0])):
                    rep.violation("TransformProduct:product_rule", dict(info, rank_A=ra, rank_B=r - ra))
    if 2 * n != st["distinct"] or nprod == 0:
        raise MachineryError(f"transform states: dump {n}, TLC {st['distinct']}, products {nprod}")
    return n


# ----------------------------------------------------------------------------------------- exact helpers for the random records
def _mm(a, b):
    return tuple(tuple(sum(a[i][k] * b[k][j] for k in range(3)) for j in range(3)) for i in range(3))


def _det(a):
    return (a[0][0] * (a[1][1] * a[2][2] - a[1][2] * a[2][1]) - a[0][1] * (a[1][0] * a[2][2] - a[1][2] * a[2][0])
            + a[0][2] * (a[1][0] * a[2][1] - a[1][1] * a[2][0]))


def holohedry(fam):
    """all improper-or-proper integer frame matrices of the holohedry (O_h: 48, D_6h: 24), by closure (harness-side helper
    used only to draw random inputs)"""
    neg = lambda R: tuple(tuple(-x for x in r) for r in R)  # noqa
    if fam == "cub":
        gen = [((0, -1, 0), (1, 0, 0), (0, 0, 1)), ((0, 0, 1), (1, 0, 0), (0, 1, 0)), neg(((1, 0, 0), (0, 1, 0), (0, 0, 1)))]
    else:
        gen = [((0, -1, 0), (1, 1, 0), (0, 0, 1)), ((1, 0, 0), (-1, -1, 0), (0, 0, -1)), neg(((1, 0, 0), (0, 1, 0), (0, 0, 1)))]
    L = list(gen)
    grew = True
    while grew:
        grew = False
        for a in list(L):
            for b in list(L):
                c = _mm(a, b)
                if c not in L:
                    L.append(c)
                    grew = True
    return L


def predicted_size(mats_tr, cap=96):
    """size of the group generated by improper matrices with TR flags (harness-side, to keep the cost bounded)"""
    L = list(dict.fromkeys(mats_tr))
    grew = True
    while grew:
        grew = False
        for a in list(L):
            for b in list(L):
                c = (_mm(a[0], b[0]), a[1] != b[1])
                if c not in L:
                    L.append(c)
                    grew = True
                    if len(L) > cap:
                        return len(L)
    return len(L)


def random_lattice(rng, fam):
    r = rng.random()
    names = [k for k, v in LATS.items() if v[0] == fam]
    if r < 0.7:
        return LATS[rng.choice(names)][1]
    while True:
        A = [[rng.randint(-2, 2) for _ in range(3)] for _ in range(3)]
        if 1 <= _det(A) <= 4:
            return A


# Rotation(n, axis) / Mirror(axis): (family, n, axis in integer frame coordinates, mirror?, name in the spec's table or "")
ROT_CASES = [("cub", 2, (1, 0, 0), False, "C2x"), ("cub", 2, (0, 1, 0), False, "C2y"), ("cub", 2, (0, 0, 1), False, "C2z"),
             ("cub", 4, (1, 0, 0), False, "C4x"), ("cub", 4, (0, 1, 0), False, "C4y"), ("cub", 4, (0, 0, 1), False, "C4z"),
             ("cub", 3, (1, 1, 1), False, "C3d"), ("cub", 2, (1, 1, 0), False, "C2d"),
             ("cub", 2, (1, 0, 0), True, "Mx"), ("cub", 2, (0, 1, 0), True, "My"), ("cub", 2, (0, 0, 1), True, "Mz"),
             ("cub", -4, (0, 0, 1), False, ""), ("cub", 3, (1, -1, 1), False, ""), ("cub", -3, (1, 1, 1), False, ""),
             ("cub", 3, (-1, -1, -1), False, ""), ("cub", 2, (1, -1, 0), False, ""), ("cub", 2, (0, 1, 1), False, ""),
             ("cub", 1, (0, 0, 1), False, ""), ("cub", -1, (1, 0, 0), False, ""), ("cub", -2, (1, 0, 1), False, ""),
             ("cub", 4, (0, 0, -2), False, ""), ("cub", -4, (0, 3, 0), False, ""), ("cub", 3, (-1, 1, 1), False, ""),
             ("cub", 2, (1, 1, 0), True, ""), ("cub", 2, (1, -1, 0), True, ""), ("cub", 2, (0, 1, 1), True, ""),
             ("hex", 6, (0, 0, 1), False, "C6z"), ("hex", 3, (0, 0, 1), False, "C3z"), ("hex", 2, (0, 0, 1), False, "C2z"),
             ("hex", 2, (2, -1, 0), False, "C2x"), ("hex", 2, (0, 1, 0), False, "C2y"),
             ("hex", 2, (2, -1, 0), True, "Mx"), ("hex", 2, (0, 1, 0), True, "My"), ("hex", 2, (0, 0, 1), True, "Mz"),
             ("hex", -6, (0, 0, 1), False, ""), ("hex", -3, (0, 0, 2), False, ""), ("hex", 6, (0, 0, -1), False, ""),
             ("hex", 2, (1, 0, 0), False, ""), ("hex", 2, (1, 1, 0), False, ""), ("hex", 2, (1, -1, 0), False, ""),
             ("hex", 2, (1, -2, 0), False, ""), ("hex", 2, (1, 1, 0), True, ""), ("hex", 2, (1, 0, 0), True, "")]

# structures whose point group is built by PointGroup(spacegroup=irrep SpaceGroup): (lattice name, positions, types, magnetic moments)
SG_CASES = [("tet", [[0, 0, 0], [0, 0, 0.3]], [1, 2], None),
            ("hex", [[0, 0, 0], [1 / 3, 2 / 3, 0.3]], [1, 2], None),
            ("ort", [[0, 0, 0], [0.5, 0, 0]], [1, 1], [[0, 0, 1.0], [0, 0, -1.0]]),
            ("sc", [[0, 0, 0], [0.25, 0.25, 0.25]], [1, 2], None)]


def rot_records(rep, which):
    ps = wb()
    recs = []
    for fam, n, c, mirror, name in which:
        axis = (np.array(c, dtype=float) @ FRAME[fam]).tolist()
        info = dict(call=f"Mirror({axis})" if mirror else f"Rotation({n}, {axis})", frame=fam, axis_frame_coordinates=list(c))
        try:
            obj = ps.Mirror(axis) if mirror else ps.Rotation(n, axis)
            recs.append(dict(fn="rot", fam=fam, n=n, c=list(c), mirror=mirror, name=name, out=elem_json(elem_of(fam, obj))))
            rep.case(("rot", fam, n, c, mirror))
        except NonIntegral as ex:
            rep.violation("Rotation:non_integral", dict(info, detail=str(ex)))
        except Exception as ex:  # noqa
            rep.violation(f"raises:Rotation:{type(ex).__name__}", dict(info, error=f"{type(ex).__name__}: {ex}"[:300]))
    return recs


def group_record(fam, A, genj, pg, site):
    """record of a finished group (elements in the code's order, lattice verdicts, transform_reduced_vector of the basis)"""
    G = pg.symmetries
    symm = bool(pg.check_basis_symmetry(pg.recip_lattice))
    symmreal = bool(pg.check_basis_symmetry(pg.real_lattice))
    TRV = [[list(r) for r in reduced_vectors(x, pg.recip_lattice)] for x in G] if symm else []
    return dict(fn="group", site=site, lat=dict(fam=fam, A=[list(r) for r in A]), gens=genj, out=[elem_json(elem_of(fam, x)) for x in G],
                symm=symm, symmreal=symmreal, TRV=TRV)


def spacegroup_records(rep, which, skipped):
    """PointGroup(spacegroup=...) and PointGroup(spacegroup=..., use_symmetries_index=...)"""
    ps = wb()
    recs = []
    try:
        from irrep.spacegroup import SpaceGroup
    except Exception as ex:  # noqa
        skipped["PointGroup(spacegroup=)"] = f"irrep not importable: {ex}"
        return recs
    for lat, pos, typ, mom in which:
        fam, A = LATS[lat]
        info = dict(lattice=lat, positions=pos, types=typ, magmom=mom)
        try:
            with warnings.catch_warnings():
                warnings.simplefilter("ignore")
                sg = SpaceGroup.from_cell(real_lattice=real_lattice(fam, A), positions=np.array(pos, dtype=float), typat=list(typ),
                                          magmom=None if mom is None else np.array(mom, dtype=float), include_TR=True, spinor=False)
                ops = [(frame_from_cart(fam, np.asarray(o.rotation_cart)), bool(o.time_reversal)) for o in sg.symmetries]
        except Exception as ex:  # noqa   irrep / spglib, not the code under test
            skipped["PointGroup(spacegroup=):" + lat] = f"{type(ex).__name__}: {ex}"[:200]
            continue
        nops = len(ops)
        for sub in (None, list(range(0, nops, 3)) + [nops - 1]):
            use = list(range(nops)) if sub is None else sorted(set(sub))
            genj = [dict(R=[[int(x) for x in r] for r in ops[n][0]], TR=ops[n][1]) for n in use]
            try:
                with warnings.catch_warnings():
                    warnings.simplefilter("ignore")
                    pg = ps.PointGroup(spacegroup=sg) if sub is None else ps.PointGroup(spacegroup=sg, use_symmetries_index=use)
                recs.append(group_record(fam, A, genj, pg, "PointGroup(spacegroup=)" if sub is None else "PointGroup(spacegroup=,use_symmetries_index=)"))
                rep.case(("sgroup", lat, tuple(use)))
            except NonIntegral as ex:
                rep.violation("PointGroup(spacegroup=):non_integral", dict(info, detail=str(ex)))
            except Exception as ex:  # noqa
                rep.violation(f"raises:PointGroup(spacegroup=):{type(ex).__name__}", dict(info, use_symmetries_index=sub, error=f"{type(ex).__name__}: {ex}"[:300]))
    return recs


KINDS = ["group", "mul", "star", "act", "actlaw", "symm", "grid", "dict", "tprod", "symm_result", "star", "actlaw", "group", "act4"]


def random_word(rng, objs, ps):
    """an element of the group as a product of generators (no PointGroup needed)"""
    g = ps.Identity
    for _ in range(rng.randint(1, 5)):
        g = g * rng.choice(objs)
    return g


def make_records(rep, rng, nrec, maxsize, skipped):
    """seeded random calls of the real code -> records.  Groups are built only up to `maxsize` elements (the closure loop of
    the real code is cubic in the size); products / actions use words in the generators instead."""
    ps = wb()
    recs = []
    hol = {f: holohedry(f) for f in ("cub", "hex")}
    if len(hol["cub"]) != 48 or len(hol["hex"]) != 24:
        raise MachineryError("holohedry helper wrong")
    classes = {}
    tries = 0
    extra = list(EXTRA_TRANSFORMS)
    while len(recs) < nrec and tries < 60 * nrec:
        kind = KINDS[tries % len(KINDS)]
        tries += 1
        fam = rng.choice(["cub", "cub", "hex"])
        A = random_lattice(rng, fam)
        ng = rng.choice([0, 1, 1, 2, 2, 2, 3])
        gens = [(rng.choice(hol[fam]), rng.random() < 0.35) for _ in range(ng)]
        if ng >= 2 and rng.random() < 0.12:
            gens[-1] = gens[0]                       # a generator given twice
        needs_group = kind in ("group", "star", "symm", "symm_result", "grid", "dict")
        latj = dict(fam=fam, A=[list(r) for r in A])
        genj = [dict(R=[list(r) for r in R], TR=bool(TR)) for R, TR in gens]
        with warnings.catch_warnings():
            warnings.simplefilter("ignore")
            objs = [ps.PointSymmetry(cart_from_frame(fam, R), TR) for R, TR in gens] or [ps.Identity]
        rank = 4 if kind == "act4" else rng.choice([0, 1, 1, 2, 2, 3, 3])
        pool_t = TRANSFORM_NAMES + extra
        avail = [t for t in pool_t if min_rank(any_transform(t)) <= rank]
        tTR, tInv = any_transform(rng.choice(avail)), any_transform(rng.choice(avail))
        T = dict(rank=rank, re=[rng.randint(-20, 20) for _ in range(3 ** rank)], im=[rng.randint(-9, 9) if rng.random() < 0.6 else 0 for _ in range(3 ** rank)])
        tj = dict(tTR=transform_json(tTR), tInv=transform_json(tInv))
        info = dict(kind=kind, lattice=latj, generators=genj)
        try:
            pgr = None
            if needs_group:
                size = predicted_size(gens, cap=maxsize) if gens else 1
                if size > maxsize:
                    continue
                if kind == "group":
                    pg, ex = build_group(fam, A, objs if gens else [], "real")
                    pgr = pg if pg is not None else group_for_comparison(fam, A, objs if gens else [])
                    if pgr is None:
                        skipped["random groups on non-invariant lattices"] = "PointGroup cannot be built without a lattice check any more"
                        continue
                    rec = group_record(fam, A, genj, pgr, "PointGroup.__init__")
                    if (pg is None) != (not (rec["symm"] and rec["symmreal"])):
                        rep.violation("PointGroup.__init__:basis_symmetry_check",
                                      dict(info, code_raised=pg is None, check_basis_symmetry=[rec["symmreal"], rec["symm"]], error=str(ex)[:300] if ex else None))
                else:
                    pgr = group_for_comparison(fam, A, objs if gens else [])
                    if pgr is None:
                        continue
                    G = pgr.symmetries
                    Gj = [elem_json(elem_of(fam, x)) for x in G]
                    symm = bool(pgr.check_basis_symmetry(pgr.recip_lattice))
            if kind == "group":
                pass
            elif kind == "mul":
                a, b = random_word(rng, objs, ps), random_word(rng, objs, ps)
                rec = dict(fn="mul", a=elem_json(elem_of(fam, a)), b=elem_json(elem_of(fam, b)), out=elem_json(elem_of(fam, a * b)))
            elif kind == "star":
                if not symm:
                    continue
                N = rng.choice([2, 3, 4, 5, 6, 7, 8, 12])
                k = [rng.randint(-N, 2 * N) for _ in range(3)]
                st = pgr.star(np.array(k, dtype=float) / N)
                rec = dict(fn="star", lat=latj, G=Gj, k=k, N=N, out=[[int(x) for x in v] for v in rint(np.asarray(st) * N, "star")])
            elif kind in ("act", "act4"):
                g = random_word(rng, objs, ps)
                rec = dict(fn="act", g=elem_json(elem_of(fam, g)), T=T, out=call_act(fam, g, T, tTR, tInv), **tj)
            elif kind == "actlaw":
                g, h = random_word(rng, objs, ps), random_word(rng, objs, ps)
                gh = g * h
                d0 = to_cart(fam, T).reshape((1,) + (3,) * rank)
                hT = h.transform_tensor(d0, rank, transform_obj(tTR), transform_obj(tInv))
                ghT = g.transform_tensor(hT, rank, transform_obj(tTR), transform_obj(tInv))       # the code's own composition
                rec = dict(fn="actlaw", g=elem_json(elem_of(fam, g)), h=elem_json(elem_of(fam, h)), gh=elem_json(elem_of(fam, gh)), T=T,
                           out_g_h=from_cart(fam, ghT[0], rank), out_gh=call_act(fam, gh, T, tTR, tInv), **tj)
            elif kind == "symm":
                Sj = call_symmetrize(fam, pgr, T, tTR, tInv)
                some = rng.sample(G, min(3, len(G)))
                rec = dict(fn="symm", via="symmetrize_tensor", G=Gj, T=T, out=Sj, out2=call_symmetrize(fam, pgr, Sj, tTR, tInv),
                           acted=[call_act(fam, g, Sj, tTR, tInv) for g in some], **tj)
            elif kind == "symm_result":
                res = energy_result(fam, T, tTR, tInv)
                if res is None:
                    skipped["PointGroup.symmetrize(EnergyResult)"] = "EnergyResult cannot be built"
                    continue
                Sj, lin = call_symmetrize_result(fam, pgr, res, rank)
                if not lin:
                    rep.violation("PointGroup.symmetrize:EnergyResult", dict(info, note="data of the second energy (3 T) is not 3 x the first"))
                S2, _ = call_symmetrize_result(fam, pgr, energy_result(fam, Sj, tTR, tInv), rank)
                some = rng.sample(G, min(3, len(G)))
                rec = dict(fn="symm", via="PointGroup.symmetrize(EnergyResult)", G=Gj, T=T, out=Sj, out2=S2,
                           acted=[call_act(fam, g, Sj, tTR, tInv) for g in some], **tj)
            elif kind == "grid":
                nk = [rng.randint(1, 6) for _ in range(3)]
                rec = dict(fn="grid", lat=latj, G=Gj, nk=nk, out=bool(pgr.symmetric_grid(nk)))
            elif kind == "dict":
                if not symm:
                    continue
                with warnings.catch_warnings():
                    warnings.simplefilter("ignore")
                    pgd = ps.PointGroup(dictionary=pgr.as_dict())
                rec = dict(fn="dict", G=Gj, out=[elem_json(elem_of(fam, x)) for x in pgd.symmetries])
            else:
                ts = [rng.choice(pool_t) for _ in range(rng.choice([1, 2, 2, 3]))]
                tsj = [transform_json(any_transform(t)) for t in ts]
                try:
                    tp = ps.TransformProduct([transform_obj(any_transform(t)) for t in ts])
                    rec = dict(fn="tprod", ts=tsj, defined=True, out=transform_json(tp))
                except MachineryError:
                    raise
                except Exception:  # noqa   any exception = the product is not defined
                    rec = dict(fn="tprod", ts=tsj, defined=False, out=dict(factor=1, conj=False, axes=[]))
        except NonIntegral as ex:
            rep.violation(f"{kind}:non_integral", dict(info, detail=str(ex)))
            continue
        except MachineryError:
            raise
        except Exception as ex:  # noqa   a public call of the property raised on a valid input
            rep.violation(f"raises:{REC_SITE.get(kind, kind)}:{type(ex).__name__}", dict(info, rank=rank, transforms=tj, error=f"{type(ex).__name__}: {ex}"[:300]))
            continue
        recs.append(rec)
        classes[kind] = classes.get(kind, 0) + 1
        rep.case(("rec", kind, len(recs), repr(genj), repr(latj)))
    return recs, classes


REC_CFG = 'SPECIFICATION RecSpec\nCONSTANT Variant = "code"\nINVARIANT Report\nCHECK_DEADLOCK FALSE\n'
REC_SITE = dict(group="PointGroup.__init__", mul="PointSymmetry.__mul__", star="PointGroup.star", act="transform_tensor", act4="transform_tensor",
                actlaw="transform_tensor:action_law", symm="symmetrize_tensor", symm_result="PointGroup.symmetrize", grid="symmetric_grid",
                dict="PointGroup.as_dict", tprod="TransformProduct", rot="Rotation")


def record_site(r):
    if r["fn"] == "group":
        return r.get("site", "PointGroup.__init__")
    if r["fn"] == "symm":
        return "symmetrize_tensor" if r.get("via") == "symmetrize_tensor" else "PointGroup.symmetrize"
    return REC_SITE[r["fn"]]


# ----------------------------------------------------------------------------------------- the check
def check(pid, tier):
    rep = Report(pid, tier, "model_checking")
    try:
        rc = _check(rep, tier)
    except Exception:
        if rep.violations:          # never lose what was already found
            rep.finish()
        raise
    if rc == 0:
        cleanup()
    return rc


def cleanup():
    """remove this process's TLC / record scratch directories (kept when something was reported, for inspection)"""
    import glob
    import shutil
    from ..common import WORK
    for d in glob.glob(os.path.join(WORK, "tlc", f"*{TAG}*")) + glob.glob(os.path.join(WORK, "records", f"*{TAG}*")):
        shutil.rmtree(d, ignore_errors=True)


def _check(rep, tier):
    thorough = tier == "thorough"
    rng = random.Random(seed() * 7919 + 9)
    ps = wb()
    try:
        busy = os.getloadavg()[0] > 24
    except OSError:
        busy = False
    W = 4 if busy else 12
    rep.rule("TLC enumerates every list of <= 2 (quick, from 12 operations per family) / <= 3 (thorough) generators from a catalogue of 19 cubic-type and 17 hexagonal-type "
             "operations (incl. time-reversed ones and lists naming an operation twice; thorough: 3-generator lists from 15/13 of them) on the lattices sc, hex (all lists) and "
             "tet, ort, fcc, bcc, ohex (lists of <= 1 quick, <= 2 thorough, including operations the lattice is not invariant under), "
             "for each group 8/20 k-points, all grids nk<=2/3, and for tet/ort/hex/ohex the same on a float twin with irrational axis ratios; "
             "for sc/hex groups tensors of rank 0..3 (thorough: 4) with pairs of the six predefined Transforms; a case = one TLC state replayed on "
             "the real code (exact comparison of sets / per-element values) or one recorded random call validated by TLC; distinct by input")
    rep.assume("integer frame matrices and tensor components: float results of the code are rounded after verifying integrality to 1e-7")
    rep.assume("PointSymmetry.__eq__ (tolerance 1e-12) is modelled as exact equality; rounding errors of products of the catalogue operations stay below it")
    rep.assume("transform_tensor is a group action only if transformTR and transformInv are commuting involutions (ValidPair); the two "
               "non-commuting pairs of predefined transforms are replayed but excluded from the action-law clauses")

    import time
    t_start, c_start = time.time(), cpu_s()
    timing = {}

    def lap(name):
        timing[name] = dict(wall=round(time.time() - t_start, 1), cpu=round(cpu_s() - c_start, 1))
    pool = ThreadPoolExecutor(max_workers=3)                    # at most 3 TLC processes at a time
    # -------- main models first (they are the long ones)
    if thorough:
        gcfg = main_cfg(LATS_=["sc", "hex", "tet", "ort", "fcc", "bcc", "ohex"], MAXGEN=2, ORDERED=True, DUPS=True, KSET="more", NKMAX=3, invs=GROUP_INV_THOROUGH)
        g3cfg = main_cfg(LATS_=["sc", "hex"], MAXGEN=3, TRIPLES=list(range(1, 20)), KSET="few", NKMAX=2, invs=GROUP_INV,
                         ONLYC=[2, 3, 4, 6, 7, 9, 10, 12, 13, 14, 15, 16, 17, 18, 19], ONLYH=[2, 3, 4, 6, 7, 9, 10, 11, 12, 13, 14, 15, 16])
        tcfg = main_cfg(LATS_=["sc", "hex"], MAXGEN=2, TENSOR_LATS=["sc", "hex"], COMBOS="all", NGENERIC=1, MAXPAIRS=24, invs=TENSOR_INV)
        bcfg = main_cfg(LATS_=["sc", "hex"], MAXGEN=1, TENSOR_LATS=["sc", "hex"], COMBOS="few", NGENERIC=1, BASIS=True, MAXPAIRS=48, invs=TENSOR_INV)
        r4cfg = main_cfg(LATS_=["sc", "hex"], MAXGEN=1, TENSOR_LATS=["sc", "hex"], RANKS=[4], COMBOS="few", NGENERIC=1, MAXPAIRS=8, invs=TENSOR_INV,
                         ONLYC=[2, 3, 7, 12, 13, 15], ONLYH=[2, 3, 4, 7, 11, 14])
    else:
        # quick: 12 generators per family (My, C2y, C4y, Identity, ... are left to the thorough tier)
        gcfg = main_cfg(LATS_=["sc", "hex"], LATS1=["tet", "ort", "fcc", "bcc", "ohex"], MAXGEN=2, DUPS=True, invs=GROUP_INV,
                        ONLYC=[2, 3, 4, 6, 7, 9, 10, 12, 13, 15, 17, 19], ONLYH=[2, 3, 4, 6, 7, 9, 10, 11, 12, 14, 15, 16])
        g3cfg = None
        tcfg = main_cfg(LATS_=["sc", "hex"], MAXGEN=2, TENSOR_LATS=["sc", "hex"], COMBOS="few", NGENERIC=1, MAXPAIRS=6, invs=TENSOR_INV,
                        ONLYC=[2, 3, 7, 12, 13, 15], ONLYH=[2, 3, 4, 7, 11, 14])
        bcfg = r4cfg = None
    f_g = pool.submit(run_model, "MC_PointGroupAlg.tla", gcfg, "c09_groups", W, True)
    f_t = pool.submit(run_model, "MC_PointGroupAlg.tla", tcfg, "c09_tensors", W, True)
    # -------- side models
    loopmax = 16 if thorough else 6
    loop_cfg = (f'SPECIFICATION Spec\nCONSTANTS\n  Variant = "code"\n  FAMS = {{"cub", "hex"}}\n  MAXGEN = 2\n  LOOPMAX = {loopmax}\n'
                "CONSTRAINT Bounded\nINVARIANT PassIsOperator\nINVARIANT DoneIsGenerate\nINVARIANT AppendOnly\nINVARIANT DistinctTail\nCHECK_DEADLOCK FALSE\n")
    f_loop = pool.submit(run_model, "MC_PointGroupLoop.tla", loop_cfg, "c09_loop", 2, False)
    tr_inv = ["TransformsOK", "InvolutionCharacterised", "CommuteCharacterised", "PredefinedInvolutions", "PredefinedPairs", "ProductRule", "ProductDefinedIff"]
    tr_cfg = 'SPECIFICATION Spec\nCONSTANTS\n  Variant = "code"\n  RANKS = {0, 1, 2, 3}\n' + "".join(f"INVARIANT {i}\n" for i in tr_inv) + "CHECK_DEADLOCK FALSE\n"
    f_tr = pool.submit(run_model, "MC_PointGroupTransforms.tla", tr_cfg, "c09_transforms", 2, True)
    # sensitivity self-tests: plausible wrong variants must be rejected by TLC (quick: two of them)
    sens = {
        "keep_dups": (main_cfg(LATS_=["sc"], MAXGEN=1, DUPS=True, ONLYC=[2, 7, 12], TENSOR_LATS=["sc"], RANKS=[1], invs=["GroupNoDup", "SymIdempotent"], variant="keep_dups"),
                      {"SymIdempotent", "GroupNoDup"}),
        "tr_or": (main_cfg(LATS_=["sc"], MAXGEN=1, ONLYC=[3, 15], invs=GROUP_INV, variant="tr_or"), {"GroupIdentity", "GroupInverses", "GroupClosed"}),
    }
    if thorough:
        sens["star_exact"] = (main_cfg(LATS_=["sc"], MAXGEN=1, ONLYC=[2, 12], invs=["StarListsOnce"], variant="star_exact"), {"StarListsOnce"})
        sens["invalid_pair"] = (main_cfg(LATS_=["sc"], MAXGEN=2, ONLYC=[2, 3], TENSOR_LATS=["sc"], RANKS=[3], COMBOS="invalid", invs=["ActionLawUnconditional"]), {"ActionLawUnconditional"})
    f_sens = {k: pool.submit(run_model, "MC_PointGroupAlg.tla", v[0], "c09_sens_" + k, 1, False) for k, v in sens.items()}

    # -------- meanwhile: the real code on inputs outside the catalogue (records for TLC)
    skipped = {}
    recs = rot_records(rep, ROT_CASES if thorough else ROT_CASES[::2] + ROT_CASES[1:12:2])
    nrot = len(recs)
    recs += spacegroup_records(rep, SG_CASES if thorough else SG_CASES[:2], skipped)
    nsg = len(recs) - nrot
    more, classes = make_records(rep, rng, 800 if thorough else 120, 24 if thorough else 16, skipped)
    recs += more
    classes.update(rot=nrot, spacegroup=nsg)
    lap("records_made")
    missing = [k for k in KINDS if classes.get(k, 0) == 0] + (["rot"] if nrot == 0 else [])
    if missing:
        raise MachineryError(f"record classes empty: {missing}")
    # positive cases that were findings before the repairs 36802561 / 1967f736
    rep.case(("duplicate_generators",))
    try:
        with warnings.catch_warnings():
            warnings.simplefilter("ignore")
            pgd = ps.PointGroup(["C2x", "Inversion*Mx"], real_lattice=np.eye(3))
        if len(pgd.symmetries) != 2:
            rep.violation("PointGroup.__init__:duplicate_generators", dict(generators=["C2x", "Inversion*Mx"], note="both generators are the operation C2x; the group is {C2x, E}",
                                                                             expected_size=2, got_size=len(pgd.symmetries)))
    except Exception as ex:  # noqa
        rep.violation(f"raises:PointGroup.__init__:{type(ex).__name__}", dict(generators=["C2x", "Inversion*Mx"], error=str(ex)[:300]))
    rep.case(("rank0_scalar",))
    try:
        o = ps.TimeReversal.transform_tensor(np.array(5.0), 0, ps.transform_odd, ps.transform_ident)
        if abs(complex(o) + 5.0) > 1e-12:
            rep.violation("transform_tensor:rank0_scalar", dict(data=5.0, element="TimeReversal", transformTR="odd", expected=-5.0, got=complex(o).real))
    except Exception as ex:  # noqa
        rep.violation(f"raises:transform_tensor:rank0_scalar:{type(ex).__name__}",
                      dict(call="TimeReversal.transform_tensor(np.array(5.0), 0, transform_odd, transform_ident)", expected=-5.0, got=f"{type(ex).__name__}: {ex}"))

    # -------- main model: groups
    st_g = f_g.result()
    lap("tlc_groups_done")
    rp = Replayer(rep, rng)
    ftable.spec_violation(rep, st_g, "c09_groups")
    tlc.check_not_vacuous(st_g, ["Pass"], "c09_groups")
    rep.add_tlc("c09_groups", st_g)
    ng = 0
    for s in dump_states(st_g):
        if s["pc"] == "group":
            ng += 1
            rp.replay_group(s)
    if ng == 0 or rp.count["group_asym"] + len(rp.skipped) == 0 or rp.count["star"] == 0 or max(rp.count["sizes"]) < 48 or rp.count["dup_generator_lists"] == 0 \
            or rp.count["twin_lattices"] == 0:
        raise MachineryError(f"vacuous group replay: {rp.count}")
    if g3cfg:
        st3 = run_model("MC_PointGroupAlg.tla", g3cfg, "c09_groups3", W, True)
        ftable.spec_violation(rep, st3, "c09_groups3")
        rep.add_tlc("c09_groups3", st3)
        for s in dump_states(st3):
            if s["pc"] == "group" and len(s["gens"]) == 3:
                rp.replay_group(s)
        if max(rp.count["sizes"]) < 96:
            raise MachineryError("no group of 96 elements among the 3-generator lists")

    # -------- main model: tensors
    lap("groups_replayed")
    st_t = f_t.result()
    lap("tlc_tensors_done")
    ftable.spec_violation(rep, st_t, "c09_tensors")
    tlc.check_not_vacuous(st_t, ["Pass", "PickTensor"], "c09_tensors")
    rep.add_tlc("c09_tensors", st_t)
    for s in dump_states(st_t):
        if s["pc"] == "tensor":
            rp.replay_tensor(s)
    for cfg_x, name_x, keep in ((bcfg, "c09_basis_tensors", 10), (r4cfg, "c09_rank4_tensors", 1)):
        if cfg_x:
            st_b = run_model("MC_PointGroupAlg.tla", cfg_x, name_x, W, True)
            ftable.spec_violation(rep, st_b, name_x)
            rep.add_tlc(name_x, st_b)
            for s in dump_states(st_b):
                if s["pc"] == "tensor" and zlib.crc32(repr((s["gens"], s["inp"])).encode()) % keep == 0:
                    rp.replay_tensor(s)
    if rp.count["tensor"] == 0 or rp.count["tensor_invalid_pair"] == 0 or rp.count["act"] < 100:
        raise MachineryError(f"vacuous tensor replay: {rp.count}")
    rp.emit_samples()
    rep.part("replay", **{k: v for k, v in rp.count.items() if k != "sizes"}, group_sizes={str(k): v for k, v in sorted(rp.count["sizes"].items())})
    rep.part("order_info", **rp.info, note="information only: the property fixes neither the order of PointGroup.symmetries nor the order / representatives of the star")

    # -------- side models
    lap("tensors_replayed")
    st_l = f_loop.result()
    ftable.spec_violation(rep, st_l, "c09_loop")
    tlc.check_not_vacuous(st_l, ["While", "ForS1End", "ForS2End", "Body", "Check"], "c09_loop")
    rep.add_tlc("c09_loop", st_l)
    st_tr = f_tr.result()
    ftable.spec_violation(rep, st_tr, "c09_transforms")
    rep.add_tlc("c09_transforms", st_tr)
    replay_transforms(rep, st_tr)
    for k, f in f_sens.items():
        s0 = f.result()
        if not s0.get("violation") or s0["violation"][1] not in sens[k][1]:
            raise MachineryError(f"sensitivity self-test failed: variant {k} should violate one of {sorted(sens[k][1])}, TLC says {s0.get('violation')}")
        rep.part("variant_" + k, violated=s0["violation"][1])
    lap("side_models_done")

    # -------- code -> spec : recorded calls validated by TLC; the corrupted copies of the binding self-test ride in the last chunk
    corrupt = []

    def pick(pred, what):
        for x in recs:
            if pred(x):
                return copy.deepcopy(x)
        raise MachineryError(f"binding self-test: no record to corrupt ({what})")
    r = pick(lambda x: x["fn"] == "group" and len(x["out"]) >= 4, "group of >= 4 elements")
    r["out"][1] = dict(r["out"][2])                                       # an element replaced by a copy of another one
    corrupt.append((r, "equals_spec"))
    r = pick(lambda x: x["fn"] == "mul", "mul")
    r["out"]["tr"] = not r["out"]["tr"]
    corrupt.append((r, "equals_spec"))
    r = pick(lambda x: x["fn"] == "star" and len(x["out"]) >= 2, "star of >= 2 points")
    r["out"].append([r["out"][0][0] + r["N"], r["out"][0][1], r["out"][0][2]])
    corrupt.append((r, "each_image_once"))
    r = pick(lambda x: x["fn"] == "act" and x["T"]["rank"] >= 1 and any(x["out"]["re"]), "act")
    j = next(k for k, v in enumerate(r["out"]["re"]) if v)
    r["out"]["re"][j] = -r["out"]["re"][j]
    corrupt.append((r, "equals_spec"))
    r = pick(lambda x: x["fn"] == "rot" and abs(x["n"]) >= 3 and not x["mirror"], "rotation of order >= 3")
    r["n"] = -r["n"]
    r["name"] = ""
    corrupt.append((r, "sense"))
    allrecs = recs + [c[0] for c in corrupt]
    nchunk = 6 if thorough else 2
    bounds = [round(k * len(allrecs) / nchunk) for k in range(nchunk + 1)]
    futs = [pool.submit(ftable.validate_records, "PointGroupAlgRec.tla", REC_CFG, allrecs[bounds[k]:bounds[k + 1]], f"c09_{k}{TAG}") for k in range(nchunk)]
    parts = [f.result() for f in futs]
    pool.shutdown()
    bad = {}
    stv = dict(distinct=0, generated=0, wall_s=0.0, mode="record-validation")
    for k, (stk, badk) in enumerate(parts):
        for key in ("distinct", "generated", "wall_s"):
            stv[key] += stk[key]
        bad.update({bounds[k] + i: c for i, c in badk.items()})
    rep.add_tlc("c09_records", stv)
    rep.add_traces(len(recs))
    rep.part("records", **classes)
    for i, clauses in sorted(bad.items()):
        if i < len(recs):
            rep.violation(record_site(recs[i]) + ":recorded", dict(record=recs[i], failing_clauses=clauses))
    s_ = next((x for x in recs if x["fn"] == "actlaw" and x["T"]["rank"] == 1), None)
    if s_ is not None:
        rep.sample(s_)
    for n, (c, clause) in enumerate(corrupt):
        if clause not in bad.get(len(recs) + n, []) and not rep.violations:     # (with findings the corrupted copy of a wrong record may be right)
            raise MachineryError(f"binding self-test failed: corrupted {c['fn']} record accepted (clauses {bad.get(len(recs) + n)})")
    lap("records_validated")
    if skipped or rp.skipped:
        rep.part("skipped_private", **{k.replace(" ", "_"): v for k, v in {**skipped, **rp.skipped}.items()})
    rep.part("timing_s", **timing, tlc_wall={k: v.get("wall_s") for k, v in rep.parts.items() if isinstance(v, dict) and "wall_s" in v})
    rep.part("binding_selftest", corrupted_records_rejected={corrupt[n][0]["fn"]: bad.get(len(recs) + n) for n in range(len(corrupt))})
    return rep.finish()
