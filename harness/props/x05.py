"""X05 (extension): execution environment decision tables - parallel.py, utils/cluster.py, option handling of run().

spec  : ExecEnv.tla - A: get_ray_runtime_env / ray_init / ray_init_cluster / ray_shutdown / check_ray_initialized /
        get_ray_cpus_count and run(parallel=...) as operators on a world (ray importable?, session up?, CPUs, environment
        variables of the batch script) returning the calls that reach the ray module; B: utils/cluster.py main() as a
        function from the parsed arguments to the essential token table of the slurm / pbs script, the submit command and
        the refusals, with the requirements on such a script stated independently (ScriptClauses); C: the option
        handling of run() before the first K-point (RunOptions) with the documented laws (RunLaws).
        MC_ExecEnv.tla - Part "ray" (session machine over all call sequences up to MAXLEN), "envtab", "cluster", "runopts"
        (function tables); Variant selects must-fail switch sets.  ExecEnvRec.tla - record validation.
bind  : spec -> code: every behaviour of the session machine is executed on the real functions against a recording double
        installed as sys.modules['ray'] (never a real cluster) and the results (status, return value, the init / shutdown
        calls with their keyword arguments and runtime_env, session state, put / task / in-process evaluation counts of
        run()) are compared exactly; every get_ray_runtime_env state; every cluster state is run through the real main()
        (clock and subprocess doubled, scratch directory) and its simple facts compared exactly, the token table of the real
        script goes to TLC; run() option states are executed on a 1-band chain with a counting calculator.
        code -> spec: seeded random calls / sessions / argument lists / option sets are recorded and every clause is
        evaluated by TLC (ExecEnvRec); corrupted records must be rejected.
"""
import copy
import os
import random
import shutil
import sys
import zlib
from concurrent.futures import ThreadPoolExecutor

from .. import tlc, ftable
from ..common import Report, MachineryError, seed, WORK, quiet

PROPS = {
    "X05": dict(level="model_checking",
                technique="TLC exhaustive on ExecEnv.tla (MC_ExecEnv: ray session machine over every call sequence up to the bound from every world; "
                          "function tables of get_ray_runtime_env, of utils/cluster.py main() and of the option handling of run()) + replay of every "
                          "behaviour / table row on the real functions against a recording ray double, doubled clock and subprocess + TLC validation "
                          "of recorded real calls, sessions, generated batch scripts (token tables) and run() option sets (ExecEnvRec)",
                text="A (parallel.py): TLC checks on every sequence of <= 2 (thorough 3) calls of ray_init / ray_init_cluster / ray_shutdown / "
                     "check_ray_initialized / get_ray_cpus_count / run(parallel) / the user's own ray.init, from worlds with and without an importable "
                     "ray and with the batch script's environment variables set, unset or partly set: init and shutdown reach the ray module strictly "
                     "alternating, a live session is left alone, ray_shutdown is idempotent, ray_init passes its keyword arguments on unchanged with "
                     "the runtime_env of get_ray_runtime_env (laws: idempotent, the checkout exactly once, given modules and keys kept, off = identity, "
                     "argument not mutated), ray_init_cluster lets the caller's options win over the defaults taken from ip_head / redis_password and "
                     "needs the environment only for options not given, queries tell the truth, run() uses remote execution only with parallel=True "
                     "and a live session (4 puts, one task per K-point) and otherwise touches no put / remote / wait / get, every K-point evaluated "
                     "exactly once. B (utils/cluster.py): for every argument combination of the catalogue the essential token table of the script "
                     "satisfies: shebang first, directives of the right system before the first command, required directives with the values given, "
                     "exactly one head start in the background followed by sleep(sleep_head), workers after the head each followed by "
                     "sleep(sleep_worker), the same password and --num-cpus on head and workers, redis_password and ip_head assigned and exported "
                     "before the user's command (the variables ray_init_cluster reads), the command last, the environment line between directives "
                     "and head, nothing unreplaced, the spilling option valid JSON naming the directory, submit command sbatch/qsub iff --submit, "
                     "unknown batch systems and incomplete argument lists refused without writing anything. C (run()): refusals (incompatible "
                     "calculators, restart without restart files) before any K-point and without touching the directory, use_irred_kpt forces "
                     "symmetrize, a Path never symmetrizes or stores, dump_results implies allow_restart, the restart directory is re-created iff "
                     "something is stored and restart=False, adpt_mesh <= 1 / None means no refinement, negative adpt_num_iter follows the formula, "
                     "one result file set per iteration with fout_name / suffix, file_Klist_path=None means _tmp_wb. Every behaviour / row is executed "
                     "on the real code and compared exactly; recorded random calls are validated clause by clause by TLC.",
                note="never starts ray: sys.modules['ray'] is a recording double (or None = not installed); clock and subprocess of cluster.py are doubled; "
                     "warnings, exception classes, the literal token table (info_table_equals_spec), echo lines / comments / host discovery boilerplate "
                     "of the scripts, the number of is_initialized / cluster_resources queries are information; exclusions (named predicates): "
                     "RoundTie, ClusterNeedsRay, ExtInitAllowed, NegIterTie, NegIterNoMesh, PathRefine, PathRestart; placeholders inside user "
                     "arguments are not modelled",
                ref="DESIGN.md 10.9"),
}

RAY_INVS = ["LogIsHistory", "LogWellBracketed", "NotInstalledNoCalls", "ShutdownIdempotent", "LiveSessionKept", "InitPassesKwargs", "MissingModule",
            "ClusterOptions", "QueriesTruthful", "RunParallelOnlyWithRay"]
INVS = dict(ray=RAY_INVS, envtab=["EnvLawsHold"], cluster=["ScriptOK"], runopts=["RunLawsHold"])
# variant -> (part, MAXLEN, invariants one of which must be violated)
VARIANTS = {
    "no_shutdown_guard": ("ray", 2, ["LogWellBracketed", "ShutdownIdempotent"]),
    "no_init_guard": ("ray", 2, ["LogWellBracketed", "LiveSessionKept"]),
    "defaults_win": ("ray", 1, ["ClusterOptions"]),
    "run_ignores_ray": ("ray", 1, ["RunParallelOnlyWithRay"]),
    "no_dedup": ("envtab", 2, ["EnvLawsHold"]),
    "raw_quoting": ("cluster", 1, ["ScriptOK"]),
    "head_blocks": ("cluster", 1, ["ScriptOK"]),
    "sleeps_swapped": ("cluster", 1, ["ScriptOK"]),
    "workers_without_cpus": ("cluster", 1, ["ScriptOK"]),
    "env_first": ("cluster", 1, ["ScriptOK"]),
    "irred_not_forcing": ("runopts", 1, ["RunLawsHold"]),
    "dump_not_forcing": ("runopts", 1, ["RunLawsHold"]),
    "path_stores": ("runopts", 1, ["RunLawsHold"]),
}
QUICK_VARIANTS = ["no_shutdown_guard", "no_dedup", "raw_quoting", "head_blocks", "irred_not_forcing"]
INFO = {}
SKIPPED = {}


def info(key, n=1):
    INFO[key] = INFO.get(key, 0) + n


def skipped_private(what, why=""):
    SKIPPED[what] = str(why)[:160]


def cfg(part, maxlen, variant="good", size="quick", invs=None):
    return (f'SPECIFICATION Spec\nCONSTANTS\n  Part = "{part}"\n  MAXLEN = {maxlen}\n  Variant = "{variant}"\n  Size = "{size}"\n'
            + "".join(f"INVARIANT {i}\n" for i in (invs if invs is not None else INVS[part])) + "CHECK_DEADLOCK FALSE\n")


def stable(obj, m):
    return zlib.crc32(repr(obj).encode()) % m


def cpu():
    t = os.times()
    return t.user + t.system + t.children_user + t.children_system


def sorted_states(st, pred):
    out = [s for s in ftable.dump_states(st) if pred(s)]
    out.sort(key=lambda s: repr(sorted(s.items(), key=lambda kv: kv[0])))
    return out


def from_package(ex):
    from ..main import raised_by_code_under_test
    return raised_by_code_under_test(ex)


# ------------------------------------------------------------------------------------------------ A: sessions
class Session:
    """one world + the real parallel.py functions"""

    def __init__(self, P, runworld, world):
        from . import _x05_world as XW
        self.XW, self.P, self.rw = XW, P, runworld
        self.world = world
        self.W = XW.ray_world(world["installed"], world["ipHead"], world["redis"])

    def __enter__(self):
        self.W.__enter__()
        return self

    def __exit__(self, *a):
        return self.W.__exit__(*a)

    def step(self, d, nk=3):
        """-> dict(d, res, up, mutated, exc)"""
        XW, P, W = self.XW, self.P, self.W
        fake = W.fake
        n0 = len(fake.log) if fake else 0
        kw = {k: XW.val_to_py(v) for k, v in d["kw"]}
        env_py = XW.env_to_py(d["env"])
        before = copy.deepcopy(env_py)
        if env_py is not None:
            kw["runtime_env"] = env_py
        status, ret, exc = "ok", "None", ""
        puts = tasks = serial = 0
        import warnings
        with quiet(), warnings.catch_warnings(record=True) as wl:
            warnings.simplefilter("always")
            try:
                act = d["act"]
                if act == "ray_init":
                    r = P.ray_init(ignore_missing="ignore_missing" in d["flags"], use_current_checkout="ucc" in d["flags"], **kw)
                    ret = str(r)
                elif act == "ray_init_cluster":
                    r = P.ray_init_cluster(num_cpus=XW.val_to_py(d["num"]), ignore_initialized="ignore_initialized" in d["flags"],
                                           use_current_checkout="ucc" in d["flags"], **kw)
                    ret = str(r)
                elif act == "ray_shutdown":
                    ret = str(P.ray_shutdown())
                elif act == "check_ray_initialized":
                    ret = str(bool(P.check_ray_initialized()))
                elif act == "get_ray_cpus_count":
                    ret = str(int(P.get_ray_cpus_count()))
                elif act == "ext_init":
                    fake.init()
                    fake.cpu = int(d["num"]) / 10.0
                elif act == "run":
                    par = {"True": True, "False": False}.get(d["par"], 1)
                    if fake is not None:
                        fake.nput = fake.ndecor = fake.ntasks = 0
                    grid = self.rw.grid("grid", 4)
                    ex = self.rw.run(grid, self.rw.calculators("both"), parallel=par, use_irred_kpt=True)
                    if ex is not None:
                        raise ex
                    puts = fake.nput if fake else 0
                    tasks = len(self.rw.task_evals)
                    serial = len(self.rw.serial_evals)
                    eff = bool(fake is not None and (fake.ndecor > 0 or fake.ntasks > 0))
                    ret = str(eff)
                    if len(set(self.rw.task_evals + self.rw.serial_evals)) != tasks + serial or (fake is not None and fake.ntasks != tasks):
                        tasks += 1000        # a K-point evaluated twice / submitted and never evaluated: the counting law must fail
                else:
                    raise MachineryError(f"unknown action {act}")
            except MachineryError:
                raise
            except Exception as ex:
                status, exc = "raises", f"{type(ex).__name__}: {str(ex)[:100]}"
                self.last_exception = ex
        calls = [XW.call_of_py(c) for c in (fake.log[n0:] if fake else [])]
        res = dict(status=status, ret=ret if status == "ok" else "None", warned=len(wl) > 0, calls=calls, puts=puts, tasks=tasks, serial=serial)
        return dict(d=d, res=res, up=W.up, mutated=env_py != before, exc=exc)


def compare_step(rep, vio, got, exp_res, exp_up, where):
    """exact comparison of one executed call with the specification's result"""
    act = got["d"]["act"]
    g = got["res"]
    ok = True
    if g["status"] != exp_res["status"]:
        if g["status"] == "raises" and getattr(where.get("session"), "last_exception", None) is not None:
            ex = where["session"].last_exception
            if from_package(ex) is None and isinstance(ex, (TypeError, AttributeError)) and "double" not in str(ex):
                skipped_private(f"parallel.{act}", got["exc"])
                return False
        vio.violation(f"parallel.{act}:status" if g["status"] == "ok" else f"raises:parallel.{act}:{got['exc'].split(':')[0]}",
                      dict(where["info"], call=got["d"], expected=exp_res["status"], got=g["status"], exception=got["exc"]))
        return False
    for f, key in (("ret", "return_value"), ("calls", "ray_calls"), ("puts", "ray_put"), ("tasks", "remote_tasks"), ("serial", "in_process_evaluations")):
        if g[f] != exp_res[f]:
            vio.violation(f"parallel.{act}:{key}", dict(where["info"], call=got["d"], field=f, expected=exp_res[f], got=g[f]))
            ok = False
    if got["up"] != exp_up:
        vio.violation(f"parallel.{act}:session_state", dict(where["info"], call=got["d"], expected_up=exp_up, got_up=got["up"]))
        ok = False
    if got["mutated"]:
        vio.violation(f"parallel.{act}:argument_mutated", dict(where["info"], call=got["d"]))
        ok = False
    if g["warned"] != exp_res["warned"]:
        info(f"parallel.{act}:warning_differs_from_model")
    return ok


def world_from_tla(w):
    return dict(installed=bool(w["installed"]), ipHead=list(w["ipHead"]), redis=w["redis"])


def replay_ray(rep, vio, st, P, rw, maxlen):
    from . import _x05_world as XW
    counts = {}
    n = 0
    for s in sorted_states(st, lambda s: len(s["hist"]) == maxlen):
        n += 1
        world = world_from_tla(s["w"])
        hist = s["hist"]
        with Session(P, rw, world) as ses:
            for k, h in enumerate(hist):
                d = XW.d_from_tla(h["d"])
                last = k == len(hist) - 1
                if d["act"] == "run" and not last and stable((n, k), 4) != 0:
                    continue          # run() does not change the session: executed when it is the last call (and in a quarter of the others)
                got = ses.step(d)
                cls = f"{d['act']}:{h['res']['status']}:{'up' if h['up'] else 'down'}"
                counts[cls] = counts.get(cls, 0) + 1
                rep.case(("ray", repr(world), repr([XW.d_from_tla(x["d"]) for x in hist[:k + 1]])), nontrivial=True)
                if not compare_step(rep, vio, got, XW.res_from_tla(h["res"]), bool(h["up"]), dict(session=ses, info=dict(world=world, step=k + 1, calls_before=[x["d"]["act"] for x in hist[:k]]))):
                    break
        if n <= 1:
            rep.sample(dict(world=world, calls=[XW.d_from_tla(h["d"]) for h in hist], results=[XW.res_from_tla(h["res"]) for h in hist]))
    return counts, n


def replay_env(rep, vio, st, P):
    from . import _x05_world as XW
    counts = {}
    for s in sorted_states(st, lambda s: s["pc"] == "done"):
        e, ucc = XW.env_from_tla(s["inp"]["e"]), bool(s["inp"]["ucc"])
        arg = XW.env_to_py(e)
        before = copy.deepcopy(arg)
        try:
            r = P.get_ray_runtime_env(arg, use_current_checkout=ucc)
        except Exception as ex:
            vio.violation(f"raises:parallel.get_ray_runtime_env:{type(ex).__name__}", dict(runtime_env=before, use_current_checkout=ucc, error=str(ex)[:200]))
            continue
        rep.case(("env", repr(e), ucc), nontrivial=e["given"])
        cls = f"ucc={ucc}:" + ("none" if not e["given"] else "has_checkout" if XW.PKG_TOKEN in e["pym"] else "without_checkout")
        counts[cls] = counts.get(cls, 0) + 1
        got, exp = XW.norm_env(XW.env_of_py(r)), XW.norm_env(XW.env_from_tla(s["out"]["g"]))
        if got != exp:
            vio.violation("parallel.get_ray_runtime_env:result", dict(runtime_env=before, use_current_checkout=ucc, expected=exp, got=got))
        if arg != before:
            vio.violation("parallel.get_ray_runtime_env:argument_mutated", dict(runtime_env=before, after=arg, use_current_checkout=ucc))
        if r is not None and r is arg:
            info("get_ray_runtime_env:returns_the_argument_itself")
    return counts


# ------------------------------------------------------------------------------------------------ B: cluster
SLEEP_TEXT = {3000: ["30", "30.0", "30.00"], 1234: ["12.34"], 500: ["5", "5.0"], 250: ["2.5"], 6000: ["60"], 75: ["0.75", ".75"]}


def a_from_tla(a):
    return dict(bs=a["bs"], exp=a["exp"], nodes=a["nodes"], node=a["node"], cpus=a["cpus"], gpus=a["gpus"], partition=a["partition"],
                loadenv=list(a["loadenv"]), command=list(a["command"]), sleeph=list(a["sleeph"]), sleepw=list(a["sleepw"]), spill=a["spill"],
                submit=bool(a["submit"]), missing=sorted(a["missing"]))


def run_cluster(drv, a, rng):
    from . import _x05_world as XW
    argv = XW.build_argv(a, rng, lambda c: rng.choice(SLEEP_TEXT[c]))
    R, exc = drv.main(argv, a)
    return argv, R, exc


def spill_parses(tokens, directory):
    """mirror of ExecEnv.ParseSpill for the exact replay comparison (TLC evaluates the clause on the records)"""
    pre = ["{", "Q", "object_spilling_config", "Q", ":", "Q"]
    if tokens[:6] != pre or "Q" not in tokens[6:]:
        return False
    rest = tokens[6:]
    c = rest.index("Q")
    inner = ["Q" if t == "BQ" else t for t in rest[:c]]
    want = ["{", "Q", "type", "Q", ":", "Q", "filesystem", "Q", ",", "Q", "params", "Q", ":", "{", "Q", "directory_path", "Q", ":", "Q", directory, "Q", "}", "}"]
    return rest[c + 1:] == ["}"] and inner == want


def replay_cluster(rep, vio, st, drv, rng):
    counts, recs = {}, []
    for s in sorted_states(st, lambda s: s["pc"] == "done"):
        a = a_from_tla(s["inp"])
        exp = s["out"]["r"]
        argv, R, exc = run_cluster(drv, a, rng)
        rep.case(("cluster", repr(a)), nontrivial=True)
        cls = f"{a['bs'].lower()}:{exp['status']}"
        for c in (cls, f"spill={bool(a['spill'])}", f"submit={a['submit']}", f"cpus={a['cpus'] != 'None'}", f"gpus={a['gpus'] != '0'}", f"node={bool(a['node'])}"):
            counts[c] = counts.get(c, 0) + 1
        det = dict(argv=argv, exception=exc)
        if R["status"] != exp["status"]:
            vio.violation(f"cluster.main:status:{exp['status']}_expected", dict(det, expected=exp["status"], got=R["status"]))
            continue
        if exp["status"] != "ok":
            if R["nfiles"] != 0 or R["popen"]:
                vio.violation("cluster.main:refusal_leaves_files", dict(det, files=R["nfiles"], popen=R["popen"]))
            recs.append(dict(kind="cluster", a=a, R=R))
            continue
        if R["popen"] != [list(p) for p in exp["popen"]]:
            vio.violation("cluster.main:submit", dict(det, expected=[list(p) for p in exp["popen"]], got=R["popen"]))
        if R["fname"] != exp["fname"] or R["nfiles"] != 1:
            vio.violation("cluster.main:script_file", dict(det, expected=exp["fname"], got=R["fname"], files=R["nfiles"]))
        if not R["same"]:
            vio.violation("cluster.main:returned_text_is_not_the_file", det)
        if sorted(v for _, v in R["sleeps"]) != sorted(int(v) for _, v in exp["sleeps"]):
            vio.violation("cluster.main:sleep_values", dict(det, expected=[int(v) for _, v in exp["sleeps"]], got=[v for _, v in R["sleeps"]]))
        if a["spill"] and not spill_parses(R["spill"], a["spill"]):
            vio.violation("cluster.main:spilling:system_config_not_json", dict(det, spilling_directory=a["spill"], lexed_argument=R["spill"],
                                                                              expected="a JSON object whose object_spilling_config is a JSON string holding "
                                                                                       "{type: filesystem, params: {directory_path: <dir>}} (inner quotes escaped)"))
        def plain(t):
            return [[w for w in l if not w.startswith("--system-config")] for l in t]
        info("cluster:token_table_as_transcribed" if plain(R["table"]) == plain(exp["table"]) else "cluster:token_table_differs_from_transcription")
        recs.append(dict(kind="cluster", a=a, R=R))
        if len(rep.cov["samples"]) < 3 and a["spill"] and a["bs"] == "pbs":
            rep.sample(dict(argv=argv, essential_table=R["table"][:8], sleeps=R["sleeps"]))
    return counts, recs


# ------------------------------------------------------------------------------------------------ C: run options
def o_from_tla(o):
    return dict(grid=o["grid"], calcs=o["calcs"], irred=bool(o["irred"]), sym=bool(o["sym"]), restart=bool(o["restart"]), allow=bool(o["allow"]),
                dump=bool(o["dump"]), niter=int(o["niter"]), fac=int(o["fac"]), mesh=[int(x) for x in o["mesh"]], meshInt=bool(o["meshInt"]),
                dir=o["dir"], klpath=o["klpath"], nkfull=int(o["nkfull"]), nkirr=int(o["nkirr"]), pdiv=int(o["pdiv"]))


class RunDriver:
    def __init__(self, rw, wd):
        self.rw, self.wd, self.n = rw, wd, 0
        self.proto = {}

    def prototype(self, n, irred):
        """a directory left by run(allow_restart=True, adpt_num_iter=0) on the n-point grid"""
        key = (n, irred)
        if key not in self.proto:
            d = os.path.join(self.wd, f"proto_{n}_{int(irred)}")
            shutil.rmtree(d, ignore_errors=True)
            ex = self.rw.run(self.rw.grid("grid", n), self.rw.calculators("both"), parallel=False, use_irred_kpt=irred, allow_restart=True,
                             adpt_num_iter=0, file_Klist_path=d)
            if ex is not None or not os.path.exists(os.path.join(d, "K_list.pickle")):
                raise MachineryError(f"cannot prepare a restart directory: {ex}")
            self.proto[key] = d
        return self.proto[key]

    def execute(self, o, n=4, fout="res", suffix="sfx", klist_part=10):
        """-> (observed r, exception text, keyword arguments)"""
        from . import _x05_world as XW
        self.n += 1
        cwd0 = os.getcwd()
        d = os.path.join(self.wd, f"r{self.n}")
        os.makedirs(d, exist_ok=True)
        kdir = os.path.join(d, "_tmp_wb") if o["klpath"] == "None" else os.path.join(d, "kk")
        if o["dir"] == "restartable":
            shutil.copytree(self.prototype(n, o["irred"]), kdir)
        elif o["dir"] == "stale":
            os.makedirs(kdir)
        marker = os.path.join(kdir, "foreign.txt")
        if o["dir"] != "absent":
            with open(marker, "w") as f:
                f.write("not a file of run()\n")
        kw = dict(parallel=False, use_irred_kpt=o["irred"], symmetrize=o["sym"], restart=o["restart"], allow_restart=o["allow"], dump_results=o["dump"],
                  adpt_num_iter=o["niter"], adpt_fac=o["fac"], adpt_mesh=XW.mesh_to_py(o["mesh"], o["meshInt"]), fout_name=fout, suffix=suffix,
                  Klist_part=klist_part)
        if o["klpath"] != "None":
            kw["file_Klist_path"] = kdir
        os.chdir(d)
        try:
            ex = self.rw.run(self.rw.grid(o["grid"], n), self.rw.calculators(o["calcs"]), **kw)
        finally:
            os.chdir(cwd0)
        rw = self.rw
        saved_ok = all(p == fout and s == suffix for p, s, _ in rw.saved)
        saved = [int(i) for _, _, i in rw.saved]
        total = len(rw.serial_evals) + len(rw.task_evals)
        if rw.pmarks:                      # evaluations / symmetrize calls of the first process() call
            ev0, sy0 = rw.pmarks[0]
        elif not o["restart"]:
            ev0, sy0 = rw.marks[0] if rw.marks else (total, rw.symcalls)
        else:
            ev0, sy0 = (0, 0) if total == 0 else (-1, -1)
        r = dict(status="ok" if ex is None else "refused", saved=sorted(saved), saved_names_ok=saved_ok, evals0=ev0, symcalls0=sy0, total=total,
                 marker=os.path.exists(marker), pickle=os.path.exists(os.path.join(kdir, "K_list.pickle")),
                 kpfiles=bool([f for f in (os.listdir(kdir) if os.path.isdir(kdir) else []) if f.startswith("_Kp-")]), dirExists=os.path.isdir(kdir),
                 stray=sorted(x for x in os.listdir(d) if x not in (os.path.basename(kdir),)))
        self.last_exception = ex
        shutil.rmtree(d, ignore_errors=True)
        return r, ("" if ex is None else f"{type(ex).__name__}: {str(ex)[:100]}"), kw


def to_run_record(o, r, exp=None):
    """observed values -> the record RunLaws is evaluated on.  sym / allow / dump / niter / diract are derived from what was observed
    (symmetrize calls, files, result files); a value that cannot be observed in that run (symmetrize when nothing was evaluated, the
    storage flags of a restarted run) is set to what the options ask for, which makes the clauses about it trivially true."""
    ok = r["status"] == "ok"
    grid = o["grid"] != "path"
    niter = max((len(r["saved"]) if o["restart"] else len(r["saved"]) - 1), 0) if ok else 0
    ev0 = r["evals0"] if r["evals0"] >= 0 else 0
    sy0 = r["symcalls0"] if r["evals0"] >= 0 else 0
    existed = o["dir"] != "absent"
    recreated = (existed and not r["marker"]) or (not existed and r["dirExists"])
    if not ok:
        return dict(status="refused", sym=False, allow=False, dump=False, niter=0, saved=r["saved"], evals0=r["total"], symcalls0=0,
                    diract="recreate" if recreated else "none", marker=r["marker"], pickle=r["pickle"], kpfiles=r["kpfiles"], dirExists=r["dirExists"])
    sym = (sy0 > 0) if ev0 > 0 else (grid and (o["sym"] or o["irred"]))
    if o["restart"]:
        allow = grid and (o["allow"] or o["dump"])
        dump = r["kpfiles"] if niter > 0 else (grid and o["dump"])
    else:
        allow = bool(r["pickle"] and recreated)
        dump = bool(r["kpfiles"] and recreated)
    return dict(status="ok", sym=bool(sym), allow=bool(allow), dump=bool(dump), niter=niter, saved=r["saved"], evals0=ev0, symcalls0=sy0,
                diract="read" if o["restart"] else ("recreate" if recreated else "none"),
                marker=r["marker"], pickle=r["pickle"], kpfiles=r["kpfiles"], dirExists=r["dirExists"])


def compare_run(vio, o, r, exc, exp, kw, drv):
    """exact comparison of the observables with the specification's row"""
    cls = f"{o['grid']}:{'restart' if o['restart'] else 'fresh'}"
    det = dict(options={k: (v if not hasattr(v, 'tolist') else v.tolist()) for k, v in kw.items()}, grid=o["grid"], calculators=o["calcs"], directory_before=o["dir"], exception=exc)
    if r["status"] != exp["status"]:
        if r["status"] == "refused":
            ex = drv.last_exception
            if from_package(ex) is None and isinstance(ex, TypeError) and "unexpected keyword" in str(ex):
                skipped_private("run() keyword", exc)
                return
            vio.violation(f"raises:run:{exc.split(':')[0]}", dict(det, expected="the run goes through"))
        else:
            vio.violation(f"run:accepted:{'incompatible_calculator' if o['calcs'] != 'both' and not o['restart'] else 'restart_without_files'}", dict(det, expected="refused before any K-point"))
        return
    if exp["status"] == "refused":
        if r["total"] != 0:
            vio.violation("run:refusal_after_evaluation", dict(det, evaluations=r["total"]))
        if r["marker"] != bool(exp["marker"]) or r["dirExists"] != bool(exp["dirExists"]) or r["saved"]:
            vio.violation("run:refusal_touches_files", dict(det, marker_survives=r["marker"], directory_exists=r["dirExists"], saved=r["saved"]))
        return
    if r["saved"] != sorted(int(x) for x in exp["saved"]) or not r["saved_names_ok"]:
        vio.violation(f"run:iterations_saved:{cls}", dict(det, expected=sorted(int(x) for x in exp["saved"]), got=r["saved"], names_ok=r["saved_names_ok"]))
    if r["evals0"] >= 0 and r["evals0"] != int(exp["evals0"]):
        vio.violation(f"run:first_iteration_evaluations:{cls}", dict(det, expected=int(exp["evals0"]), got=r["evals0"]))
    if r["symcalls0"] >= 0 and r["symcalls0"] != int(exp["symcalls0"]):
        vio.violation(f"run:symmetrize:{cls}", dict(det, expected_calls=int(exp["symcalls0"]), got=r["symcalls0"], note="use_irred_kpt forces symmetrize on a grid, a path never symmetrizes"))
    for f, key in (("marker", "directory_cleared"), ("pickle", "restart_file"), ("kpfiles", "dumped_results"), ("dirExists", "directory")):
        if r[f] != bool(exp[f]):
            vio.violation(f"run:{key}:{cls}", dict(det, what=f, expected=bool(exp[f]), got=r[f]))
    if r["stray"] and o["klpath"] != "None" and "_tmp_wb" in r["stray"]:
        vio.violation("run:file_Klist_path_ignored", dict(det, found=r["stray"]))


def replay_run(rep, vio, st, drv, rng, limit):
    states = sorted_states(st, lambda s: s["pc"] == "done")
    classes = {}
    for s in states:
        o = s["inp"]
        classes.setdefault((o["grid"], o["calcs"], bool(o["restart"]), o["dir"], s["out"]["r"]["status"], bool(o["dump"]), bool(o["allow"])), []).append(s)
    chosen = []
    if limit is None or limit >= len(states):
        chosen = states
    else:
        for k in sorted(classes, key=repr):          # every class at least once, then a seeded sample
            chosen.append(classes[k][rng.randrange(len(classes[k]))])
        rest = [s for s in states if all(s is not c for c in chosen)]
        chosen += rng.sample(rest, max(0, min(len(rest), limit - len(chosen))))
    counts, recs = {}, []
    for s in chosen:
        o = o_from_tla(s["inp"])
        exp = s["out"]["r"]
        try:
            r, exc, kw = drv.execute(o)
        except Exception as ex:
            if type(ex).__name__ == "PrivateGone":
                skipped_private("run() observation", ex)
                return counts, recs
            raise
        rep.case(("run", repr(o)), nontrivial=True)
        for c in (f"{o['grid']}:{exp['status']}", f"restart={o['restart']}:{o['dir']}", f"store={bool(exp['allow'])}:{bool(exp['dump'])}", f"iter={'neg' if o['niter'] < 0 else 'pos' if o['niter'] else 0}",
                  f"mesh={'none' if not o['mesh'] else max(o['mesh'])}", f"sym={bool(exp['sym'])}"):
            counts[c] = counts.get(c, 0) + 1
        compare_run(vio, o, r, exc, exp, kw, drv)
        if len(recs) < 400:
            recs.append(dict(kind="runopts", o=o, r=to_run_record(o, r, exp)))
    return counts, recs


# ------------------------------------------------------------------------------------------------ random records
def random_env(rng):
    from . import _x05_world as XW
    if rng.random() < 0.15:
        return dict(given=False, pymGiven=False, pym=[], other=[])
    pg = rng.random() < 0.75
    pym = [rng.choice(["/opt/mod", XW.PKG_TOKEN, "b", "/x/y", "c"]) for _ in range(rng.randint(0, 5))] if pg else []
    return dict(given=True, pymGiven=pg, pym=pym, other=sorted(rng.sample(["pip", "env_vars", "working_dir"], rng.randint(0, 3))))


def random_d(rng):
    act = rng.choice(["ray_init", "ray_init", "ray_init_cluster", "ray_init_cluster", "ray_shutdown", "ray_shutdown", "check_ray_initialized",
                      "get_ray_cpus_count", "run", "ext_init"])
    d = dict(act=act, kw=[], env=dict(given=False, pymGiven=False, pym=[], other=[]), flags=[], num="None", par="")
    if act == "ray_init":
        d["kw"] = sorted([k, v] for k, v in rng.sample([("num_cpus", rng.choice(["2", "4"])), ("num_gpus", "0"), ("include_dashboard", "False"), ("_temp_dir", "/scratch/r")], rng.randint(0, 3)))
        d["env"] = random_env(rng)
        d["flags"] = sorted(f for f in ("ignore_missing", "ucc") if rng.random() < 0.6)
    elif act == "ray_init_cluster":
        d["kw"] = sorted([k, v] for k, v in rng.sample([("address", rng.choice(["None", "10.2.2.2:6379"])), ("_node_ip_address", "10.3.3.3"), ("_redis_password", "pw9"), ("num_gpus", "0"), ("_temp_dir", "/scratch/r")], rng.randint(0, 5)))
        d["env"] = random_env(rng)
        d["flags"] = sorted(f for f in ("ignore_initialized", "ucc") if rng.random() < 0.6)
        d["num"] = rng.choice(["None", "2", "4"])
    elif act == "run":
        d["par"] = rng.choice(["True", "True", "False", "1"])
    elif act == "ext_init":
        d["num"] = rng.choice(["36", "44"])
    return d


def record_sessions(rep, vio, P, rw, rng, n):
    recs = []
    for _ in range(n):
        world = dict(installed=rng.random() < 0.8, ipHead=rng.choice([[], ["10.0.0.7", "6379"], ["192.168.1.1", "7000"]]), redis=rng.choice(["", "secret", "x"]))
        if not world["installed"]:
            world.update(ipHead=[], redis="")
        steps = []
        with Session(P, rw, world) as ses:
            for k in range(rng.randint(2, 6)):
                d = random_d(rng)
                if d["act"] == "ray_init_cluster" and not world["installed"]:
                    continue            # ClusterNeedsRay
                if d["act"] == "ext_init" and (not world["installed"] or ses.W.up):
                    continue            # ExtInitAllowed
                got = ses.step(d)
                steps.append(dict(d=d, res=got["res"], up=got["up"], mutated=got["mutated"]))
                rep.case(("session", repr(world), repr([s["d"] for s in steps])))
        if steps:
            recs.append(dict(kind="ray", world=world, nk=3, steps=steps))
    return recs


def record_envs(rep, P, rng, n):
    from . import _x05_world as XW
    recs = []
    for _ in range(n):
        e, ucc = random_env(rng), rng.random() < 0.6
        arg = XW.env_to_py(e)
        before = copy.deepcopy(arg)
        try:
            g = P.get_ray_runtime_env(arg, use_current_checkout=ucc)
            g2 = P.get_ray_runtime_env(copy.deepcopy(g), use_current_checkout=ucc)
        except Exception as ex:
            rep.violation(f"raises:parallel.get_ray_runtime_env:{type(ex).__name__}", dict(runtime_env=before, use_current_checkout=ucc, error=str(ex)[:200]))
            continue
        recs.append(dict(kind="env", e=e, ucc=ucc, g=XW.env_of_py(g), g2=XW.env_of_py(g2), mutated=arg != before))
        rep.case(("envrec", repr(e), ucc))
    return recs


def record_cluster(rep, drv, rng, n):
    recs = []
    for _ in range(n):
        sh, sw = rng.choice([3000, 1234, 6000, 250]), rng.choice([500, 250, 75, 1234])
        a = dict(bs=rng.choice(["slurm", "pbs", "Slurm", "PBS", "sge"]), exp=rng.choice(["job1", "wb-2nodes", "my_first_job"]), nodes=str(rng.choice([1, 2, 3, 16])),
                 node=rng.choice(["", "", "cn07"]), cpus=rng.choice(["None", "1", "8", "0"]), gpus=rng.choice(["0", "0", "1", "4"]),
                 partition=rng.choice(["chpc", "cmt", "express"]), loadenv=rng.choice([[], ["conda", "activate", "wb"], ["module", "load", "cuda/10.1"]]),
                 command=rng.choice([["python", "-u", "example.py", "2-nodes"], ["./run.sh"]]), sleeph=[str(sh / 100.0), sh], sleepw=[str(sw / 100.0), sw],
                 spill=rng.choice(["", "", "/tmp/spill", "/scratch/u1/obj"]), submit=rng.random() < 0.4, missing=[])
        argv, R, exc = run_cluster(drv, a, rng)
        recs.append(dict(kind="cluster", a=a, R=R))
        rep.case(("clusterrec", repr(a)))
    return recs


def record_runs(rep, vio, drv, rng, n):
    recs = []
    for _ in range(n):
        ngrid = rng.choice([4, 6, 8])
        grid = rng.choice(["grid", "grid", "path"])
        mesh, mint = rng.choice([([2, 2, 2], True), ([3, 3, 3], True), ([1, 1, 1], True), ([], False), ([2, 1, 1], False), ([2, 1, 2], False), ([1, 1, 1], False)])
        o = dict(grid=grid, calcs=rng.choice(["both", "both", "both", "gridonly", "pathonly", "mixed"]), irred=rng.random() < 0.5, sym=rng.random() < 0.5,
                 restart=rng.random() < 0.3, allow=rng.random() < 0.5, dump=rng.random() < 0.4, niter=rng.choice([0, 0, 1, 2, 3, -1, -2, -3]), fac=rng.choice([1, 1, 2]),
                 mesh=mesh, meshInt=mint, dir=rng.choice(["absent", "stale", "restartable"]), klpath=rng.choice(["None", "given"]),
                 nkfull=1 if grid == "path" else ngrid, nkirr=1 if grid == "path" else ngrid // 2 + 1, pdiv=3 if grid == "path" else ngrid)
        # exclusions of the model (named predicates of ExecEnv.tla)
        if o["niter"] < 0 and not mesh:
            continue                                           # NegIterNoMesh
        prod = mesh[0] if mint else (mesh[0] * mesh[1] * mesh[2] if mesh else 1)
        num, den = -o["niter"] * o["pdiv"], prod * o["fac"] * 3
        if o["niter"] < 0 and (2 * num) % den == 0 and ((2 * num) // den) % 2 == 1:
            continue                                           # NegIterTie
        eff = 0 if (not mesh or max(mesh) <= 1) else (o["niter"] if o["niter"] >= 0 else (2 * num + den) // (2 * den))
        if grid == "path" and (eff > 0 or (o["restart"] and o["dir"] == "restartable")):
            continue                                           # PathRefine, PathRestart
        r, exc, kw = drv.execute(o, n=ngrid, fout=rng.choice(["res", "Fe"]), suffix=rng.choice(["", "run1"]), klist_part=rng.choice([1, 2, 10]))
        if not r["saved_names_ok"]:
            vio.violation("run:result_file_names", dict(options=str(kw), saved=r["saved"]))
        recs.append(dict(kind="runopts", o=o, r=to_run_record(o, r)))
        rep.case(("runrec", repr(o)))
    return recs


def information_probes(rep, drv, P):
    """behaviour nothing documents: reported, never decides"""
    out = {}
    base = dict(grid="grid", calcs="both", irred=True, sym=True, restart=False, allow=False, dump=False, niter=0, fac=1, mesh=[2, 2, 2], meshInt=True, dir="absent",
                klpath="given", nkfull=4, nkirr=3, pdiv=4)
    for name, o, kw in (("negative_adpt_num_iter_without_mesh", dict(base, niter=-1, mesh=[], meshInt=False), {}),
                        ("Klist_part_zero_with_allow_restart", dict(base, allow=True), dict(klist_part=0)),
                        ("Klist_part_negative_with_allow_restart", dict(base, allow=True), dict(klist_part=-1)),
                        ("adpt_fac_zero_refines_every_point", dict(base, niter=1, fac=0), {})):
        try:
            r, exc, _ = drv.execute(o, **kw)
            out[name] = dict(status=r["status"], exception=exc, evaluations_before_the_refusal=r["total"] if r["status"] == "refused" else None,
                             evaluations=r["total"], restart_file=r["pickle"])
        except Exception as ex:
            out[name] = f"probe failed: {type(ex).__name__}"
    rep.part("information_probes", **out)


# ------------------------------------------------------------------------------------------------ check
def check(pid, tier):
    rep = Report(pid, tier, "model_checking")
    tag = f"x05_{os.getpid()}"
    try:
        rc = _check(rep, tier, tag)
    except Exception as ex:
        if rep.violations:
            print(f"[X05] the check stopped early ({type(ex).__name__}: {str(ex)[:300]}); reporting the violations collected so far")
            try:
                return rep.finish()
            except Exception:
                pass
        raise
    if rc == 0:
        import glob
        for d in glob.glob(os.path.join(WORK, "tlc", f"*{tag}*")) + glob.glob(os.path.join(WORK, "records", f"{tag}*")) + [os.path.join(WORK, tag)]:
            shutil.rmtree(d, ignore_errors=True)
    return rc


class Capped:
    def __init__(self, rep, cap=3):
        self.rep, self.cap, self.count = rep, cap, {}

    def violation(self, key, detail):
        self.count[key] = self.count.get(key, 0) + 1
        if self.count[key] <= self.cap:
            self.rep.violation(key, detail)


def _tlc(part, maxlen, variant, size, name, dump):
    st = tlc.run_tlc("MC_ExecEnv.tla", cfg(part, maxlen, variant, size), name, workers=4 if dump else 2, dump=dump, coverage=False, timeout=2400)
    if st.get("timeout"):
        raise MachineryError(f"TLC timed out on {name}")
    if st.get("error") and not st.get("violation"):
        raise MachineryError(f"TLC error on {name}: {st['error'][:600]}")
    return st


def _check(rep, tier, tag):
    thorough = tier == "thorough"
    size = "thorough" if thorough else "quick"
    rng = random.Random(seed() * 7919 + 505)
    vio = Capped(rep)
    t0 = cpu()
    wd = os.path.join(WORK, tag)
    shutil.rmtree(wd, ignore_errors=True)
    os.makedirs(wd, exist_ok=True)
    rep.rule("TLC enumerates (a) every sequence of <= MAXLEN calls of the parallel.py functions / run(parallel) from every world, (b) every runtime_env "
             "with <= MAXLEN py_modules, (c) every argument combination of cluster.py main() in the catalogue, (d) every option combination of run() in "
             "the catalogue; a case = one call (a, b), one main(argv) (c), one run() (d) on the real code, compared exactly with the state; plus "
             "seeded random sessions / environments / argument lists / option sets recorded and validated by TLC; distinct by input")
    rep.assume("the recording double stands for the ray module (init / shutdown / is_initialized / cluster_resources / put / remote / wait / get); "
               "clock and subprocess of cluster.py are doubled; run() is driven on a 1-band chain with inversion, K-point data replaced by a stub")
    maxlen = 3 if thorough else 2
    jobs = [("ray", maxlen, "good", True), ("runopts", 1, "good", True), ("cluster", 1, "good", True), ("envtab", 4 if thorough else 3, "good", True)]
    variants = list(VARIANTS) if thorough else QUICK_VARIANTS
    jobs += [(VARIANTS[v][0], VARIANTS[v][1], v, False) for v in variants]
    pool = ThreadPoolExecutor(max_workers=3)
    futs = {(p, v): pool.submit(_tlc, p, m, v, size, f"{tag}_{p}_{v}", dump) for p, m, v, dump in jobs}
    try:
        # ---- while TLC runs: the real code is loaded and the random records are taken
        import types
        if "ray" not in sys.modules:            # `import wannierberri` must not pull in the real ray
            stub = types.ModuleType("ray")
            stub.is_initialized = lambda: False
            sys.modules["ray"] = stub
            import wannierberri  # noqa: F401
            del sys.modules["ray"]
        import wannierberri.parallel as P
        from . import _x05_world as XW
        saved_ray = sys.modules.get("ray", "absent")
        sys.modules["ray"] = None               # outside a Session no ray module can be imported (run() in serial mode asks get_ray_cpus_count)
        rw = XW.RunWorld()
        recs = []
        recs += record_envs(rep, P, rng, 400 if thorough else 120)
        recs += record_sessions(rep, vio, P, rw, rng, 400 if thorough else 100)
        try:
            cdrv = XW.ClusterDriver(wd)
        except XW.PrivateGone as ex:
            cdrv = None
            skipped_private("cluster driver", ex)
        if cdrv is not None:
            recs += record_cluster(rep, cdrv, rng, 300 if thorough else 60)
        rdrv = RunDriver(rw, wd)
        try:
            recs += record_runs(rep, vio, rdrv, rng, 600 if thorough else 150)
            information_probes(rep, rdrv, P)
        except XW.PrivateGone as ex:
            skipped_private("run() observation", ex)
        # the documented way to call the script generator
        doc = (getattr(cdrv.CL, "__doc__", "") or "") if cdrv is not None else ""
        if "-m wannierberri.cluster" in doc:
            import importlib.util
            try:
                found = importlib.util.find_spec("wannierberri.cluster") is not None
            except (ImportError, ValueError):
                found = False
            if not found:
                vio.violation("cluster:usage:documented_module_missing",
                              dict(documented="python -m wannierberri.cluster --batch-system ... (module docstring of wannierberri/utils/cluster.py, docs/source/docs/parallel.rst)",
                                   got="No module named wannierberri.cluster; the module is wannierberri.utils.cluster"))

        # ---- specification level
        sts = {}
        for (p, v), f in futs.items():
            sts[(p, v)] = f.result()
        for v in variants:
            p, _, expected = VARIANTS[v]
            st = sts[(p, v)]
            if not st.get("violation") or st["violation"][1] not in expected:
                raise MachineryError(f"sensitivity self-test failed: variant {v} of part {p} should violate one of {expected}, TLC says {st.get('violation')} {(st.get('error') or '')[:300]}")
            rep.part(f"x05_variant_{v}", sensitivity_violation=st["violation"][1])
        spec_bad = False
        for p in ("ray", "envtab", "cluster", "runopts"):
            st = sts[(p, "good")]
            spec_bad = ftable.spec_violation(rep, st, f"x05_{p}") or spec_bad
            rep.add_tlc(f"x05_{p}", st)
        if spec_bad:
            return rep.finish()

        # ---- spec -> code
        c_env = replay_env(rep, vio, sts[("envtab", "good")], P)
        c_ray, nb = replay_ray(rep, vio, sts[("ray", "good")], P, rw, maxlen)
        c_cl, cl_recs = replay_cluster(rep, vio, sts[("cluster", "good")], cdrv, rng) if cdrv is not None else ({}, [])
        c_run, run_recs = replay_run(rep, vio, sts[("runopts", "good")], rdrv, rng, 10000 if thorough else 2500) if "run() observation" not in SKIPPED else ({}, [])
        rep.part("replay", behaviours=nb, env=c_env, ray=c_ray, cluster=c_cl, run=c_run)
        need = dict(env=["ucc=True:has_checkout", "ucc=True:without_checkout", "ucc=False:none", "ucc=True:none"],
                    ray=["ray_init:ok:up", "ray_init:raises:down", "ray_init:ok:down", "ray_init_cluster:ok:up", "ray_init_cluster:raises:down", "ray_shutdown:ok:down",
                         "check_ray_initialized:ok:up", "check_ray_initialized:ok:down", "get_ray_cpus_count:ok:up", "run:ok:up", "run:ok:down", "run:raises:down", "ext_init:ok:up"],
                    cluster=["slurm:ok", "pbs:ok", "lsf:refused", "slurm:usage", "spill=True", "submit=True", "cpus=True", "gpus=True", "node=True"],
                    run=["grid:ok", "grid:refused", "path:ok", "path:refused", "restart=True:restartable", "restart=True:absent", "store=True:True", "store=True:False",
                         "store=False:False", "iter=neg", "iter=pos", "mesh=none", "mesh=1", "sym=True", "sym=False"])
        for part, have in (("env", c_env), ("ray", c_ray), ("cluster", c_cl), ("run", c_run)):
            if (part == "cluster" and cdrv is None) or (part == "run" and "run() observation" in SKIPPED):
                continue
            missing = [k for k in need[part] if not have.get(k)]
            if missing and not rep.violations:
                raise MachineryError(f"case classes never occurred in the {part} replay: {missing} ({have})")

        # ---- code -> spec: records + binding self-test
        recs += cl_recs + run_recs
        bad_copies = corrupt(recs, rep)
        stv, bad = ftable.validate_records("ExecEnvRec.tla", ftable.REC_CFG, recs + [b for b, _ in bad_copies], tag, chunk=4000, timeout=2400)
        b2 = {j: bad.pop(len(recs) + j, []) for j in range(len(bad_copies))}
        stv["distinct"] -= len(bad_copies)
        stv["generated"] -= 2 * len(bad_copies)
        rep.add_tlc("x05_records", stv)
        rep.add_traces(len(recs))
        rinfo = {}
        for i, clauses in sorted(bad.items()):
            r = recs[i]
            hard = [c for c in clauses if not c.startswith("info_")]
            for c in clauses:
                if c.startswith("info_"):
                    rinfo[f"{r['kind']}:{c}"] = rinfo.get(f"{r['kind']}:{c}", 0) + 1
            if "in_model" in hard:
                if not rep.violations:
                    raise MachineryError(f"recorded call outside the model: {str(r)[:400]}")
                continue
            for c in hard:
                site = dict(env="parallel.get_ray_runtime_env", ray="parallel.session", cluster="cluster.main", runopts="run")[r["kind"]]
                key = f"{site}:recorded:{c}"
                if r["kind"] == "cluster" and c == "spilling_is_json":
                    key = "cluster.main:spilling:system_config_not_json"
                vio.violation(key, dict(record=r, failing_clauses=hard))
        rep.part("records_info", **rinfo)
        missed = [c for j, (_, c) in enumerate(bad_copies) if c not in b2.get(j, [])]
        if missed and not rep.violations:
            raise MachineryError(f"binding self-test failed: corrupted records accepted (expected failing clauses {missed}, TLC says {b2})")
        rep.part("binding_selftest", corrupted_records_rejected={str(k): v for k, v in b2.items()})
        rep.part("information", **INFO)
        if SKIPPED:
            rep.part("skipped_private", **SKIPPED)
        rep.part("cpu_seconds", total=round(cpu() - t0, 1))
        return rep.finish()
    finally:
        pool.shutdown(wait=True, cancel_futures=True)
        try:
            if saved_ray == "absent":
                sys.modules.pop("ray", None)
            else:
                sys.modules["ray"] = saved_ray
        except NameError:
            pass


def corrupt(recs, rep):
    """corrupted copies of recorded calls that TLC must reject: (record, clause that has to fail)"""
    out = []

    def pick(pred, what):
        for r in recs:
            if pred(r):
                return copy.deepcopy(r)
        if rep.violations:
            return None
        raise MachineryError(f"binding self-test: no record with {what}")
    r = pick(lambda r: r["kind"] == "env" and r["ucc"] and r["g"]["pym"], "a runtime environment with the checkout")
    if r is not None:
        r["g"]["pym"] = [m for m in r["g"]["pym"] if m != "<wannierberri>"]
        out.append((r, "has_checkout"))
    r = pick(lambda r: r["kind"] == "ray" and any(s["d"]["act"] == "ray_shutdown" and s["res"]["calls"] for s in r["steps"]), "a session with an effective ray_shutdown")
    if r is not None:
        for s in r["steps"]:
            if s["d"]["act"] == "ray_shutdown" and s["res"]["calls"]:
                s["res"]["calls"] = s["res"]["calls"] * 2
                break
        out.append((r, "shutdown_idempotent"))
    r = pick(lambda r: r["kind"] == "ray" and any(s["d"]["act"] == "ray_init_cluster" and s["res"]["calls"] and any(k == "address" for k, _ in s["d"]["kw"]) for s in r["steps"]),
             "a session where ray_init_cluster got an address")
    if r is not None:
        for s in r["steps"]:
            if s["d"]["act"] == "ray_init_cluster" and s["res"]["calls"] and any(k == "address" for k, _ in s["d"]["kw"]):
                s["res"]["calls"][0]["kw"] = sorted([k, ("auto" if k == "address" else v)] for k, v in s["res"]["calls"][0]["kw"])
                break
        out.append((r, "cluster_options"))
    r = pick(lambda r: r["kind"] == "cluster" and r["R"]["status"] == "ok" and r["a"]["sleeph"][1] != r["a"]["sleepw"][1], "a script with different sleeps")
    if r is not None:
        r["R"]["sleeps"] = [[l, v] for (l, _), (_, v) in zip(r["R"]["sleeps"], reversed(r["R"]["sleeps"]))]
        out.append((r, "head_then_sleep"))
    r = pick(lambda r: r["kind"] == "cluster" and r["R"]["status"] == "ok", "a script")
    if r is not None:
        r["R"]["table"] = [[w for w in l if not ("--head" in l and w == "&")] for l in r["R"]["table"]]
        out.append((r, "head_in_background"))
    r = pick(lambda r: r["kind"] == "runopts" and r["r"]["status"] == "ok" and r["o"]["grid"] == "grid" and r["o"]["irred"] and r["r"]["evals0"] > 0, "a symmetry-reduced run")
    if r is not None:
        r["r"]["sym"], r["r"]["symcalls0"] = False, 0
        out.append((r, "irred_symmetrizes"))
    r = pick(lambda r: r["kind"] == "runopts" and r["r"]["status"] == "refused", "a refused run")
    if r is not None:
        r["r"]["evals0"] = 2
        out.append((r, "refusal_before_evaluation"))
    return out
