"""Private helpers shared by c22.py (b-vectors) and c31.py (k.p finite differences): rationalisation of float weights,
silencing the library, scratch names that are unique per process, guarded access to private names of the package."""
import io
import os
import shutil
import inspect
import contextlib
from fractions import Fraction

from ..common import WORK

MAXDEN = 10 ** 4
RAT_TOL = 1e-9


def rationalise(w, maxden=MAXDEN, tol=RAT_TOL):
    """float -> (num, den) with den <= maxden, or None when no such fraction is within tol (relative)"""
    f = Fraction(float(w)).limit_denominator(maxden)
    if abs(float(f) - float(w)) <= tol * max(1.0, abs(float(w))):
        return (f.numerator, f.denominator)
    return None


def quiet_call(fn, *a, **kw):
    with contextlib.redirect_stdout(io.StringIO()):
        return fn(*a, **kw)


class Scratch:
    """names for tlc.run_tlc / ftable.validate_records / workdir that are unique per property and process, and their
    removal at the end (several checks may run concurrently)"""

    def __init__(self, pid):
        self.suffix = f"{pid.lower()}_p{os.getpid()}"
        self.names = []

    def name(self, base):
        n = f"{base}_{self.suffix}"
        self.names.append(n)
        return n

    def cleanup(self):
        for n in self.names:
            for sub in ("tlc", "records"):
                shutil.rmtree(os.path.join(WORK, sub, n), ignore_errors=True)
                # validate_records names its TLC runs rec_<name>_<offset>
                d = os.path.join(WORK, "tlc")
                if sub == "records" and os.path.isdir(d):
                    for e in os.listdir(d):
                        if e.startswith(f"rec_{n}_"):
                            shutil.rmtree(os.path.join(d, e), ignore_errors=True)
            shutil.rmtree(os.path.join(WORK, n), ignore_errors=True)


def accepted_kwargs(fn, **kw):
    """the subset of kw that fn accepts by name (a renamed/removed optional argument must not crash the check)"""
    try:
        params = inspect.signature(fn).parameters
    except (TypeError, ValueError):
        return {}
    if any(p.kind == inspect.Parameter.VAR_KEYWORD for p in params.values()):
        return dict(kw)
    return {k: v for k, v in kw.items() if k in params}


class Skipped:
    """bookkeeping of sub-checks that could not be run because a private name of the package is gone / changed shape"""

    def __init__(self):
        self.why = {}

    def add(self, what, ex=None):
        d = self.why.setdefault(what, dict(n=0))
        d["n"] += 1
        if ex is not None and "error" not in d:
            d["error"] = repr(ex)[:160]

    def report(self, rep):
        if self.why:
            rep.part("skipped_private", **self.why)
