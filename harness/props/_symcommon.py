"""helpers shared by c20.py / c21.py: exact numbers of Q(sqrt 3), the OrbRep group models, the SymOrbits structure
models and their realisation as irrep space groups."""
import glob
import math
import os
import shutil
import numpy as np

from .. import ftable, tlc
from ..common import MachineryError, WORK

# ----------------------------------------------------------------------------- scratch names, guarded calls
WORKERS = 4          # TLC workers (the models are small; the box is shared)
_TAG = f"_p{os.getpid()}"


def uniq(name):
    """TLC run / record directory name that is unique per process, so that several checks can run concurrently"""
    return name + _TAG


def cleanup(keep=False):
    """removes this process's TLC / record scratch directories (kept when violations refer to them)"""
    if keep:
        return
    for pat in (os.path.join(WORK, "tlc", f"*{_TAG}*"), os.path.join(WORK, "records", f"*{_TAG}*")):
        for d in glob.glob(pat):
            shutil.rmtree(d, ignore_errors=True)


def library_site(ex):
    """-> "module.function" if the exception was raised inside the wannierberri package, None if the harness (wrong keyword,
    renamed private attribute) or the environment is responsible (same rule as harness/main.py)"""
    from ..main import raised_by_code_under_test
    return raised_by_code_under_test(ex)


def guarded(rep, site, detail, fn, *args, **kwargs):
    """calls the library on an input inside the property's domain -> (ok, value).  An exception raised inside the package is
    a violation `raises:<site>:<ExcType>` (the check continues with the next input); anything raised on the harness side of
    the call (bad keyword, renamed name) propagates and ends as exit 2"""
    try:
        return True, fn(*args, **kwargs)
    except MachineryError:
        raise
    except Exception as ex:
        where = library_site(ex)
        if where is None:
            raise
        rep.violation(f"raises:{site}:{type(ex).__name__}", dict(detail, error=f"{type(ex).__name__}: {ex}"[:400], raised_in=where))
        return False, None


def private(rep, what, fn):
    """evaluates an adapter around private attributes / helpers of the package.  If the name is gone (AttributeError,
    TypeError, KeyError, IndexError raised on the harness side) the sub-check is skipped and recorded in
    rep.part("skipped_private"); -> (ok, value)"""
    try:
        return True, fn()
    except MachineryError:
        raise
    except (AttributeError, TypeError, KeyError, IndexError, ValueError) as ex:
        if library_site(ex) is not None:
            raise
        rep.part("skipped_private", **{what: f"{type(ex).__name__}: {ex}"[:200]})
        return False, None

SQ3 = math.sqrt(3.0)

# ----------------------------------------------------------------------------- numbers (a + b sqrt3)/d


def num(x):
    return (x[0] + x[1] * SQ3) / x[2]


def mat(M):
    return np.array([[num(x) for x in row] for row in M], dtype=float)


_DENS = (1, 2, 3, 4, 6, 8, 12, 16, 24, 32, 48, 64)


def rationalise(x, tol=1e-10, bmax=48):
    """float -> normalised triple (a, b, d) with |x - (a + b sqrt3)/d| < tol, or (0, 0, 0) if there is none"""
    bs = np.arange(-bmax, bmax + 1)
    for d in _DENS:
        y = x * d
        a = np.round(y - bs * SQ3)
        err = np.abs(a + bs * SQ3 - y)
        k = int(np.argmin(err + 1e-13 * np.abs(bs)))
        if err[k] < tol * d and abs(a[k]) <= 4 * bmax:
            aa, bb = int(a[k]), int(bs[k])
            g = math.gcd(math.gcd(abs(aa), abs(bb)), d)
            return (aa // g, bb // g, d // g)
    return (0, 0, 0)


def rat_mat(M, tol=1e-10):
    return [[list(rationalise(float(x), tol)) for x in row] for row in np.asarray(M)]


def bucket(resid):
    """integer bucket of a residual: ceil(log10(resid / 1e-16)) clipped to 0..16"""
    if not np.isfinite(resid):
        return 16
    if resid <= 1e-16:
        return 0
    return int(min(16, max(0, math.ceil(math.log10(resid / 1e-16) - 1e-9))))


# ----------------------------------------------------------------------------- OrbRep group models
ORBREP_INV = ["GroupOrder", "Closed", "IdentityLaw", "Inverses", "LatinSquare", "Associative", "ElemsO3", "ElemsNumbers",
              "RepIdentity", "RepOrthogonal", "RepHomP", "RepHomD", "RepParity", "RepFaithfulP", "Compression", "SubHom",
              "Stabiliser", "FullShells", "RepFrame"]


def orbrep_cfg(group, variant="code", invariants=ORBREP_INV):
    return (f"SPECIFICATION Spec\nCONSTANTS\n  GroupName = \"{group}\"\n  Variant = \"{variant}\"\n" +
            "".join(f"INVARIANT {i}\n" for i in invariants) + "CHECK_DEADLOCK FALSE\n")


def orbrep_group(group, name, workers=WORKERS, variant="code"):
    """runs TLC on MC_OrbRep for one group; returns (stats, final state as dict with 0-based python structures)"""
    st = ftable.enumerate_states("MC_OrbRep.tla", orbrep_cfg(group, variant), name, workers=workers)
    if st.get("violation"):
        return st, None
    tlc.check_not_vacuous(st, ["Gen", "GenDone", "MkTable", "MkReps"], name)
    done = [s for s in ftable.dump_states(st) if s["pc"] == "done"]
    if len(done) != 1:
        raise MachineryError(f"{name}: expected one final state, got {len(done)}")
    s = done[0]
    n = len(s["elems"])
    g = dict(name=group, n=n,
             elems=[mat(e) for e in s["elems"]], elems_exact=s["elems"],
             table=[[s["table"][i][j] - 1 for j in range(n)] for i in range(n)],
             dp=[mat(m) for m in s["dp"]], dd=[mat(m) for m in s["dd"]], dp_exact=s["dp"], dd_exact=s["dd"],
             pres={sh: frozenset(i - 1 for i in v) for sh, v in s["pres"].items()})
    g["inv"] = [g["table"][i].index(0) for i in range(n)]
    return st, g


# the specification's orbital order (OrbRep.tla: PermP, Qd, SubIndex); the code's order is read from the public table
# wannierberri.symmetry.orbitals.orbitals_sets_dic, so that a re-ordering that is visible there is followed, not flagged
SPEC_ORDER = {"s": ["s"], "p": ["pz", "px", "py"], "d": ["dz2", "dxz", "dyz", "dx2-y2", "dxy"]}
SPEC_SUB = {"pz": ("p", [0]), "p2": ("p", [0, 2]), "pxy": ("p", [1, 2]), "t2g": ("d", [1, 2, 4]), "eg": ("d", [3, 0])}     # OrbRep!SubIndex, 0-based
SPEC_BASIS = SPEC_ORDER["s"] + SPEC_ORDER["p"] + SPEC_ORDER["d"]


def code_orbitals(sh):
    from wannierberri.symmetry.orbitals import orbitals_sets_dic
    return list(orbitals_sets_dic[sh])


def spec_indices(sh):
    """(parent, idx): the code's orbitals of shell sh as positions in the specification's parent shell (s, p or d);
    None if the shell is not a plain subset of one of them (f, sqrt2-hybrids)"""
    names = code_orbitals(sh)
    for parent, order in SPEC_ORDER.items():
        if all(n in order for n in names) and len(set(names)) == len(names):
            return parent, [order.index(n) for n in names]
    return None


def _parent_matrix(g, parent, i):
    return np.eye(1) if parent == "s" else (g["dp"][i] if parent == "p" else g["dd"][i])


def expected_exact(g, sh, i):
    """the specification's exact matrix for shell sh and element i in the code's orbital order (None if the specification has
    no exact value for this shell)"""
    si = spec_indices(sh)
    if si is None:
        return None
    parent, idx = si
    return _parent_matrix(g, parent, i)[np.ix_(idx, idx)]


def to_spec_order(sh, M):
    """a matrix returned by the code for shell sh, re-ordered to the order the TLA+ modules use (s, p, d: SPEC_ORDER;
    sub-shells: OrbRep!SubIndex); None if the code's shell no longer consists of the same orbitals"""
    si = spec_indices(sh)
    if si is None:
        return None
    parent, idx = si
    target = SPEC_SUB[sh][1] if sh in SPEC_SUB else list(range(len(SPEC_ORDER[parent])))
    if sh in SPEC_SUB and SPEC_SUB[sh][0] != parent:
        return None
    if sorted(idx) != sorted(target):
        return None
    pos = [idx.index(t) for t in target]
    return np.asarray(M)[np.ix_(pos, pos)]


def hybrid_matrix(sh):
    """rows = the code's orbitals of shell sh expanded over the specification's basis (s | pz px py | dz2 dxz dyz dx2-y2 dxy),
    coefficients from the public table orbitals.hybrids_coef; None if the shell uses anything else (f)"""
    from wannierberri.symmetry.orbitals import hybrids_coef
    names = code_orbitals(sh)
    M = np.zeros((len(names), len(SPEC_BASIS)))
    for r, orb in enumerate(names):
        coef = hybrids_coef.get(orb)
        if coef is None:
            return None
        for b, c in coef.items():
            if b not in SPEC_BASIS:
                return None
            M[r, SPEC_BASIS.index(b)] = c
    return M


def expected_hybrid(g, sh, i):
    """M blockdiag(1, D_p, D_d) M^T with the specification's exact s, p, d matrices: what rot_orb must return for any shell
    made of s, p, d orbitals (numeric: the coefficients are floating-point numbers)"""
    from scipy.linalg import block_diag
    M = hybrid_matrix(sh)
    if M is None:
        return None
    return M @ block_diag(np.eye(1), g["dp"][i], g["dd"][i]) @ M.T


def rotation_angle(R):
    """(det, cos theta) of an O(3) matrix"""
    det = float(np.sign(np.linalg.det(R)))
    c = (np.trace(R) * det - 1.0) / 2.0
    return det, float(min(1.0, max(-1.0, c)))


def np_rep(R):
    """harness-side floating-point s/p/d matrices of an O(3) matrix in the specification's order (OrbRep!DP, DD); used only as
    a domain filter (is the span of a hybrid preserved?) and for numeric_only comparisons on random rotations"""
    R = np.asarray(R, dtype=float)
    perm = [2, 0, 1]
    dp = R[np.ix_(perm, perm)]
    s3 = SQ3
    Q = [np.diag([-s3 / 6, -s3 / 6, s3 / 3]), None, None, np.diag([0.5, -0.5, 0.0]), None]
    for n, (a, b) in ((1, (0, 2)), (2, (1, 2)), (4, (0, 1))):
        q = np.zeros((3, 3))
        q[a, b] = q[b, a] = 0.5
        Q[n] = q
    T = [R @ q @ R.T for q in Q]
    dd = np.array([[2 * np.trace(Q[i] @ T[j]) for j in range(5)] for i in range(5)])
    return dict(dp=[dp], dd=[dd])


def span_preserved(sh, R, tol=1e-9):
    """numeric version of OrbRep!Preserves: D(R) maps the span of the shell onto itself"""
    from scipy.linalg import block_diag
    M = hybrid_matrix(sh)
    if M is None:
        return True          # f: a full shell
    g = np_rep(R)
    X = block_diag(np.eye(1), g["dp"][0], g["dd"][0]) @ M.T
    return bool(np.abs(X - M.T @ (M @ X)).max() < tol)


def character(l, R):
    """character of the real orbital representation with angular momentum l: det^l * sum_m cos(m theta)"""
    det, c = rotation_angle(R)
    th = math.acos(c)
    return (det ** l) * sum(math.cos(m * th) for m in range(-l, l + 1))


# ----------------------------------------------------------------------------- SymOrbits structure models
SYMORB_INV = ["CachedTables", "IrrDefinition", "GroupAxioms", "GreyGroup", "SiteMapPermutation", "ShiftsIntegral", "CentreMap",
              "SiteAction", "TripleAction", "TripleInjective", "TripleInverse", "OrbitsPartition", "IrreducibleReach", "FlipCommutes",
              "FullShellsAllowed", "MixedOrbitClosed", "SubgroupClosed", "SubReach", "BlockTripleMap", "BlocksPermutedDifferently"]
DEN = 4
CELL = {"cubic": (4.0, 4.0, 4.0), "tetra": (4.0, 4.0, 6.0), "ortho": (4.0, 5.0, 6.0), "hex": (4.0, 4.0, 6.0)}


def lattice_of(lat):
    """real lattice (rows) of a specification lattice type; "hex": a1 = a x, a2 = a (-1/2, sqrt3/2, 0), a3 = c z"""
    a, b, c = CELL[lat]
    if lat == "hex":
        return np.array([[a, 0.0, 0.0], [-a / 2, a * SQ3 / 2, 0.0], [0.0, 0.0, c]])
    return np.diag([a, b, c])


def symorb_cfg(lats, nsites, poscat, magnetic, invariants=SYMORB_INV, subreps="sub", blockmap="own"):
    return ("SPECIFICATION Spec\nCONSTANTS\n  DEN = %d\n  LATS = {%s}\n  NSITES = {%s}\n  POSCAT = \"%s\"\n  MAGNETIC = %s\n  SUBREPS = \"%s\"\n  BLOCKMAP = \"%s\"\n" % (
        DEN, ", ".join(f'"{x}"' for x in lats), ", ".join(str(x) for x in nsites), poscat, '"%s"' % (magnetic if isinstance(magnetic, str) else ("z" if magnetic else "none")), subreps, blockmap) +
        "".join(f"INVARIANT {i}\n" for i in invariants) + "CHECK_DEADLOCK FALSE\n")


def symorb_structures(name, lats, nsites, poscat, magnetic=False, workers=WORKERS):
    """TLC on MC_SymOrbits; returns (stats, list of built structures, number of excluded (non-primitive) ones)"""
    st = ftable.enumerate_states("MC_SymOrbits.tla", symorb_cfg(lats, nsites, poscat, magnetic), name, workers=workers)
    if st.get("violation"):
        return st, [], 0
    tlc.check_not_vacuous(st, ["Build"], name)
    out, excl = [], 0
    for s in ftable.dump_states(st):
        if s["pc"] == "excluded":
            excl += 1
        if s["pc"] != "built":
            continue
        ns = len(s["sites"])
        d = dict(lat=s["lat"], types=[x["type"] for x in s["sites"]], pos=[tuple(x["pos"]) for x in s["sites"]],
                 mom=[tuple(x["mom"]) for x in s["sites"]],
                 ops=[(tuple(tuple(r) for r in o["W"]), tuple(o["t"]), bool(o["tr"])) for o in s["ops"]],
                 amap=[[a - 1 for a in m] for m in s["amap"]], tvec=[[tuple(t) for t in m] for m in s["tvec"]],
                 rlist=[tuple(r) for r in s["rlist"]],
                 tmap=s["tmap"], sub={k: sorted(n - 1 for n in v) for k, v in s["sub"].items()}, shells=frozenset(s["shells"]), mixed=frozenset(k - 1 for k in s["mixed"]), irr=frozenset((tuple(x[0]), x[1] - 1, x[2] - 1) for x in s["irr"]))
        d["key"] = (d["lat"], tuple(d["types"]), tuple(d["pos"]), tuple(d["mom"]))
        d["nsites"] = ns
        out.append(d)
    out.sort(key=lambda d: repr(d["key"]))
    return st, out, excl


def real_spacegroup(struct, spinor=False):
    """the irrep space group of a specification structure, with the map real symmetry index -> specification op index"""
    from irrep.spacegroup import SpaceGroup
    lattice = lattice_of(struct["lat"])
    positions = np.array(struct["pos"], dtype=float) / DEN
    typat = list(struct["types"])
    magnetic = any(any(m) for m in struct["mom"])
    magmom = np.array(struct["mom"], dtype=float) if magnetic else None
    sg = SpaceGroup.from_cell(real_lattice=lattice, positions=positions, typat=typat, magmom=magmom, include_TR=True, spinor=spinor)
    index = {op: n for n, op in enumerate(struct["ops"])}
    op_of = []
    for symop in sg.symmetries:
        W = tuple(tuple(int(x) for x in r) for r in np.asarray(symop.rotation))
        tn = np.asarray(symop.translation, dtype=float) * DEN
        if np.abs(tn - np.round(tn)).max() > 1e-6:
            raise MachineryError(f"space group translation {symop.translation} is not a multiple of 1/{DEN} for {struct['key']}")
        t = tuple(int(x) % DEN for x in np.round(tn))
        key = (W, t, bool(symop.time_reversal))
        if key not in index:
            raise MachineryError(f"irrep/spglib operation {key} is not in the specification's space group of {struct['key']}")
        op_of.append(index[key])
    if len(set(op_of)) != len(struct["ops"]) or len(op_of) != len(struct["ops"]):
        raise MachineryError(f"irrep/spglib found {len(op_of)} operations, the specification {len(struct['ops'])} for {struct['key']}")
    return sg, op_of, lattice, positions
