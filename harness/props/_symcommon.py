"""helpers shared by c20.py / c21.py: exact numbers of Q(sqrt 3), the OrbRep group models, the SymOrbits structure
models and their realisation as irrep space groups."""
import math
import numpy as np

from .. import ftable, tlc
from ..common import MachineryError

SQ3 = math.sqrt(3.0)

# ----------------------------------------------------------------------------- numbers (a + b sqrt3)/d


def num(x):
    return (x[0] + x[1] * SQ3) / x[2]


def mat(M):
    return np.array([[num(x) for x in row] for row in M], dtype=float)


_DENS = (1, 2, 3, 4, 6, 8, 12, 16, 24, 32, 48, 64)


def rationalise(x, tol=1e-10, bmax=48):
    """float -> normalised triple (a, b, d) with |x - (a + b sqrt3)/d| < tol, or (0, 0, 0) if there is none"""
    bs = np.arange(-bmax, bmax + 1)
    for d in _DENS:
        y = x * d
        a = np.round(y - bs * SQ3)
        err = np.abs(a + bs * SQ3 - y)
        k = int(np.argmin(err + 1e-13 * np.abs(bs)))
        if err[k] < tol * d and abs(a[k]) <= 4 * bmax:
            aa, bb = int(a[k]), int(bs[k])
            g = math.gcd(math.gcd(abs(aa), abs(bb)), d)
            return (aa // g, bb // g, d // g)
    return (0, 0, 0)


def rat_mat(M, tol=1e-10):
    return [[list(rationalise(float(x), tol)) for x in row] for row in np.asarray(M)]


def bucket(resid):
    """integer bucket of a residual: ceil(log10(resid / 1e-16)) clipped to 0..16"""
    if not np.isfinite(resid):
        return 16
    if resid <= 1e-16:
        return 0
    return int(min(16, max(0, math.ceil(math.log10(resid / 1e-16) - 1e-9))))


# ----------------------------------------------------------------------------- OrbRep group models
ORBREP_INV = ["GroupOrder", "Closed", "IdentityLaw", "Inverses", "LatinSquare", "Associative", "ElemsO3", "ElemsNumbers",
              "RepIdentity", "RepOrthogonal", "RepHomP", "RepHomD", "RepParity", "RepFaithfulP", "Compression", "SubHom",
              "Stabiliser", "FullShells"]


def orbrep_cfg(group, variant="code", invariants=ORBREP_INV):
    return (f"SPECIFICATION Spec\nCONSTANTS\n  GroupName = \"{group}\"\n  Variant = \"{variant}\"\n" +
            "".join(f"INVARIANT {i}\n" for i in invariants) + "CHECK_DEADLOCK FALSE\n")


def orbrep_group(group, name, workers=16, variant="code"):
    """runs TLC on MC_OrbRep for one group; returns (stats, final state as dict with 0-based python structures)"""
    st = ftable.enumerate_states("MC_OrbRep.tla", orbrep_cfg(group, variant), name, workers=workers)
    if st.get("violation"):
        return st, None
    tlc.check_not_vacuous(st, ["Gen", "GenDone", "MkTable", "MkReps"], name)
    done = [s for s in ftable.dump_states(st) if s["pc"] == "done"]
    if len(done) != 1:
        raise MachineryError(f"{name}: expected one final state, got {len(done)}")
    s = done[0]
    n = len(s["elems"])
    g = dict(name=group, n=n,
             elems=[mat(e) for e in s["elems"]], elems_exact=s["elems"],
             table=[[s["table"][i][j] - 1 for j in range(n)] for i in range(n)],
             dp=[mat(m) for m in s["dp"]], dd=[mat(m) for m in s["dd"]], dp_exact=s["dp"], dd_exact=s["dd"],
             pres={sh: frozenset(i - 1 for i in v) for sh, v in s["pres"].items()})
    g["inv"] = [g["table"][i].index(0) for i in range(n)]
    return st, g


SUB_INDEX = {"pz": ("p", [0]), "p2": ("p", [0, 2]), "pxy": ("p", [1, 2]), "t2g": ("d", [1, 2, 4]), "eg": ("d", [3, 0])}


def expected_exact(g, sh, i):
    """the specification's exact matrix for shell sh and element i (None if the specification has no exact value)"""
    if sh == "s":
        return np.eye(1)
    if sh == "p":
        return g["dp"][i]
    if sh == "d":
        return g["dd"][i]
    if sh in SUB_INDEX:
        parent, idx = SUB_INDEX[sh]
        D = g["dp"][i] if parent == "p" else g["dd"][i]
        return D[np.ix_(idx, idx)]
    return None


# ----------------------------------------------------------------------------- SymOrbits structure models
SYMORB_INV = ["CachedTables", "IrrDefinition", "GroupAxioms", "GreyGroup", "SiteMapPermutation", "ShiftsIntegral", "CentreMap",
              "SiteAction", "TripleAction", "TripleInjective", "TripleInverse", "OrbitsPartition", "IrreducibleReach", "FlipCommutes",
              "FullShellsAllowed", "MixedOrbitClosed"]
DEN = 4
CELL = {"cubic": (4.0, 4.0, 4.0), "tetra": (4.0, 4.0, 6.0), "ortho": (4.0, 5.0, 6.0)}


def symorb_cfg(lats, nsites, poscat, magnetic, invariants=SYMORB_INV):
    return ("SPECIFICATION Spec\nCONSTANTS\n  DEN = %d\n  LATS = {%s}\n  NSITES = {%s}\n  POSCAT = \"%s\"\n  MAGNETIC = %s\n" % (
        DEN, ", ".join(f'"{x}"' for x in lats), ", ".join(str(x) for x in nsites), poscat, '"%s"' % (magnetic if isinstance(magnetic, str) else ("z" if magnetic else "none"))) +
        "".join(f"INVARIANT {i}\n" for i in invariants) + "CHECK_DEADLOCK FALSE\n")


def symorb_structures(name, lats, nsites, poscat, magnetic=False, workers=16):
    """TLC on MC_SymOrbits; returns (stats, list of built structures, number of excluded (non-primitive) ones)"""
    st = ftable.enumerate_states("MC_SymOrbits.tla", symorb_cfg(lats, nsites, poscat, magnetic), name, workers=workers)
    if st.get("violation"):
        return st, [], 0
    tlc.check_not_vacuous(st, ["Build"], name)
    out, excl = [], 0
    for s in ftable.dump_states(st):
        if s["pc"] == "excluded":
            excl += 1
        if s["pc"] != "built":
            continue
        ns = len(s["sites"])
        d = dict(lat=s["lat"], types=[x["type"] for x in s["sites"]], pos=[tuple(x["pos"]) for x in s["sites"]],
                 mom=[tuple(x["mom"]) for x in s["sites"]],
                 ops=[(tuple(tuple(r) for r in o["W"]), tuple(o["t"]), bool(o["tr"])) for o in s["ops"]],
                 amap=[[a - 1 for a in m] for m in s["amap"]], tvec=[[tuple(t) for t in m] for m in s["tvec"]],
                 rlist=[tuple(r) for r in s["rlist"]],
                 tmap=s["tmap"], shells=frozenset(s["shells"]), mixed=frozenset(k - 1 for k in s["mixed"]), irr=frozenset((tuple(x[0]), x[1] - 1, x[2] - 1) for x in s["irr"]))
        d["key"] = (d["lat"], tuple(d["types"]), tuple(d["pos"]), tuple(d["mom"]))
        d["nsites"] = ns
        out.append(d)
    out.sort(key=lambda d: repr(d["key"]))
    return st, out, excl


def real_spacegroup(struct, spinor=False):
    """the irrep space group of a specification structure, with the map real symmetry index -> specification op index"""
    from irrep.spacegroup import SpaceGroup
    lattice = np.diag(CELL[struct["lat"]])
    positions = np.array(struct["pos"], dtype=float) / DEN
    typat = list(struct["types"])
    magnetic = any(any(m) for m in struct["mom"])
    magmom = np.array(struct["mom"], dtype=float) if magnetic else None
    sg = SpaceGroup.from_cell(real_lattice=lattice, positions=positions, typat=typat, magmom=magmom, include_TR=True, spinor=spinor)
    index = {op: n for n, op in enumerate(struct["ops"])}
    op_of = []
    for symop in sg.symmetries:
        W = tuple(tuple(int(x) for x in r) for r in np.asarray(symop.rotation))
        tn = np.asarray(symop.translation, dtype=float) * DEN
        if np.abs(tn - np.round(tn)).max() > 1e-6:
            raise MachineryError(f"space group translation {symop.translation} is not a multiple of 1/{DEN} for {struct['key']}")
        t = tuple(int(x) % DEN for x in np.round(tn))
        key = (W, t, bool(symop.time_reversal))
        if key not in index:
            raise MachineryError(f"irrep/spglib operation {key} is not in the specification's space group of {struct['key']}")
        op_of.append(index[key])
    if len(set(op_of)) != len(struct["ops"]) or len(op_of) != len(struct["ops"]):
        raise MachineryError(f"irrep/spglib found {len(op_of)} operations, the specification {len(struct['ops'])} for {struct['key']}")
    return sg, op_of, lattice, positions
