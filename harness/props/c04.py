"""C04: interpolated k-resolved quantities are periodic and gauge independent.

spec  : Periodicity.tla (EXTENDS Bands) -
        part A  exact Bloch sums H(k) = sum_R H(R) e^{2 pi i k.R} over Gaussian-integer models on the mesh k = kn/4, at k and at
                k + G (MC_PeriodicityHk: every model within the constants x every k; Periodic, Hermitian);
        part B  Data_K.degen (blocks the random gauge may mix) as DegenRG over Bands.Borders; MC_GaugeBlocks: the blocks are exactly
                the degenerate multiplets, lie inside the blocks over which calculators trace when
                degen_thresh_random_gauge <= degen_thresh (GaugeWithinTrace), and are never cut by the Fermi-sea block.
bind  : exact - TLC states replayed on real System_R / Data_K_R objects: HH_K at kn/4 + G against the exact matrix (1e-12),
        Data_K.degen against DegenRG, Data_K.UU_K mixing pattern; records of the same functions on larger random inputs are
        validated by TLC (PeriodicityRec.tla).
num   : evaluate_k at k and k + G (|G_i| <= 2) for energies, band gradients, Berry curvature (total / internal / external),
        spin, orbital moment (with external-term matrices) at non-degenerate k; evaluate_k / formula traces / run() with
        parameters_K={'random_gauge': True} against False on models with exact two-fold degeneracies (tolerance 1e-8 x scale).
"""
import copy
import random
from functools import cached_property
import numpy as np

from .. import tlc, ftable
from ..common import Report, MachineryError, seed, quiet, workdir

PROPS = {
    "C04": dict(level="exploration",
                technique="TLC exhaustive on Periodicity.tla (exact Gaussian-integer Bloch sums at k and k+G; degenerate blocks of the random gauge vs trace blocks of Bands.tla) + replay of TLC states on real System_R/Data_K objects + TLC validation of recorded HH_K / degen / UU_K; numeric k -> k+G and random-gauge comparisons of evaluate_k, formula traces and run()",
                text="The specification fixes exactly the Bloch Hamiltonian of every small Gaussian-integer model at k and k+G and the set of band blocks that the random gauge may rotate, and "
                     "proves on the model that those blocks are contained in the blocks over which tabulators and integrators trace; the real Data_K is compared with both (exact). The "
                     "invariance of derived quantities (velocities, Berry curvature with external terms, spin, orbital moment, all calculator formulas, integrated results) is then checked in "
                     "floating point between two executions of the implementation.",
                note="spec decides: H(k+G) = H(k) for the exact Bloch sum (and its value), Data_K.degen = multiplets of the threshold, mixing only inside them, containment in the calculators' "
                     "trace blocks under GaugeWithinTrace (degen_thresh_random_gauge <= degen_thresh), Fermi-sea block never cuts a multiplet. implementation-vs-implementation numerics: "
                     "evaluate_k(k) vs evaluate_k(k+G); random_gauge=True vs False for evaluate_k tabulations, traces of every calculator formula over degenerate pairs, and run() integrals "
                     "/ tabulations, tolerance 1e-8 x scale, on dyadic random models; per-band comparisons only at k-points whose gaps exceed 0.05 (NonDegenerateK). If Data_K raises with "
                     "random_gauge=True that is reported as a violation and the numeric gauge part continues with a subclass that only aliases the two misspelt attribute names.",
                ref="DESIGN.md 3.4, 3.5, 5 (row C04), 7 (F2)"),
}

UNIT = 0.125
TOL = 1e-8
MINGAP = 0.05


# ------------------------------------------------------------------------------------------------ real objects
def sparse_system(nw, lattice, centres, ham):
    import wannierberri as wb
    with quiet():
        s = wb.system.System_R.from_sparse(real_lattice=np.array(lattice, dtype=float), wannier_centers_red=np.array(centres, dtype=float),
                                           matrices={"Ham": {R: {(a, b): M[a][b] for a in range(nw) for b in range(nw)} for R, M in ham.items()}})
    return s


def model_system(nw, h0, Rs, Ts, rng):
    """h0, Ts: nested lists of complex; Rs: list of (r1, r2)"""
    ham = {(0, 0, 0): np.array(h0, dtype=complex)}
    for R, T in zip(Rs, Ts):
        T = np.array(T, dtype=complex)
        ham[(R[0], R[1], 0)] = ham.get((R[0], R[1], 0), 0) + T
        ham[(-R[0], -R[1], 0)] = ham.get((-R[0], -R[1], 0), 0) + T.conj().T
    lattice = [[1.0, 0, 0], [0.25, 1.0, 0], [0, 0, 1.5]]
    centres = [[rng.randrange(8) / 8.0, rng.randrange(8) / 8.0, 0.0] for _ in range(nw)]
    return sparse_system(nw, lattice, centres, ham)


def datak(system, k, cls=None, **par):
    import wannierberri as wb
    from wannierberri.data_K import get_data_k_class_from_system
    with quiet():
        grid = wb.Grid(system=system, NK=1, NKFFT=1)
        cls = cls or get_data_k_class_from_system(system)
        return cls(system, grid=grid, dK=np.array(k, dtype=float), **par)


def cplx(M):
    return [[complex(x[0], x[1]) for x in row] for row in M]


def to_gauss(M, what, rep, info):
    """complex matrix -> nested [re, im] integers; integrality is verified"""
    M = np.asarray(M)
    out = []
    for row in M:
        o = []
        for z in row:
            re, im = round(z.real), round(z.imag)
            if abs(z.real - re) > 1e-9 or abs(z.imag - im) > 1e-9:
                rep.violation("HH_K:nonintegral_projection", dict(info, what=what, value=str(z)))
                return None
            o.append([int(re), int(im)])
        out.append(o)
    return out


class GaugeAccess:
    """decides once whether the genuine Data_K supports random_gauge=True; otherwise provides a subclass that only aliases the
    two attribute names that the genuine properties read (the bodies of Data_K.degen / UU_K are executed unchanged)"""

    def __init__(self):
        self.cls = None
        self.repaired = False
        self.error = None

    def get(self, rep, system):
        if self.cls is not None:
            return self.cls
        from wannierberri.data_K.data_K_R import Data_K_R
        from wannierberri.data_K.data_K import Data_K
        errors = []
        d = datak(system, [0.125, 0.25, 0.0], random_gauge=True)
        for attr in ("degen", "UU_K"):
            try:
                getattr(d, attr)
            except AttributeError as ex:
                errors.append(f"Data_K.{attr}: {type(ex).__name__}: {ex}")
        if not errors:
            self.cls = Data_K_R
        else:
            self.error = errors
            rep.violation("Data_K:random_gauge_raises",
                          dict(what="Data_K with random_gauge=True (the documented option to test gauge covariance) raises as soon as UU_K / degen is needed",
                               reproduction="wannierberri.evaluate_k(system, k=(0.125,0.25,0), quantities=['band_gradients'], parameters_K={'random_gauge': True}) for any System_R",
                               error=self.error,
                               detail="Data_K.__init__ stores self.degen_threshold_random_gauge but Data_K.degen reads self.degen_thresh_random_gauge; Data_K.UU_K iterates self.true instead of self.degen"))

            class Repaired(Data_K_R):
                @cached_property
                def degen(self):
                    self.degen_thresh_random_gauge = self.degen_threshold_random_gauge
                    return Data_K.degen.func(self)

                @cached_property
                def UU_K(self):
                    self.true = self.degen
                    return Data_K.UU_K.func(self)
            self.cls = Repaired
            self.repaired = True
        return self.cls


def diag_system(E):
    nw = len(E)
    return sparse_system(nw, np.eye(3), np.zeros((nw, 3)), {(0, 0, 0): np.diag(np.array(E, dtype=float) * UNIT).astype(complex)})


def real_degen(gc, E, th):
    d = datak(diag_system(E), [0.0, 0.0, 0.0], cls=gc, random_gauge=True, degen_thresh_random_gauge=th * UNIT)
    if np.abs(d.E_K[0] - np.array(E) * UNIT).max() != 0:
        raise MachineryError("diagonal model does not reproduce its energies exactly")
    groups = [[int(a), int(b)] for a, b in d.degen[0]]
    np.random.seed(seed() + 17)
    U = d.UU_K[0]
    mixed = sorted([int(m), int(n)] for m in range(len(E)) for n in range(len(E)) if m != n and abs(U[m, n]) > 1e-12)
    unit = float(np.abs(U.conj().T @ U - np.eye(len(E))).max())
    return groups, mixed, unit


# ------------------------------------------------------------------------------------------------ check
def check(pid, tier):
    rep = Report(pid, tier, "exploration")
    thorough = tier == "thorough"
    rng = random.Random(seed() * 6151 + 4)
    import warnings
    warnings.filterwarnings("ignore")
    wd = workdir("c04")
    rep.rule("TLC enumerates every two-orbital Gaussian-integer model (bounded number of hoppings) x k on the 4x4 mesh, and every sorted integer energy array x "
             "thresholds; a case = one TLC state replayed on real System_R/Data_K objects (exact), one seeded random recorded call validated by TLC, or (numeric) one "
             "(model, k, G, quantity) resp. (model, k, formula, band group) resp. run() comparison; distinct by input")
    rep.assume("hoppings are Gaussian integers and k = kn/4 in the exact part; energies of the gauge part are integers x 1/8")
    rep.assume(f"numeric per-band comparisons only at k-points with all gaps > {MINGAP} (NonDegenerateK); gauge comparisons require degen_thresh_random_gauge <= degen_thresh (GaugeWithinTrace)")
    recs = part_hk(rep, rng, thorough)
    gauge = GaugeAccess()
    part_gauge_blocks(rep, rng, thorough, gauge, recs)
    numeric_periodic(rep, rng, thorough)
    numeric_gauge(rep, rng, thorough, gauge, wd)
    import shutil
    shutil.rmtree(wd, ignore_errors=True)
    return rep.finish()


def part_hk(rep, rng, thorough):
    maxnz, gmax = (2, 2) if thorough else (1, 2)
    cfg = f"SPECIFICATION Spec\nCONSTANTS\n  MAXNZ = {maxnz}\n  GMAX = {gmax}\nINVARIANT Periodic\nINVARIANT Hermitian\nCHECK_DEADLOCK FALSE\n"
    st = ftable.enumerate_states("MC_PeriodicityHk.tla", cfg, "c04_hk")
    ftable.spec_violation(rep, st, "c04_hk")
    rep.add_tlc("c04_hk", st)
    states = list(ftable.dump_states(st))
    if len(states) != st["distinct"]:
        raise MachineryError(f"dump has {len(states)} states, TLC reported {st['distinct']}")
    byk = {}
    for s in states:
        byk.setdefault((repr(s["h0"]), repr(s["Ts"])), set()).add(repr(s["hk"]))
    if not any(len(v) >= 4 for v in byk.values()):
        raise MachineryError("vacuous: no model whose H(k) depends on k")
    nsel = 2500 if thorough else 350
    sel = states if len(states) <= nsel else rng.sample(states, nsel)
    Rs = [(1, 0), (0, 1)]
    worst = 0.0
    cache = {}
    for s in sel:
        key = (repr(s["h0"]), repr(s["Ts"]))
        if key not in cache:
            cache.clear()
            cache[key] = model_system(2, cplx(s["h0"]), Rs, [cplx(T) for T in s["Ts"]], rng)
        system = cache[key]
        kn = s["kn"]
        exp = np.array(cplx(s["hk"]))
        Gs = [(0, 0)] + [(rng.randint(-gmax, gmax), rng.randint(-gmax, gmax)) for _ in range(2)]
        E0 = None
        for G in Gs:
            d = datak(system, [kn[0] / 4.0 + G[0], kn[1] / 4.0 + G[1], 0.0])
            got = d.HH_K[0]
            dev = float(np.abs(got - exp).max())
            worst = max(worst, dev)
            rep.case(("hk", key, tuple(kn), G), nontrivial=any(any(x != (0, 0) for row in T for x in row) for T in s["Ts"]))
            info = dict(h0=s["h0"], Rs=Rs, Ts=s["Ts"], kn=list(kn), G=list(G))
            if dev > 1e-12:
                rep.violation("HH_K:k_plus_G" if G != (0, 0) else "HH_K:value", dict(info, expected=s["hk"], got=str(got.tolist()), deviation=dev))
            if E0 is None:
                E0 = d.E_K[0]
            elif np.abs(d.E_K[0] - E0).max() > 1e-12:
                rep.violation("E_K:k_plus_G", dict(info, E_at_k=E0.tolist(), E_at_kG=d.E_K[0].tolist()))
        rep.sample(dict(fn="Data_K_R.HH_K", h0=s["h0"], Ts=s["Ts"], kn=list(kn), G=[list(g) for g in Gs], hk=s["hk"]))
    rep.part("replay_hk", states_replayed=len(sel), max_deviation=worst, tolerance=1e-12)
    # code -> spec
    recs = []
    nrec = 600 if thorough else 150
    allR = [(1, 0), (0, 1), (1, 1), (1, -1), (2, 0), (0, 2), (2, 1)]
    for _ in range(nrec):
        nw = rng.choice([2, 3])
        def gi():
            return [rng.randint(-2, 2), rng.randint(-2, 2)]
        h0 = [[[0, 0] for _ in range(nw)] for _ in range(nw)]
        for a in range(nw):
            h0[a][a] = [rng.randint(-3, 3), 0]
            for b in range(a + 1, nw):
                z = gi()
                h0[a][b] = z
                h0[b][a] = [z[0], -z[1]]
        Rs2 = rng.sample(allR, rng.randint(1, 3))
        Ts2 = [[[gi() for _ in range(nw)] for _ in range(nw)] for _ in Rs2]
        system = model_system(nw, cplx(h0), Rs2, [cplx(T) for T in Ts2], rng)
        kn = [rng.randint(0, 3), rng.randint(0, 3)]
        G = [rng.randint(-2, 2), rng.randint(-2, 2)]
        d = datak(system, [kn[0] / 4.0 + G[0], kn[1] / 4.0 + G[1], 0.0])
        info = dict(h0=h0, Rs=[list(r) for r in Rs2], Ts=Ts2, kn=kn, G=G)
        hk = to_gauss(d.HH_K[0], "HH_K", rep, info)
        if hk is None:
            continue
        recs.append(dict(fn="hk", hk=hk, **info))
        rep.case(("hkrec", repr(info)))
    return recs


def part_gauge_blocks(rep, rng, thorough, gauge, recs):
    nb, emax = (6, 3) if thorough else (5, 3)
    base = f"SPECIFICATION Spec\nCONSTANTS\n  NB = {nb}\n  EMAX = {emax}\n  THS = {{0, 1, 2}}\n  RequirePrecond = %s\n" + \
        "".join(f"INVARIANT {i}\n" for i in ("Multiplets", "TraceBlocksContain", "SeaWhole", "MixSymmetric")) + "CHECK_DEADLOCK FALSE\n"
    st = ftable.enumerate_states("MC_GaugeBlocks.tla", base % "TRUE", "c04_gauge")
    ftable.spec_violation(rep, st, "c04_gauge")
    rep.add_tlc("c04_gauge", st)
    s0 = tlc.run_tlc("MC_GaugeBlocks.tla", (base % "FALSE").replace(f"NB = {nb}", "NB = 4"), "c04_gauge_noprecond", timeout=900)
    if not s0.get("violation") or s0["violation"][1] != "TraceBlocksContain":
        raise MachineryError("sensitivity self-test failed: without GaugeWithinTrace the containment must be violated")
    rep.part("c04_gauge_noprecond", sensitivity_violation=s0["violation"][1])
    inputs = {}
    for s in ftable.dump_states(st):
        inputs.setdefault((tuple(s["E"]), s["thg"]), s)
    if not any(len(s["rg"]) > 0 for s in inputs.values()):
        raise MachineryError("vacuous: no state with a degenerate block")
    gc = gauge.get(rep, diag_system([0, 0, 1]))
    nmix = 0
    for (E, thg), s in inputs.items():
        exp = [[a, b] for a, b in s["rg"]]
        groups, mixed, unit = real_degen(gc, list(E), thg)
        rep.case(("degen", E, thg), nontrivial=len(exp) > 0)
        if groups != exp:
            rep.violation("Data_K.degen", dict(E=list(E), th=thg, unit=UNIT, expected=exp, got=groups, repaired_class=gauge.repaired))
        allowed = {(m, n) for a, b in exp for m in range(a, b) for n in range(a, b)}
        if not {tuple(p) for p in mixed} <= allowed:
            rep.violation("Data_K.UU_K:mixes_outside_blocks", dict(E=list(E), th=thg, unit=UNIT, blocks=exp, mixed=mixed))
        if unit > 1e-12:
            rep.violation("Data_K.UU_K:not_unitary", dict(E=list(E), th=thg, deviation=unit))
        if exp and not mixed:
            rep.violation("Data_K.UU_K:random_gauge_not_applied", dict(E=list(E), th=thg, blocks=exp))
        nmix += bool(mixed)
    if nmix == 0:
        raise MachineryError("vacuous: the random gauge never mixed anything")
    rep.part("replay_gauge", inputs_replayed=len(inputs), with_mixing=nmix, random_gauge_repaired_in_harness=gauge.repaired, genuine_error=gauge.error)
    # code -> spec
    nrec = 600 if thorough else 150
    for _ in range(nrec):
        n = rng.randint(1, 10)
        E = sorted(rng.choice([0, 0, 1, 2, 3, 5, 8]) + rng.randint(0, 3) * rng.randint(0, 3) for _ in range(n))
        th = rng.choice([0, 1, 2, 3])
        thc = th + rng.choice([0, 0, 1, 2])
        groups, mixed, unit = real_degen(gc, E, th)
        recs.append(dict(fn="degen", E=E, th=th, thc=thc, out=groups))
        recs.append(dict(fn="uu", E=E, th=th, mixed=mixed))
        rep.case(("degenrec", tuple(E), th))
    stv, bad = ftable.validate_records("PeriodicityRec.tla", ftable.REC_CFG, recs, "c04")
    rep.add_tlc("c04_records", stv)
    rep.add_traces(len(recs))
    for i, clauses in bad.items():
        r = recs[i]
        fn = {"hk": "HH_K", "degen": "Data_K.degen", "uu": "Data_K.UU_K"}[r["fn"]]
        rep.violation(f"{fn}:recorded:{clauses[0]}", dict(record=r, failing_clauses=clauses, unit=UNIT))
    rep.sample([r for r in recs if r["fn"] == "degen" and r["out"]][0])
    b1 = copy.deepcopy([r for r in recs if r["fn"] == "hk" and r["G"] != [0, 0]][:1])
    b1[0]["hk"][0][0][0] += 1
    b2 = copy.deepcopy([r for r in recs if r["fn"] == "degen" and r["out"]][:1])
    b2[0]["out"] = b2[0]["out"][:-1]
    b3 = [dict(fn="uu", E=[0, 2, 5], th=1, mixed=[[0, 2]])]
    _, bb = ftable.validate_records("PeriodicityRec.tla", ftable.REC_CFG, b1 + b2 + b3, "c04_selftest")
    if set(bb) != {0, 1, 2}:
        raise MachineryError(f"binding self-test failed: corrupted records accepted ({bb})")
    rep.part("binding_selftest", corrupted_records_rejected={str(k): v for k, v in bb.items()})


# ------------------------------------------------------------------------------------------------ numeric parts
def numeric_periodic(rep, rng, thorough):
    import wannierberri as wb
    from wannierberri import calculators as calc
    from . import kmodels as km
    nmod = 10 if thorough else 3
    nk = 4 if thorough else 2
    worst = {}
    ncase = 0
    for im in range(nmod):
        spinful = im % 2 == 1
        keys = ("Ham", "AA", "BB", "CC") + (("SS",) if spinful else ())
        m = km.build(rng.randrange(1 << 30), nw=2 if spinful else rng.choice([2, 3]), dim=rng.choice([2, 3]), keys=keys, spinful=spinful)
        s = m.system()
        quantities = ["energy", "band_gradients", "berry_curvature", "berry_curvature_internal_terms", "berry_curvature_external_terms"] + (["spin"] if spinful else [])

        def calcs():
            return {"morb": calc.tabulate.OrbitalMoment(), "morb_internal": calc.tabulate.OrbitalMoment(kwargs_formula={"external_terms": False}),
                    "der_berry": calc.tabulate.DerBerryCurvature(), "inv_mass": calc.tabulate.InvMass()}
        r = np.random.RandomState(rng.randrange(1 << 30))
        done = 0
        for _ in range(40):
            if done >= nk:
                break
            k = km.generic_k(r, dim=m.meta["dim"])
            if km.min_gap(m, k) < MINGAP:
                continue
            done += 1
            with quiet():
                r0 = wb.evaluate_k(s, k=k, quantities=quantities, calculators=calcs(), return_single_as_dict=True)
            r0 = {q: (v if isinstance(v, np.ndarray) else v.data[0]) for q, v in r0.items()}
            for _g in range(3 if thorough else 2):
                G = np.array([r.randint(-2, 3) for _ in range(3)])
                if not G.any():
                    G[0] = 2
                with quiet():
                    r1 = wb.evaluate_k(s, k=k + G, quantities=quantities, calculators=calcs(), return_single_as_dict=True)
                r1 = {q: (v if isinstance(v, np.ndarray) else v.data[0]) for q, v in r1.items()}
                for q in r0:
                    scale = max(1.0, float(np.abs(r0[q]).max()))
                    dev = float(np.abs(r0[q] - r1[q]).max())
                    worst[q] = max(worst.get(q, 0.0), dev / scale)
                    ncase += 1
                    rep.case(("kG", m.meta["seed"], tuple(k), tuple(G), q), nontrivial=np.abs(r0[q]).max() > 1e-6)
                    if dev > TOL * scale:
                        rep.violation(f"evaluate_k:k_plus_G:{q}", dict(model=m.dump(), k=k.tolist(), G=G.tolist(), at_k=r0[q].tolist(), at_kG=r1[q].tolist(), deviation=dev))
                    if q != "energy" and q != "spin" and np.abs(r0[q]).max() < 1e-9:
                        raise MachineryError(f"vacuous: {q} vanishes on a random model")
        if done < nk:
            raise MachineryError("no non-degenerate k-point")
    rep.part("numeric_only", k_plus_G_cases=ncase, k_plus_G_max_rel_dev=worst, tolerance=TOL)


def degenerate_system(rng, nw=3, dim=2):
    """doubled-spin system (exact two-fold degeneracy at every k) with external-term matrices and a random Hermitian 'SS'
    that is NOT block diagonal (so that spin traces over the degenerate pairs are non-trivial)"""
    from . import kmodels as km
    m = km.build(rng.randrange(1 << 30), nw=nw, dim=dim, keys=("Ham", "AA", "BB", "CC", "FF"))
    s = m.system()
    with quiet():
        s.double_spin()
    ms = km.build(rng.randrange(1 << 30), nw=2 * nw, dim=dim, keys=("SS",), centres="zero")
    SS = np.zeros((s.rvec.nRvec, 2 * nw, 2 * nw, 3), dtype=complex)
    for R, M in ms.mats["SS"].items():
        try:
            SS[s.rvec.iR(R)] = M
        except Exception:
            pass
    # keep it Hermitian on the R-set of the system
    SS = 0.5 * (SS + s.rvec.conj_XX_R(SS))
    s.set_R_mat("SS", SS, reset=True)
    return m, s


def numeric_gauge(rep, rng, thorough, gauge, wd):
    import wannierberri as wb
    from wannierberri import calculators as calc
    from . import kmodels as km
    from .c08 import registry, values, variant_tag
    nmod = 4 if thorough else 1
    nk = 3 if thorough else 1
    worst = 0.0
    ncase = 0
    reg = [e for e in registry() if not e["label"].startswith(("SpinVelocity(ryoo", "SpinVelocity(qiao", "SpinOmega(ryoo", "SpinOmega(qiao", "Formula_SHC(ryoo", "Formula_SHC(qiao"))]
    for im in range(nmod):
        m, s = degenerate_system(rng)
        gc = gauge.get(rep, s)
        nb = s.num_wann
        r = np.random.RandomState(rng.randrange(1 << 30))
        done = 0
        for _ in range(40):
            if done >= nk:
                break
            k = km.generic_k(r, dim=2)
            if km.min_gap(m, k) < MINGAP:    # gaps between different multiplets
                continue
            done += 1
            np.random.seed(rng.randrange(1 << 30))
            d0 = datak(s, k, cls=gc, random_gauge=False)
            d1 = datak(s, k, cls=gc, random_gauge=True)
            if np.abs(d0.UU_K - d1.UU_K).max() < 1e-3:
                raise MachineryError("vacuous: random gauge did not change the eigenvectors")
            if [tuple(int(x) for x in g) for g in d1.degen[0]] != [(2 * j, 2 * j + 2) for j in range(nb // 2)]:
                raise MachineryError(f"unexpected degenerate blocks {d1.degen[0]}")
            # (1) traces of every calculator formula over the degenerate pairs / sea blocks
            for e in reg:
                try:
                    with quiet():
                        o0, o1 = e["make"](d0), e["make"](d1)
                        vals0, vals1 = values(e, o0, nb, True), values(e, o1, nb, True)
                except Exception as ex:
                    raise MachineryError(f"cannot build {e['label']}: {ex}")
                for (lab, v0), (_, v1) in zip(vals0, vals1):
                    scale = max(1.0, float(np.abs(v0).max()))
                    dev = float(np.abs(v0 - v1).max())
                    worst = max(worst, dev / scale)
                    ncase += 1
                    rep.case(("gauge_formula", e["label"], m.meta["seed"], tuple(k), lab), nontrivial=np.abs(v0).max() > 1e-6)
                    if dev > TOL * scale:
                        rep.violation(f"random_gauge:formula:{e['name']}{variant_tag(e)}",
                                      dict(formula=e["label"], model=m.dump(), k=k.tolist(), group=lab, fixed_gauge=str(np.array(v0)[0].tolist()),
                                           random_gauge=str(np.array(v1)[0].tolist()), deviation=dev, repaired_class=gauge.repaired))
            # (2) evaluate_k tabulations
            quantities = ["energy", "band_gradients", "berry_curvature", "berry_curvature_internal_terms", "berry_curvature_external_terms", "spin"]

            def calcs():
                return {"morb": calc.tabulate.OrbitalMoment(), "der_berry": calc.tabulate.DerBerryCurvature(), "der_spin": calc.tabulate.DerSpin(),
                        "der3E": calc.tabulate.Der3E(), "der_morb": calc.tabulate.DerOrbitalMoment()}
            res = []
            for rg in (False, True):
                np.random.seed(rng.randrange(1 << 30))
                with quiet():
                    x = wb.evaluate_k(s, k=k, quantities=quantities, calculators=calcs(), return_single_as_dict=True,
                                      parameters_K={"random_gauge": rg}, data_k_class=gc)
                res.append({q: (v if isinstance(v, np.ndarray) else v.data[0]) for q, v in x.items()})
            for q in res[0]:
                scale = max(1.0, float(np.abs(res[0][q]).max()))
                dev = float(np.abs(res[0][q] - res[1][q]).max())
                worst = max(worst, dev / scale)
                ncase += 1
                rep.case(("gauge_evalk", q, m.meta["seed"], tuple(k)), nontrivial=np.abs(res[0][q]).max() > 1e-6)
                if dev > TOL * scale:
                    rep.violation(f"random_gauge:evaluate_k:{q}", dict(model=m.dump(), k=k.tolist(), fixed_gauge=res[0][q].tolist(), random_gauge=res[1][q].tolist(), deviation=dev))
        if done < nk:
            raise MachineryError("no suitable k-point")
        # (3) run(): integrated and tabulated
        Es = np.concatenate([np.linalg.eigvalsh(m.Hk(np.array([i, j, 0]) / 4.0)) for i in range(4) for j in range(4)])
        Ef = np.linspace(float(Es.min()) - 0.3, float(Es.max()) + 0.3, 7)
        omega = np.linspace(0.5, 3.0, 4)

        def icalcs():
            kw = dict(Efermi=Ef, save_mode="")
            return {"ahc": calc.static.AHC(**kw), "dos": calc.static.DOS(**kw), "spin": calc.static.Spin(**kw), "morb": calc.static.Morb(**kw),
                    "ohmic": calc.static.Ohmic_FermiSea(**kw), "berry_dipole": calc.static.BerryDipole_FermiSea(**kw),
                    "gme_spin": calc.static.GME_spin_FermiSurf(**kw),
                    "opt": calc.dynamic.OpticalConductivity(Efermi=Ef[2:5], omega=omega, smr_fixed_width=0.2, save_mode=""),
                    "tab": calc.TabulatorAll({"Energy": calc.tabulate.Energy(), "berry": calc.tabulate.BerryCurvature(), "spin": calc.tabulate.Spin(),
                                              "morb": calc.tabulate.OrbitalMoment()}, mode="grid", save_mode="")}
        out = []
        for rg in (False, True):
            np.random.seed(rng.randrange(1 << 30))
            with quiet():
                grid = wb.Grid(s, NK=[4, 4, 1], NKFFT=[2, 2, 1])
                out.append(wb.run(s, grid, icalcs(), parallel=False, adpt_num_iter=0, use_irred_kpt=False, symmetrize=False, fout_name=f"{wd}/run",
                                  parameters_K={"random_gauge": rg}, data_k_class=gc, print_progress_step_time=1e9))
        for key in ("ahc", "dos", "spin", "morb", "ohmic", "berry_dipole", "gme_spin", "opt"):
            a, b = out[0].results[key].data, out[1].results[key].data
            scale = max(1.0, float(np.abs(a).max()))
            dev = float(np.abs(a - b).max())
            worst = max(worst, dev / scale)
            ncase += 1
            rep.case(("gauge_run", key, m.meta["seed"]), nontrivial=np.abs(a).max() > 1e-9)
            if dev > TOL * scale:
                rep.violation(f"random_gauge:run:{key}", dict(model=m.dump(), Efermi=Ef.tolist(), deviation=dev, scale=scale, repaired_class=gauge.repaired))
        t0, t1 = out[0].results["tab"], out[1].results["tab"]
        for q in ("Energy", "berry", "spin", "morb"):
            a = t0.get_data(quantity=q, iband=list(range(nb)))
            b = t1.get_data(quantity=q, iband=list(range(nb)))
            scale = max(1.0, float(np.abs(a).max()))
            dev = float(np.abs(a - b).max())
            worst = max(worst, dev / scale)
            ncase += 1
            rep.case(("gauge_run_tab", q, m.meta["seed"]), nontrivial=np.abs(a).max() > 1e-9)
            if dev > TOL * scale:
                rep.violation(f"random_gauge:run:tabulate:{q}", dict(model=m.dump(), deviation=dev, scale=scale))
    rep.part("numeric_only", gauge_cases=ncase, gauge_max_rel_dev=worst, random_gauge_repaired_in_harness=gauge.repaired)
