"""C04: interpolated k-resolved quantities are periodic and gauge independent.

spec  : Periodicity.tla (EXTENDS Bands) -
        part A  exact Bloch sums H(k) = sum_R H(R) e^{2 pi i k.R} over Gaussian-integer models on the mesh k = kn/4, at k and at
                k + G (MC_PeriodicityHk: every model within the constants x every k; Periodic, Hermitian);
        part B  the blocks the random gauge may mix (Data_K.degen) as DegenRG over Bands.Borders; MC_GaugeBlocks: the blocks are exactly
                the degenerate multiplets, lie inside the blocks over which calculators trace when
                degen_thresh_random_gauge <= degen_thresh (GaugeWithinTrace), and are never cut by the Fermi-sea block.
                Energies are integers x 1/8 and the thresholds (th + 1/2) x 1/8: no gap ever EQUALS a threshold, so the model does
                not depend on `>` versus `>=` in the implementation.
bind  : exact - TLC states replayed on real System_R / Data_K objects: the Wannier-gauge H(k) at kn/4 + G of a system whose Wannier
        centres are all zero (so that the comparison does not depend on the Fourier convention) against the exact matrix (1e-12), the
        spectrum of the same model with random centres against the spectrum of the exact matrix, the mixing pattern of the random
        gauge (pairs of bands actually mixed, unitarity; Data_K.degen as a set of blocks when that private attribute exists), also
        on a two-point FFT grid; records of the same functions on larger random inputs are validated by TLC (PeriodicityRec.tla).
num   : evaluate_k at k and k + G (|G_i| <= 2) for energies, band gradients, Berry curvature (total / internal / external),
        spin, orbital moment (with external-term matrices) at non-degenerate k, also for a SystemSOC and on a 2x2x1 FFT grid
        (tabulators / integrators called on Data_K objects shifted by G); evaluate_k / formula traces / run() with
        parameters_K={'random_gauge': True} against False on models with exact two-fold and three-fold degeneracies and with a
        near-degeneracy below the threshold, and run(tetra=True) on a model degenerate only at grid points with the lowest Fermi level
        inside the corner spread of the degenerate level (tolerance 1e-8 x scale), with evidence that the rotation was applied (unitary draws counted).
"""
import copy
import os
import random
import numpy as np

from .. import tlc, ftable
from ..common import Report, MachineryError, seed, quiet, workdir

PROPS = {
    "C04": dict(level="exploration",
                technique="TLC exhaustive on Periodicity.tla (exact Gaussian-integer Bloch sums at k and k+G; degenerate blocks of the random gauge vs trace blocks of Bands.tla) + replay of TLC states on real System_R/Data_K objects + TLC validation of recorded H(k) / mixing blocks; numeric k -> k+G and random-gauge comparisons of evaluate_k, formula traces, calculators on FFT grids and run()",
                text="The specification fixes exactly the Bloch Hamiltonian of every small Gaussian-integer model at k and k+G and the set of band blocks that the random gauge may rotate, and "
                     "proves on the model that those blocks are contained in the blocks over which tabulators and integrators trace; the real Data_K is compared with both (exact; of the "
                     "enumerated (model, k) states a seeded sample of 350 (quick) / 2500 (thorough) is replayed). The invariance of derived quantities (velocities, Berry curvature with "
                     "external terms, spin, orbital moment, the catalogued calculator formulas of C08 except the ryoo/qiao spin-current variants, integrated and tabulated results) is then "
                     "checked in floating point between two executions of the implementation.",
                note="spec decides: H(k+G) = H(k) for the exact Bloch sum (and its value), the mixing blocks = multiplets of the threshold, mixing only inside them, containment in the calculators' "
                     "trace blocks under GaugeWithinTrace (degen_thresh_random_gauge <= degen_thresh), Fermi-sea block never cuts a multiplet. implementation-vs-implementation numerics: "
                     "evaluate_k(k) vs evaluate_k(k+G) (System_R, one SystemSOC), tabulators/integrators on a 2x2x1 FFT Data_K at dK and dK+G; random_gauge=True vs False for evaluate_k "
                     "tabulations, traces of the calculator formulas over degenerate multiplets (2-fold, 3-fold, and a pair split by 2^-40 < threshold), integrators with the Fermi level inside a "
                     "multiplet, run() integrals (incl. tetra=True) / tabulations, run(tetra=True) AHC / Ohmic_FermiSea / CumDOS on a 4x4x4 grid of a model whose levels are degenerate at the TRIMs only "
                     "(lowest Fermi level between the corner maxima of the two partners at Gamma: the band blocks of the tetrahedron method, modelled in MC_GaugeBlocks TETRA / "
                     "TracedBlocksAreUnionsOfMultiplets and replayed on TetraWeights.weights_all_band_groups), tolerance 1e-8 x scale, on dyadic random models; per-band comparisons only at k-points whose gaps exceed "
                     "0.05 (NonDegenerateK). That the random rotation really happened in evaluate_k / run() is established by counting the draws of scipy.stats.unitary_group (if the package "
                     "stops using it the count is reported as skipped). ShiftCurrentFormula (abelian generalised derivative: V_nn, A_nn) is gauge invariant only for multiplets without internal connection "
                     "(spin copies): on the other degenerate systems it depends on the random gauge, reported under the key random_gauge:formula:ShiftCurrentFormula (known finding). If evaluate_k raises with random_gauge=True that is a violation and the gauge part stops there. "
                     "Data_K.HH_K / degen / UU_K are private attributes: used through guarded adapters, sub-checks are skipped (part skipped_private) when they are gone.",
                ref="DESIGN.md 3.4, 3.5, 5 (row C04), 7 (F2)"),
}

TAG = f"_p{os.getpid()}"
UNIT = 0.125
TOL = 1e-8
MINGAP = 0.05
# formulas written in terms of band-diagonal matrix elements (abelian generalised derivative): see numeric_gauge
ABELIAN_FORMULAS = set()     # ShiftCurrentFormula was here: now reported (known finding C04 random_gauge:formula:ShiftCurrentFormula)
SPLIT = 2.0 ** -40          # splitting of the near-degenerate pairs: far below degen_thresh_random_gauge = 1e-4


def lib_raised(ex):
    from ..main import raised_by_code_under_test
    return raised_by_code_under_test(ex)


def report_raise(rep, skipped, ex, site_key, detail):
    """an exception of the package on a valid input is a violation; one caused by the harness's own call is a skipped sub-check"""
    site = lib_raised(ex)
    if site is None:
        skipped[site_key] = f"{type(ex).__name__}: {ex}"[:200]
    else:
        rep.violation(f"raises:{site_key}:{type(ex).__name__}", dict(detail, raised_in=site, error=f"{type(ex).__name__}: {ex}"[:300]))


# ------------------------------------------------------------------------------------------------ real objects
def sparse_system(nw, lattice, centres, ham):
    import wannierberri as wb
    with quiet():
        s = wb.system.System_R.from_sparse(real_lattice=np.array(lattice, dtype=float), wannier_centers_red=np.array(centres, dtype=float),
                                           matrices={"Ham": {R: {(a, b): M[a][b] for a in range(nw) for b in range(nw)} for R, M in ham.items()}})
    return s


def model_system(nw, h0, Rs, Ts, centres):
    """h0, Ts: nested lists of complex; Rs: list of (r1, r2)"""
    ham = {(0, 0, 0): np.array(h0, dtype=complex)}
    for R, T in zip(Rs, Ts):
        T = np.array(T, dtype=complex)
        ham[(R[0], R[1], 0)] = ham.get((R[0], R[1], 0), 0) + T
        ham[(-R[0], -R[1], 0)] = ham.get((-R[0], -R[1], 0), 0) + T.conj().T
    lattice = [[1.0, 0, 0], [0.25, 1.0, 0], [0, 0, 1.5]]
    return sparse_system(nw, lattice, centres, ham)


def exact_hk(nw, h0, Rs, Ts, k):
    H = np.array(h0, dtype=complex)
    for R, T in zip(Rs, Ts):
        T = np.array(T, dtype=complex)
        ph = np.exp(2j * np.pi * (k[0] * R[0] + k[1] * R[1]))
        H = H + T * ph + T.conj().T * np.conj(ph)
    return H


def datak(system, k, cls=None, NKFFT=1, **par):
    import wannierberri as wb
    from wannierberri.data_K import get_data_k_class_from_system
    with quiet():
        grid = wb.Grid(system=system, NK=NKFFT, NKFFT=NKFFT)
        cls = cls or get_data_k_class_from_system(system)
        return cls(system, grid=grid, dK=np.array(k, dtype=float), **par)


def private(obj, name, skipped):
    """guarded access to a private attribute of Data_K: None (and a note) when it does not exist any more"""
    try:
        return getattr(obj, name)
    except AttributeError as ex:
        if lib_raised(ex) is not None and name in str(ex):
            skipped[f"Data_K.{name}"] = f"{ex}"[:200]
            return None
        if lib_raised(ex) is not None:
            raise
        skipped[f"Data_K.{name}"] = f"{ex}"[:200]
        return None


def cplx(M):
    return [[complex(x[0], x[1]) for x in row] for row in M]


def to_gauss(M, what, rep, info):
    """complex matrix -> nested [re, im] integers; integrality is verified"""
    M = np.asarray(M)
    out = []
    for row in M:
        o = []
        for z in row:
            re, im = round(z.real), round(z.imag)
            if abs(z.real - re) > 1e-9 or abs(z.imag - im) > 1e-9:
                rep.violation("HH_K:nonintegral_projection", dict(info, what=what, value=str(z)))
                return None
            o.append([int(re), int(im)])
        out.append(o)
    return out


class Draws:
    """counts the draws of scipy.stats.unitary_group (what Data_K uses for the random gauge) while active"""

    def __init__(self):
        self.n = 0

    def __enter__(self):
        import scipy.stats
        self.ug = scipy.stats.unitary_group
        self.orig = self.ug.rvs

        def rvs(*a, **k):
            self.n += 1
            return self.orig(*a, **k)
        try:
            self.ug.rvs = rvs
            self.patched = True
        except Exception:  # noqa
            self.patched = False
        return self

    def __exit__(self, *a):
        if self.patched:
            try:
                del self.ug.rvs
            except Exception:  # noqa
                self.ug.rvs = self.orig
        return False


def diag_system(E):
    nw = len(E)
    return sparse_system(nw, np.eye(3), np.zeros((nw, 3)), {(0, 0, 0): np.diag(np.array(E, dtype=float) * UNIT).astype(complex)})


def real_mixing(E, th, skipped, fft=False):
    """the random gauge on a diagonal model with energies E x UNIT and threshold (th + 1/2) x UNIT:
    -> dict(groups = set of blocks of Data_K.degen or None, mixed = pairs of bands actually mixed (per k-point), unit, draws)"""
    nk = 2 if fft else 1
    with Draws() as dr:
        d = datak(diag_system(E), [0.0, 0.0, 0.0], NKFFT=[2, 1, 1] if fft else 1, random_gauge=True, degen_thresh_random_gauge=(th + 0.5) * UNIT)
        if np.abs(d.E_K - np.array(E)[None, :] * UNIT).max() != 0:
            raise MachineryError("diagonal model does not reproduce its energies exactly")
        np.random.seed(seed() + 17)
        U = private(d, "UU_K", skipped)
        dg = private(d, "degen", skipped)
    groups = None
    if dg is not None:
        try:
            groups = [sorted({(int(a), int(b)) for a, b in dg[ik] if int(b) - int(a) > 1}) for ik in range(nk)]
        except Exception as ex:  # noqa   another representation of the blocks
            skipped["Data_K.degen"] = f"not a list of (begin, end) pairs per k-point: {type(ex).__name__}"
    mixed = unit = None
    if U is not None:
        U = np.asarray(U)
        mixed = [sorted([int(m), int(n)] for m in range(len(E)) for n in range(len(E)) if m != n and abs(U[ik][m, n]) > 1e-12) for ik in range(nk)]
        unit = float(max(np.abs(U[ik].conj().T @ U[ik] - np.eye(len(E))).max() for ik in range(nk)))
    return dict(groups=groups, mixed=mixed, unit=unit, draws=dr.n, counted=dr.patched)


# ------------------------------------------------------------------------------------------------ check
def check(pid, tier):
    rep = Report(pid, tier, "exploration")
    try:
        rc = _check(rep, tier)
    except Exception:
        if rep.violations:          # never lose what was already found
            rep.finish()
        raise
    if rc == 0:
        cleanup()
    return rc


def cleanup():
    """remove this process's TLC / record scratch directories (kept when something was reported, for inspection)"""
    import glob
    import shutil
    from ..common import WORK
    for d in glob.glob(os.path.join(WORK, "tlc", f"*{TAG}*")) + glob.glob(os.path.join(WORK, "records", f"*{TAG}*")):
        shutil.rmtree(d, ignore_errors=True)


def _check(rep, tier):
    thorough = tier == "thorough"
    rng = random.Random(seed() * 6151 + 4)
    import warnings
    warnings.filterwarnings("ignore")
    wd = workdir("c04" + TAG)
    skipped = {}
    rep.rule("TLC enumerates every two-orbital Gaussian-integer model (bounded number of hoppings) x k on the 4x4 mesh, and every sorted integer energy array x "
             "thresholds; a case = one TLC state replayed on real System_R/Data_K objects (exact; a seeded sample of the (model, k) states), one seeded random recorded call validated "
             "by TLC, or (numeric) one (model, k, G, quantity) resp. (model, k, formula, band group) resp. run() comparison; distinct by input")
    rep.assume("hoppings are Gaussian integers and k = kn/4 in the exact part; energies of the gauge part are integers x 1/8, thresholds (integer + 1/2) x 1/8 (no gap equals a threshold)")
    rep.assume(f"numeric per-band comparisons only at k-points with all gaps > {MINGAP} (NonDegenerateK); gauge comparisons require degen_thresh_random_gauge <= degen_thresh (GaugeWithinTrace)")
    try:
        recs = part_hk(rep, rng, thorough, skipped)
        usable = gauge_usable(rep, skipped)
        state = part_gauge_blocks(rep, rng, thorough, recs, skipped, usable)
        numeric_periodic(rep, rng, thorough, skipped)
        if usable:
            numeric_gauge(rep, rng, thorough, wd, skipped, state)
            tetra_point_degeneracy(rep, rng, thorough, wd, skipped, state)
            kramers_fourfold(rep, rng, thorough, skipped, state)
    finally:
        import shutil
        shutil.rmtree(wd, ignore_errors=True)
    if skipped:
        rep.part("skipped_private", **{str(k).replace(" ", "_"): v for k, v in skipped.items()})
    return rep.finish()


def part_hk(rep, rng, thorough, skipped):
    maxnz, gmax = (2, 2) if thorough else (1, 2)
    cfg = f"SPECIFICATION Spec\nCONSTANTS\n  MAXNZ = {maxnz}\n  GMAX = {gmax}\nINVARIANT Periodic\nINVARIANT Hermitian\nCHECK_DEADLOCK FALSE\n"
    st = ftable.enumerate_states("MC_PeriodicityHk.tla", cfg, "c04_hk" + TAG, workers=4)
    ftable.spec_violation(rep, st, "c04_hk")
    rep.add_tlc("c04_hk", st)
    states = sorted(ftable.dump_states(st), key=lambda s: (repr(s["h0"]), repr(s["Ts"]), repr(s["kn"])))     # the dump order depends on the TLC workers
    if len(states) != st["distinct"]:
        raise MachineryError(f"dump has {len(states)} states, TLC reported {st['distinct']}")
    byk = {}
    for s in states:
        byk.setdefault((repr(s["h0"]), repr(s["Ts"])), set()).add(repr(s["hk"]))
    if not any(len(v) >= 4 for v in byk.values()):
        raise MachineryError("vacuous: no model whose H(k) depends on k")
    nsel = 2500 if thorough else 350
    sel = states if len(states) <= nsel else sorted(rng.sample(states, nsel), key=lambda s: (repr(s["h0"]), repr(s["Ts"]), repr(s["kn"])))
    Rs = [(1, 0), (0, 1)]
    worst = worst_e = 0.0
    cache = {}
    nhk = 0
    for s in sel:
        key = (repr(s["h0"]), repr(s["Ts"]))
        if key not in cache:
            cache.clear()
            # centres 0: the Wannier-gauge matrix is then the same in every Fourier convention; random centres: spectrum only
            cen = [[rng.randrange(8) / 8.0, rng.randrange(8) / 8.0, 0.0] for _ in range(2)]
            cache[key] = (model_system(2, cplx(s["h0"]), Rs, [cplx(T) for T in s["Ts"]], np.zeros((2, 3))),
                          model_system(2, cplx(s["h0"]), Rs, [cplx(T) for T in s["Ts"]], cen), cen)
        system0, system1, cen = cache[key]
        kn = s["kn"]
        exp = np.array(cplx(s["hk"]))
        expE = np.linalg.eigvalsh(exp)
        Gs = [(0, 0)] + [(rng.randint(-gmax, gmax), rng.randint(-gmax, gmax)) for _ in range(2)]
        for G in Gs:
            kvec = [kn[0] / 4.0 + G[0], kn[1] / 4.0 + G[1], 0.0]
            info = dict(h0=s["h0"], Rs=Rs, Ts=s["Ts"], kn=list(kn), G=list(G))
            rep.case(("hk", key, tuple(kn), G), nontrivial=any(any(x != (0, 0) for row in T for x in row) for T in s["Ts"]))
            try:
                d0, d1 = datak(system0, kvec), datak(system1, kvec)
                E0, E1 = np.sort(np.asarray(d0.E_K)[0]), np.sort(np.asarray(d1.E_K)[0])
            except Exception as ex:  # noqa
                report_raise(rep, skipped, ex, "Data_K", info)
                continue
            for E, which in ((E0, "centres_zero"), (E1, "random_centres")):
                dev = float(np.abs(E - expE).max())
                worst_e = max(worst_e, dev)
                if dev > 1e-12:
                    rep.violation("E_K:k_plus_G" if G != (0, 0) else "E_K:value", dict(info, centres=which if which == "centres_zero" else cen, expected_spectrum=expE.tolist(),
                                                                                        got=E.tolist(), deviation=dev))
            H = private(d0, "HH_K", skipped)
            if H is not None:
                got = np.asarray(H)[0]
                nhk += 1
                dev = float(np.abs(got - exp).max())
                worst = max(worst, dev)
                if dev > 1e-12:
                    rep.violation("HH_K:k_plus_G" if G != (0, 0) else "HH_K:value", dict(info, centres="all zero", expected=s["hk"], got=str(got.tolist()), deviation=dev))
        rep.sample(dict(fn="H(k) of Data_K_R (centres 0: matrix; random centres: spectrum)", h0=s["h0"], Ts=s["Ts"], kn=list(kn), G=[list(g) for g in Gs], hk=s["hk"]))
    rep.part("replay_hk", states_enumerated=len(states), states_replayed=len(sel), matrices_compared=nhk, max_deviation=worst, max_deviation_spectrum=worst_e, tolerance=1e-12)
    # code -> spec
    recs = []
    nrec = 600 if thorough else 150
    allR = [(1, 0), (0, 1), (1, 1), (1, -1), (2, 0), (0, 2), (2, 1)]
    for _ in range(nrec):
        nw = rng.choice([2, 3])

        def gi():
            return [rng.randint(-2, 2), rng.randint(-2, 2)]
        h0 = [[[0, 0] for _ in range(nw)] for _ in range(nw)]
        for a in range(nw):
            h0[a][a] = [rng.randint(-3, 3), 0]
            for b in range(a + 1, nw):
                z = gi()
                h0[a][b] = z
                h0[b][a] = [z[0], -z[1]]
        Rs2 = rng.sample(allR, rng.randint(1, 3))
        Ts2 = [[[gi() for _ in range(nw)] for _ in range(nw)] for _ in Rs2]
        kn = [rng.randint(0, 3), rng.randint(0, 3)]
        G = [rng.randint(-2, 2), rng.randint(-2, 2)]
        info = dict(h0=h0, Rs=[list(r) for r in Rs2], Ts=Ts2, kn=kn, G=G)
        try:
            system = model_system(nw, cplx(h0), Rs2, [cplx(T) for T in Ts2], np.zeros((nw, 3)))
            d = datak(system, [kn[0] / 4.0 + G[0], kn[1] / 4.0 + G[1], 0.0])
        except Exception as ex:  # noqa
            report_raise(rep, skipped, ex, "Data_K", info)
            continue
        H = private(d, "HH_K", skipped)
        if H is None:
            continue
        hk = to_gauss(np.asarray(H)[0], "HH_K", rep, info)
        if hk is None:
            continue
        recs.append(dict(fn="hk", hk=hk, **info))
        rep.case(("hkrec", repr(info)))
    return recs


def gauge_usable(rep, skipped):
    """the documented observable: evaluate_k with parameters_K={'random_gauge': True} must not raise"""
    import wannierberri as wb
    s = diag_system([0, 0, 1])
    try:
        with quiet():
            wb.evaluate_k(s, k=[0.125, 0.25, 0.0], quantities=["energy", "band_gradients"], parameters_K={"random_gauge": True})
        return True
    except Exception as ex:  # noqa
        site = lib_raised(ex)
        if site is None:
            raise
        rep.violation("Data_K:random_gauge_raises",
                      dict(what="evaluate_k with parameters_K={'random_gauge': True} (the documented option to test gauge covariance) raises",
                           reproduction="wannierberri.evaluate_k(system, k=(0.125,0.25,0), quantities=['energy','band_gradients'], parameters_K={'random_gauge': True}) for a diagonal 3-band System_R",
                           raised_in=site, error=f"{type(ex).__name__}: {ex}"[:300]))
        return False


def part_gauge_blocks(rep, rng, thorough, recs, skipped, usable):
    nb, emax = (6, 3) if thorough else (5, 3)
    base = f"SPECIFICATION Spec\nCONSTANTS\n  NB = {nb}\n  EMAX = {emax}\n  THS = {{0, 1, 2}}\n  RequirePrecond = %s\n  TETRA = FALSE\n  Clip = TRUE\n" + \
        "".join(f"INVARIANT {i}\n" for i in ("Multiplets", "TraceBlocksContain", "KramersTraceBlocksContain", "SeaWhole", "MixSymmetric")) + "CHECK_DEADLOCK FALSE\n"
    st = ftable.enumerate_states("MC_GaugeBlocks.tla", base % "TRUE", "c04_gauge" + TAG, workers=4)
    ftable.spec_violation(rep, st, "c04_gauge")
    rep.add_tlc("c04_gauge", st)
    s0 = tlc.run_tlc("MC_GaugeBlocks.tla", (base % "FALSE").replace(f"NB = {nb}", "NB = 4"), "c04_gauge_noprecond" + TAG, workers=2, timeout=900)
    if not s0.get("violation") or s0["violation"][1] != "TraceBlocksContain":
        raise MachineryError("sensitivity self-test failed: without GaugeWithinTrace the containment must be violated")
    rep.part("c04_gauge_noprecond", sensitivity_violation=s0["violation"][1])
    s1 = tlc.run_tlc("MC_GaugeBlocks.tla", "SPECIFICATION Spec\nCONSTANTS\n  NB = 4\n  EMAX = 1\n  THS = {0}\n  RequirePrecond = TRUE\n  TETRA = FALSE\n  Clip = TRUE\n"
                     "INVARIANT StrictPairsContain\nCHECK_DEADLOCK FALSE\n", "c04_gauge_strict_pairs" + TAG, workers=2, timeout=900)
    if not s1.get("violation") or s1["violation"][1] != "StrictPairsContain":
        raise MachineryError(f"sensitivity self-test failed: strict consecutive pairs must cut a four-fold level ({s1.get('violation')}, {s1.get('error')})")
    rep.part("c04_gauge_strict_pairs", sensitivity_violation=s1["violation"][1])
    inputs = {}
    for s in ftable.dump_states(st):
        inputs.setdefault((tuple(s["E"]), s["thg"]), s)
    if not any(len(s["rg"]) > 0 for s in inputs.values()):
        raise MachineryError("vacuous: no state with a degenerate block")
    state = dict(scipy_draws_seen=False)
    if usable:
        nmix = ndeg = nfft = 0
        for n_, ((E, thg), s) in enumerate(sorted(inputs.items())):
            exp = sorted((a, b) for a, b in s["rg"])
            fft = n_ % 5 == 0                      # every fifth input on a two-point FFT grid: the blocks of every k-point
            info = dict(E=list(E), threshold_in_units=thg + 0.5, unit=UNIT, NKFFT=[2, 1, 1] if fft else [1, 1, 1])
            try:
                r = real_mixing(list(E), thg, skipped, fft=fft)
            except MachineryError:
                raise
            except Exception as ex:  # noqa
                report_raise(rep, skipped, ex, "Data_K(random_gauge=True)", info)
                continue
            rep.case(("degen", E, thg, fft), nontrivial=len(exp) > 0)
            nfft += fft
            if r["draws"] > 0:
                state["scipy_draws_seen"] = True
            if r["groups"] is not None:
                ndeg += 1
                for ik, g in enumerate(r["groups"]):
                    if g != exp:
                        rep.violation("Data_K.degen", dict(info, ik=ik, expected_blocks=exp, got=g))
            if r["mixed"] is None:
                continue
            allowed = {(m, n) for a, b in exp for m in range(a, b) for n in range(a, b)}
            for ik, mixed in enumerate(r["mixed"]):
                if not {tuple(p) for p in mixed} <= allowed:
                    rep.violation("Data_K.UU_K:mixes_outside_blocks", dict(info, ik=ik, blocks=exp, mixed=mixed))
                # every multiplet is really rotated (at every k-point of the grid)
                for a, b in exp:
                    if not any(a <= p[0] < b for p in mixed):
                        rep.violation("Data_K.UU_K:random_gauge_not_applied", dict(info, ik=ik, block=[a, b], mixed=mixed))
            if r["unit"] > 1e-12:
                rep.violation("Data_K.UU_K:not_unitary", dict(info, deviation=r["unit"]))
            nmix += bool(r["mixed"][0])
        if nmix == 0 and "Data_K.UU_K" not in skipped:
            raise MachineryError("vacuous: the random gauge never mixed anything")
        rep.part("replay_gauge", inputs_replayed=len(inputs), with_mixing=nmix, degen_attribute_compared=ndeg, on_two_point_fft_grid=nfft,
                 unitary_draws_counted=state["scipy_draws_seen"])
        # code -> spec
        nrec = 600 if thorough else 150
        for _ in range(nrec):
            n = rng.randint(1, 10)
            E = sorted(rng.choice([0, 0, 1, 2, 3, 5, 8]) + rng.randint(0, 3) * rng.randint(0, 3) for _ in range(n))
            th = rng.choice([0, 1, 2, 3])
            thc = th + rng.choice([0, 0, 1, 2])
            try:
                r = real_mixing(E, th, skipped)
            except MachineryError:
                raise
            except Exception as ex:  # noqa
                report_raise(rep, skipped, ex, "Data_K(random_gauge=True)", dict(E=E, th=th))
                continue
            if r["groups"] is not None:
                recs.append(dict(fn="degen", E=E, th=th, thc=thc, out=[list(g) for g in r["groups"][0]]))
            if r["mixed"] is not None:
                recs.append(dict(fn="uu", E=E, th=th, mixed=r["mixed"][0]))
            rep.case(("degenrec", tuple(E), th))
    tetra_blocks(rep, rng, thorough, recs, skipped)
    # the corrupted records of the binding self-test ride along
    corrupt = []
    b1 = copy.deepcopy([r for r in recs if r["fn"] == "hk" and r["G"] != [0, 0]][:1])
    if b1:
        b1[0]["hk"][0][0][0] += 1
        corrupt += b1
    b2 = copy.deepcopy([r for r in recs if r["fn"] == "degen" and r["out"]][:1])
    if b2:
        b2[0]["out"] = b2[0]["out"][:-1]
        corrupt += b2
    corrupt.append(dict(fn="uu", E=[0, 2, 5], th=1, mixed=[[0, 2]]))
    # the block the unclipped variant would trace: bands 0,1 degenerate at the centre, split in the corners, Fermi level between the corner maxima
    corrupt.append(dict(fn="tetra", E=[0, 0, 4], lo=[0, 0, 4], hi=[0, 2, 4], th=1, thg=1, ef0=1, ef1=7, out=[[0, 2], [0, 1]]))
    if not recs:
        raise MachineryError(f"no record could be taken: {skipped}")
    stv, bad = ftable.validate_records("PeriodicityRec.tla", ftable.REC_CFG, recs + corrupt, "c04" + TAG)
    rep.add_tlc("c04_records", stv)
    rep.add_traces(len(recs))
    for i, clauses in sorted(bad.items()):
        if i < len(recs):
            r = recs[i]
            fn = {"hk": "HH_K", "degen": "Data_K.degen", "uu": "Data_K.UU_K", "tetra": "TetraWeights.weights_all_band_groups"}[r["fn"]]
            rep.violation(f"{fn}:recorded:{clauses[0]}", dict(record=r, failing_clauses=clauses, unit=UNIT))
    smp = [r for r in recs if r["fn"] == "degen" and r["out"]]
    if smp:
        rep.sample(smp[0])
    if not all(len(recs) + n in bad for n in range(len(corrupt))) and not rep.violations:   # (with findings the corrupted copy of a wrong record may be right)
        raise MachineryError(f"binding self-test failed: corrupted records accepted ({ {k: v for k, v in bad.items() if k >= len(recs)} })")
    rep.part("binding_selftest", corrupted_records_rejected={str(k - len(recs)): v for k, v in bad.items() if k >= len(recs)})
    return state


def real_traced(E2, lo2, hi2, th2, ef0, ef1):
    """keys of TetraWeights.weights_all_band_groups(eFermi, der=0) for one k-point whose centre energies are E2 and whose
    corner minima / maxima are lo2 / hi2 (half units x UNIT/2) -> sorted list of [begin, end]"""
    from wannierberri.grid.tetrahedron import TetraWeights
    h = UNIT / 2.0
    nb = len(E2)
    ec = np.array([E2], dtype=float) * h
    corners = np.array([[E2, E2, lo2, hi2]], dtype=float) * h          # (nk, 4 corners, nb): extrema lo2 / hi2
    assert corners.shape == (1, 4, nb)
    tw = TetraWeights(ec, corners)
    res = tw.weights_all_band_groups(np.array([ef0 * h, ef1 * h]), der=0, degen_thresh=th2 * h)
    return sorted([int(a), int(b)] for a, b in res[0].keys())


def tetra_blocks(rep, rng, thorough, recs, skipped):
    """band blocks a tetrahedron calculator traces vs the blocks the random gauge may rotate: TLC model, replay on the real
    TetraWeights, records"""
    nb = 4 if thorough else 3
    tb = (f"SPECIFICATION Spec\nCONSTANTS\n  NB = {nb}\n  EMAX = 2\n  THS = {{0, 1}}\n  RequirePrecond = TRUE\n  TETRA = TRUE\n  Clip = %s\n"
          "INVARIANT TracedBlocksAreUnionsOfMultiplets\nINVARIANT Multiplets\nCHECK_DEADLOCK FALSE\n")
    st = ftable.enumerate_states("MC_GaugeBlocks.tla", tb % "TRUE", "c04_tetra" + TAG, workers=4)
    ftable.spec_violation(rep, st, "c04_tetra")
    rep.add_tlc("c04_tetra", st)
    s0 = tlc.run_tlc("MC_GaugeBlocks.tla", (tb % "FALSE").replace(f"NB = {nb}", "NB = 2"), "c04_tetra_noclip" + TAG, workers=2, timeout=900)
    if not s0.get("violation") or s0["violation"][1] != "TracedBlocksAreUnionsOfMultiplets":
        raise MachineryError(f"sensitivity self-test failed: without the clip of the occupied block a multiplet must be cut ({s0.get('violation')}, {s0.get('error')})")
    rep.part("c04_tetra_noclip", sensitivity_violation=s0["violation"][1])
    states = sorted(ftable.dump_states(st), key=lambda s: (repr(s["E"]), s["thg"], s["thc"], repr(s["tet"])))
    nsel = 1500 if thorough else 400
    sel = states if len(states) <= nsel else rng.sample(states, nsel)
    ncut = nrep = ndiff = 0
    for s in sel:
        t = s["tet"]
        E2 = [2 * e for e in s["E"]]
        exp = sorted([int(a), int(b)] for a, b in t["traced"])
        info = dict(centre=E2, corner_min=list(t["lo"]), corner_max=list(t["hi"]), degen_thresh=2 * s["thc"] + 1, eFermi=[t["ef0"], t["ef1"]], unit="1/16")
        # does the input have a multiplet whose partners have different corner maxima around ef0 (the class the clip is for)?
        ncut += any(b - a > 1 and min(t["hi"][a:b]) < t["ef0"] <= max(t["hi"][a:b]) for a, b in s["rg"])
        try:
            got = real_traced(E2, list(t["lo"]), list(t["hi"]), 2 * s["thc"] + 1, t["ef0"], t["ef1"])
        except Exception as ex:  # noqa
            report_raise(rep, skipped, ex, "TetraWeights", info)
            if lib_raised(ex) is None:
                break
            continue
        nrep += 1
        rep.case(("tetra", tuple(E2), tuple(t["lo"]), tuple(t["hi"]), s["thc"], t["ef0"], t["ef1"]))
        # how the traced bands are cut into blocks is free; required: the same bands, none twice, no multiplet of the random gauge cut
        bands = [n for a, b in got for n in range(a, b)]
        cut = [[list(t_), list(g)] for t_ in got for g in s["rg"] if any(t_[0] <= n < t_[1] for n in range(g[0], g[1])) and not all(t_[0] <= n < t_[1] for n in range(g[0], g[1]))]
        if cut or len(set(bands)) != len(bands) or set(bands) != {n for a, b in exp for n in range(a, b)}:
            rep.violation("TetraWeights.weights_all_band_groups:traced_blocks", dict(info, expected=exp, got=got, multiplets_of_the_random_gauge=[list(g) for g in s["rg"]],
                                                                                    blocks_cutting_a_multiplet=cut))
        elif got != exp:
            ndiff += 1
    if nrep and ncut == 0:
        raise MachineryError("vacuous: no tetrahedron input with a multiplet split in the corners around the lowest Fermi level")
    rep.part("replay_tetra", states_enumerated=len(states), replayed=nrep, with_multiplet_split_in_corners=ncut, same_bands_other_blocks_than_the_model=ndiff)
    # code -> spec
    if nrep:
        for _ in range(300 if thorough else 80):
            n = rng.randint(1, 7)
            E = sorted(rng.choice([0, 0, 1, 2, 3, 5]) + rng.randint(0, 2) for _ in range(n))
            E2 = [2 * e for e in E]
            hi = [e + 2 * rng.choice([0, 0, 1, 2]) for e in E2]
            lo = [e - 2 * rng.choice([0, 0, 1]) for e in E2]
            thg = rng.choice([0, 1])
            th = thg + rng.choice([0, 0, 1])
            ef0 = 2 * rng.randint(0, max(E) + 2) - 1
            ef1 = ef0 + 2 * rng.choice([0, 1, 3, 20])
            try:
                out = real_traced(E2, lo, hi, 2 * th + 1, ef0, ef1)
            except Exception as ex:  # noqa
                report_raise(rep, skipped, ex, "TetraWeights", dict(centre=E2, corner_min=lo, corner_max=hi))
                break
            recs.append(dict(fn="tetra", E=E2, lo=lo, hi=hi, th=2 * th + 1, thg=2 * thg + 1, ef0=ef0, ef1=ef1, out=out))
            rep.case(("tetrarec", tuple(E2), tuple(lo), tuple(hi), th, ef0, ef1))


# ------------------------------------------------------------------------------------------------ numeric parts
def _arr(v):
    return v if isinstance(v, np.ndarray) else np.asarray(v.data[0] if hasattr(v, "data") else v)


def compare_kG(rep, worst, tag, info, r0, r1, key_of):
    n = 0
    for q in r0:
        scale = max(1.0, float(np.abs(r0[q]).max()))
        dev = float(np.abs(r0[q] - r1[q]).max())
        worst[q] = max(worst.get(q, 0.0), dev / scale)
        n += 1
        rep.case(key_of(q), nontrivial=np.abs(r0[q]).max() > 1e-6)
        if dev > TOL * scale:
            rep.violation(f"{tag}:{q}", dict(info, at_k=np.asarray(r0[q]).tolist(), at_kG=np.asarray(r1[q]).tolist(), deviation=dev))
    return n


def numeric_periodic(rep, rng, thorough, skipped):
    import wannierberri as wb
    from wannierberri import calculators as calc
    from . import kmodels as km
    nmod = 10 if thorough else 3
    nk = 4 if thorough else 2
    worst = {}
    ncase = 0
    for im in range(nmod):
        spinful = im % 2 == 1
        keys = ("Ham", "AA", "BB", "CC") + (("SS",) if spinful else ())
        m = km.build(rng.randrange(1 << 30), nw=2 if spinful else rng.choice([2, 3]), dim=rng.choice([2, 3]), keys=keys, spinful=spinful)
        s = m.system()
        quantities = ["energy", "band_gradients", "berry_curvature", "berry_curvature_internal_terms", "berry_curvature_external_terms"] + (["spin"] if spinful else [])

        def calcs():
            return {"morb": calc.tabulate.OrbitalMoment(), "morb_internal": calc.tabulate.OrbitalMoment(kwargs_formula={"external_terms": False}),
                    "der_berry": calc.tabulate.DerBerryCurvature(), "inv_mass": calc.tabulate.InvMass()}
        r = np.random.RandomState(rng.randrange(1 << 30))
        done = 0
        for _ in range(40):
            if done >= nk:
                break
            k = km.generic_k(r, dim=m.meta["dim"])
            if km.min_gap(m, k) < MINGAP:
                continue
            done += 1
            info = dict(model=m.dump(), k=k.tolist())
            try:
                with quiet():
                    r0 = wb.evaluate_k(s, k=k, quantities=quantities, calculators=calcs(), return_single_as_dict=True)
                r0 = {q: _arr(v) for q, v in r0.items()}
            except Exception as ex:  # noqa
                report_raise(rep, skipped, ex, "evaluate_k", info)
                continue
            for _g in range(3 if thorough else 2):
                G = np.array([r.randint(-2, 3) for _ in range(3)])
                if not G.any():
                    G[0] = 2
                try:
                    with quiet():
                        r1 = wb.evaluate_k(s, k=k + G, quantities=quantities, calculators=calcs(), return_single_as_dict=True)
                    r1 = {q: _arr(v) for q, v in r1.items()}
                except Exception as ex:  # noqa
                    report_raise(rep, skipped, ex, "evaluate_k", dict(info, G=G.tolist()))
                    continue
                ncase += compare_kG(rep, worst, "evaluate_k:k_plus_G", dict(info, G=G.tolist()), r0, r1, lambda q: ("kG", m.meta["seed"], tuple(k), tuple(G), q))
                for q in r0:
                    if q != "energy" and q != "spin" and np.abs(r0[q]).max() < 1e-9:
                        raise MachineryError(f"vacuous: {q} vanishes on a random model")
        if done < nk:
            raise MachineryError("no non-degenerate k-point")
        # the FFT path: tabulators and integrators called on a 2x2x1 Data_K at dK and at dK + G
        if im == 0 or thorough:
            ncase += fft_periodic(rep, rng, r, m, s, spinful, worst, skipped)
    # a SystemSOC (two spin channels with different R-vector sets + SOC term)
    ncase += soc_periodic(rep, rng, thorough, worst, skipped)
    rep.part("numeric_only", k_plus_G_cases=ncase, k_plus_G_max_rel_dev=worst, tolerance=TOL)


def fft_periodic(rep, rng, r, m, s, spinful, worst, skipped):
    from wannierberri import calculators as calc
    from . import kmodels as km
    nz = [2, 2, 1] if m.meta["dim"] == 2 else [2, 2, 2]
    for _ in range(40):
        k0 = km.generic_k(r, dim=m.meta["dim"]) / np.array(nz)
        pts = [k0 + np.array([i, j, l]) / np.array(nz) for i in range(nz[0]) for j in range(nz[1]) for l in range(nz[2])]
        if min(km.min_gap(m, p) for p in pts) >= MINGAP:
            break
    else:
        raise MachineryError("no non-degenerate FFT grid")
    E = np.concatenate([np.linalg.eigvalsh(m.Hk(p)) for p in pts])
    Ef = np.linspace(float(E.min()) - 0.2, float(E.max()) + 0.2, 5)
    G = np.array([r.randint(-2, 3) for _ in range(3)])
    if not G.any():
        G[1] = -1
    info = dict(model=m.dump(), dK=k0.tolist(), NKFFT=nz, G=G.tolist())

    def evaluate(dK):
        d = datak(s, dK, NKFFT=nz)
        cs = {"tab_energy": calc.tabulate.Energy(), "tab_berry": calc.tabulate.BerryCurvature(), "tab_morb": calc.tabulate.OrbitalMoment(),
              "tab_velocity": calc.tabulate.Velocity(), "ahc": calc.static.AHC(Efermi=Ef), "dos": calc.static.DOS(Efermi=Ef), "morb": calc.static.Morb(Efermi=Ef)}
        if spinful:
            cs["tab_spin"] = calc.tabulate.Spin()
        out = {}
        with quiet():
            for n, c in cs.items():
                out["fft_grid:" + n] = np.asarray(c(d).data)
        return out
    try:
        r0, r1 = evaluate(k0), evaluate(k0 + G)
    except Exception as ex:  # noqa
        report_raise(rep, skipped, ex, "calculators_on_fft_grid", info)
        return 0
    if np.abs(r0["fft_grid:tab_berry"]).max() < 1e-9:
        raise MachineryError("vacuous: Berry curvature vanishes on the FFT grid")
    return compare_kG(rep, worst, "Data_K:k_plus_G", info, r0, r1, lambda q: ("kG_fft", m.meta["seed"], tuple(k0), tuple(G), q))


def soc_periodic(rep, rng, thorough, worst, skipped):
    import wannierberri as wb
    try:
        from ._ksym import random_system_soc
        r = np.random.RandomState(rng.randrange(1 << 30))
        soc = random_system_soc(r, nw=2)
    except Exception as ex:  # noqa   harness-side construction through non-public names
        if lib_raised(ex) is not None:
            report_raise(rep, skipped, ex, "SystemSOC", {})
        else:
            skipped["SystemSOC"] = f"{type(ex).__name__}: {ex}"[:200]
        return 0
    if soc is None:
        skipped["SystemSOC"] = "cannot be assembled through the non-public names any more"
        return 0
    quantities = ["energy", "band_gradients", "berry_curvature"]
    n = done = 0
    for _ in range(40):
        if done >= (3 if thorough else 1):
            break
        k = (r.randint(1, 32, size=3) * 2 + 1) / 64.0
        info = dict(system="SystemSOC(up, down) with random SOC term", k=k.tolist())
        try:
            with quiet():
                r0 = {q: _arr(v) for q, v in wb.evaluate_k(soc, k=k, quantities=quantities, return_single_as_dict=True).items()}
            if np.min(np.diff(np.sort(r0["energy"].reshape(-1)))) < MINGAP:
                continue
            done += 1
            G = np.array([r.randint(-2, 3) for _ in range(3)])
            if not G.any():
                G[2] = 1
            with quiet():
                r1 = {q: _arr(v) for q, v in wb.evaluate_k(soc, k=k + G, quantities=quantities, return_single_as_dict=True).items()}
        except Exception as ex:  # noqa
            report_raise(rep, skipped, ex, "evaluate_k:SystemSOC", info)
            return n
        r0 = {"soc:" + q: v for q, v in r0.items()}
        r1 = {"soc:" + q: v for q, v in r1.items()}
        n += compare_kG(rep, worst, "evaluate_k:k_plus_G", dict(info, G=G.tolist()), r0, r1, lambda q: ("kG_soc", tuple(k), tuple(G), q))
    return n


def multiplet_system(rng, fold=2, nw=3, dim=2, split=0.0):
    """system with an exact `fold`-fold degeneracy at every k: Ham = H0 (x) 1_fold [+ split * 1 (x) diag(0..fold-1)], with random
    Hermitian external-term matrices and a random Hermitian 'SS' that are NOT block diagonal (so that traces over the
    multiplets are non-trivial).  -> (model of H0, system, blocks)"""
    from . import kmodels as km
    m = km.build(rng.randrange(1 << 30), nw=nw, dim=dim, keys=("Ham",))
    big = km.build(rng.randrange(1 << 30), nw=fold * nw, dim=dim, keys=("Ham", "AA", "BB", "CC", "FF", "SS"), centres="zero")
    s = big.system()
    n = fold * nw
    H = np.zeros((s.rvec.nRvec, n, n), dtype=complex)
    for R, M in m.mats["Ham"].items():
        try:
            iR = s.rvec.iR(R)
        except Exception as ex:  # noqa
            raise MachineryError(f"R-vector {R} of the small model is missing in the big one: {ex}")
        H[iR] = np.kron(np.asarray(M), np.eye(fold))
    if split:
        H[s.rvec.iR((0, 0, 0))] += split * np.kron(np.eye(nw), np.diag(np.arange(fold, dtype=float)))
    s.set_R_mat("Ham", H, reset=True)
    return m, s, [(fold * j, fold * j + fold) for j in range(nw)]


def spin_copies_system(rng, nw=3, dim=2):
    """doubled-spin system (two identical copies: the external-term matrices are block diagonal in the copies) with a random
    Hermitian 'SS' that is NOT block diagonal.  -> (model, system, blocks)"""
    from . import kmodels as km
    m = km.build(rng.randrange(1 << 30), nw=nw, dim=dim, keys=("Ham", "AA", "BB", "CC", "FF"))
    s = m.system()
    with quiet():
        s.double_spin()
    ms = km.build(rng.randrange(1 << 30), nw=2 * nw, dim=dim, keys=("SS",), centres="zero")
    SS = np.zeros((s.rvec.nRvec, 2 * nw, 2 * nw, 3), dtype=complex)
    for R, M in ms.mats["SS"].items():
        try:
            SS[s.rvec.iR(R)] = M
        except Exception:  # noqa
            pass
    SS = 0.5 * (SS + s.rvec.conj_XX_R(SS))          # keep it Hermitian on the R-set of the system
    s.set_R_mat("SS", SS, reset=True)
    return m, s, [(2 * j, 2 * j + 2) for j in range(nw)]


def point_degenerate_system(rng, nw0=2, copies=1):
    """H(k) = H0(k) (x) 1_2 + sum_a sin(2 pi k_a) M_a (dyadic entries): every level is exactly two-fold degenerate at the eight
    time-reversal invariant momenta (which belong to a 4x4x4 grid) and split everywhere else, in particular in the corners of the
    k-cells around them.  Random Hermitian external-term matrices.  -> (system, Hk function)"""
    from . import kmodels as km
    m = km.build(rng.randrange(1 << 30), nw=nw0, dim=3, keys=("Ham",))
    big = km.build(rng.randrange(1 << 30), nw=2 * nw0, dim=3, keys=("Ham", "AA", "BB", "CC", "FF", "SS"), centres="zero")
    s = big.system()
    if copies == 2:
        s2 = km.build(rng.randrange(1 << 30), nw=4 * nw0, dim=3, keys=("Ham", "AA", "BB", "CC", "FF", "SS"), centres="zero").system()
    n = 2 * nw0
    H = np.zeros((s.rvec.nRvec, n, n), dtype=complex)
    for R, M in m.mats["Ham"].items():
        try:
            iR = s.rvec.iR(R)
        except Exception as ex:  # noqa
            raise MachineryError(f"R-vector {R} of the small model is missing in the big one: {ex}")
        H[iR] = np.kron(np.asarray(M), np.eye(2))
    for a in range(3):
        X = np.array([[complex(rng.randint(-6, 6), rng.randint(-6, 6)) / 16.0 for _ in range(n)] for _ in range(n)])
        Ma = (X + X.conj().T) / 2
        R = [0, 0, 0]
        R[a] = 1
        H[s.rvec.iR(tuple(R))] += Ma / 2j
        R[a] = -1
        H[s.rvec.iR(tuple(R))] += -Ma / 2j
    if copies == 2:             # two interlaced copies: pairs at every k, four-fold levels at the TRIMs
        H2 = np.zeros((s2.rvec.nRvec, 2 * n, 2 * n), dtype=complex)
        for R in [tuple(int(x) for x in r) for r in np.array(s.rvec.iRvec)]:
            H2[s2.rvec.iR(R), ::2, ::2] = H[s.rvec.iR(R)]
            H2[s2.rvec.iR(R), 1::2, 1::2] = H[s.rvec.iR(R)]
        s, H = s2, H2
    s.set_R_mat("Ham", H, reset=True)
    iRvec = np.array(s.rvec.iRvec)

    def Hk(k):
        return np.einsum("r,rab->ab", np.exp(2j * np.pi * iRvec.dot(np.asarray(k, dtype=float))), H)
    return s, Hk, dict(seed_H0=m.meta["seed"], note="H0 (x) 1_2 + sum_a sin(2 pi k_a) M_a")


def tetra_point_degeneracy(rep, rng, thorough, wd, skipped, state):
    """run(tetra=True) on a model whose bands are degenerate only at grid points (TRIMs), with the lowest Fermi level between
    the corner maxima of the two partners of the lowest level: Fermi-sea integrals with random_gauge True / False"""
    import wannierberri as wb
    from wannierberri import calculators as calc
    worst = 0.0
    ndone = 0
    for _ in range(30):
        if ndone >= (2 if thorough else 1):
            break
        s, Hk, meta = point_degenerate_system(rng)
        e0 = np.linalg.eigvalsh(Hk([0, 0, 0]))
        ec = np.array([np.linalg.eigvalsh(Hk([sx / 8, sy / 8, sz / 8])) for sx in (-1, 1) for sy in (-1, 1) for sz in (-1, 1)])
        emax0, emax1 = max(e0[0], ec[:, 0].max()), max(e0[1], ec[:, 1].max())
        if abs(e0[0] - e0[1]) > 1e-10 or emax1 - emax0 < 0.05 or e0[2] - emax1 < 0.3 or np.min(ec[:, 1] - ec[:, 0]) < 1e-2:
            continue
        ndone += 1
        # lowest level above the whole band 0 of the cell around Gamma, inside band 1 of that cell
        Ef = np.array([0.5 * (emax0 + emax1), emax1 + 0.1, 0.5 * (emax1 + e0[2])])
        info = dict(meta, Efermi=Ef.tolist(), grid="NK=4x4x4, NKFFT=2x2x2", degenerate_at="the 8 TRIMs only",
                    corner_maxima_of_the_partners_at_Gamma=[float(emax0), float(emax1)])

        def icalcs():
            kw = dict(Efermi=Ef, tetra=True, save_mode="")
            return {"ahc": calc.static.AHC(**kw), "ahc_internal": calc.static.AHC(kwargs_formula={"external_terms": False}, **kw),
                    "ohmic": calc.static.Ohmic_FermiSea(**kw), "cumdos": calc.static.CumDOS(**kw)}
        out = []
        try:
            for rg in (False, True):
                np.random.seed(rng.randrange(1 << 30))
                with quiet(), Draws() as dr:
                    grid = wb.Grid(s, NK=[4, 4, 4], NKFFT=[2, 2, 2])
                    out.append(wb.run(s, grid, icalcs(), parallel=False, adpt_num_iter=0, use_irred_kpt=False, symmetrize=False, fout_name=f"{wd}/run_tetra",
                                      parameters_K={"random_gauge": rg}, print_progress_step_time=1e9))
        except Exception as ex:  # noqa
            report_raise(rep, skipped, ex, "random_gauge:run:tetra", info)
            continue
        if state["scipy_draws_seen"] and dr.n < 16:
            rep.violation("random_gauge:not_applied:run", dict(info, unitary_draws=dr.n, expected_at_least=16,
                                                              note="two degenerate pairs at each of the 8 TRIMs of the grid were not all rotated"))
        for key in ("ahc", "ahc_internal", "ohmic", "cumdos"):
            a, b = np.asarray(out[0].results[key].data), np.asarray(out[1].results[key].data)
            scale = max(1.0, float(np.abs(a).max()))
            dev = float(np.abs(a - b).max())
            worst = max(worst, dev / scale)
            rep.case(("gauge_run_tetra_point_degeneracy", key, meta["seed_H0"]), nontrivial=np.abs(a).max() > 1e-9)
            if dev > TOL * scale:
                rep.violation(f"random_gauge:run:tetra:{key}", dict(info, fixed_gauge=a.tolist(), random_gauge=b.tolist(), deviation=dev, scale=scale,
                                                                   note="Fermi-sea integral with the tetrahedron method, lowest Fermi level inside the corner spread of a level that is degenerate at the grid point"))
    if ndone == 0:
        raise MachineryError("no model with a suitable point degeneracy found")
    rep.part("numeric_only", tetra_point_degeneracy_runs=ndone, tetra_point_degeneracy_max_rel_dev=worst)


def kramers_fourfold(rep, rng, thorough, skipped, state):
    """tabulators created with degen_Kramers=True on a model whose levels are pairs at every k and four-fold at the TRIMs:
    evaluate_k with random_gauge True / False at two TRIMs and at a generic point"""
    import wannierberri as wb
    from wannierberri import calculators as calc
    worst = 0.0
    n = 0
    for _ in range(2 if thorough else 1):
        s, Hk, meta = point_degenerate_system(rng, copies=2)
        for k in ([0.0, 0.0, 0.0], [0.5, 0.0, 0.5], [0.171875, 0.296875, 0.40625]):
            E = np.linalg.eigvalsh(Hk(k))
            gaps = np.diff(E)
            if np.any((gaps > 1e-6) & (gaps < MINGAP)):
                continue
            info = dict(meta, k=k, degen_Kramers=True, level_multiplicities=[int(x) for x in np.diff(np.concatenate([[0], np.where(gaps > 1e-6)[0] + 1, [len(E)]]))])

            def calcs():
                kw = dict(degen_Kramers=True)
                return {"velocity": calc.tabulate.Velocity(**kw), "berry": calc.tabulate.BerryCurvature(**kw),
                        "berry_internal": calc.tabulate.BerryCurvature(kwargs_formula={"external_terms": False}, **kw),
                        "spin": calc.tabulate.Spin(**kw), "morb": calc.tabulate.OrbitalMoment(**kw)}
            res = []
            try:
                for rg in (False, True):
                    np.random.seed(rng.randrange(1 << 30))
                    with quiet():
                        x = wb.evaluate_k(s, k=k, quantities=[], calculators=calcs(), return_single_as_dict=True, parameters_K={"random_gauge": rg})
                    res.append({q: _arr(v) for q, v in x.items()})
            except Exception as ex:  # noqa
                report_raise(rep, skipped, ex, "random_gauge:evaluate_k:degen_Kramers", info)
                continue
            for q in res[0]:
                scale = max(1.0, float(np.abs(res[0][q]).max()))
                dev = float(np.abs(res[0][q] - res[1][q]).max())
                worst = max(worst, dev / scale)
                n += 1
                rep.case(("gauge_kramers", q, meta["seed_H0"], tuple(k)), nontrivial=np.abs(res[0][q]).max() > 1e-6)
                if dev > TOL * scale:
                    rep.violation(f"random_gauge:degen_Kramers:{q}", dict(info, fixed_gauge=res[0][q].tolist(), random_gauge=res[1][q].tolist(), deviation=dev))
    if n == 0:
        raise MachineryError("vacuous: no degen_Kramers comparison made")
    rep.part("numeric_only", degen_Kramers_cases=n, degen_Kramers_max_rel_dev=worst)


def multiplet_groups(nb, blocks):
    gs = [("multiplet", np.arange(a, b)) for a, b in blocks]
    gs.append(("sea", np.arange(0, blocks[0][1])))
    if len(blocks) > 2:
        gs.append(("sea", np.arange(0, blocks[1][1])))
    return gs


def multiplet_values(entry, obj, nb, blocks):
    """traces over whole multiplets / seas of multiplets -> list of (label, array with a leading axis of length 1)"""
    out = []
    allb = np.arange(nb)
    gs = multiplet_groups(nb, blocks)
    if entry["kind"] == "ln":
        for lab, inn in gs:
            v = obj.trace(0, inn, np.setdiff1d(allb, inn))
            out.append((f"{lab}{inn.tolist()}", np.array(v, dtype=float).reshape((1,) + np.shape(v))))
    else:
        base = [g for g in gs if g[0] == "multiplet"]
        for l1, i1 in base:
            for l2, i2 in base:
                v = obj.trace_ln(0, i1, i2)
                out.append((f"{l1}{i1.tolist()}x{i2.tolist()}", np.array(v).reshape((1,) + np.shape(v))))
    return out


def numeric_gauge(rep, rng, thorough, wd, skipped, state):
    import wannierberri as wb
    from wannierberri import calculators as calc
    from . import kmodels as km
    from .c08 import registry, variant_tag
    nk = 3 if thorough else 1
    worst = 0.0
    ncase = 0
    counted = dict(evaluate_k=None, run=None)
    reg = [e for e in registry() if not e["label"].startswith(("SpinVelocity(ryoo", "SpinVelocity(qiao", "SpinOmega(ryoo", "SpinOmega(qiao", "Formula_SHC(ryoo", "Formula_SHC(qiao"))]
    # (label, multiplicity, orbitals of H0, splitting inside the multiplets, with run()?)
    kinds = [("spin_copies", 2, 3, 0.0, True), ("twofold", 2, 2, 0.0, False), ("threefold", 3, 2, 0.0, False), ("near_degenerate", 2, 2, SPLIT, False)]
    if thorough:
        kinds = kinds + [("spin_copies", 2, 3, 0.0, True), ("twofold", 2, 3, 0.0, True), ("spin_copies", 2, 2, 0.0, True), ("near_degenerate", 2, 3, SPLIT, False)]
    candidate = {}
    for label, fold, nw, split, with_run in kinds:
        if label == "spin_copies":
            m, s, blocks = spin_copies_system(rng, nw=nw)
        else:
            m, s, blocks = multiplet_system(rng, fold=fold, nw=nw, split=split)
        nb = s.num_wann
        r = np.random.RandomState(rng.randrange(1 << 30))
        done = 0
        sysinfo = dict(kind=label, multiplicity=fold, splitting=split, model=m.dump())
        for _ in range(40):
            if done >= nk:
                break
            k = km.generic_k(r, dim=2)
            if km.min_gap(m, k) < MINGAP:    # gaps between different multiplets
                continue
            done += 1
            info = dict(sysinfo, k=k.tolist())
            np.random.seed(rng.randrange(1 << 30))
            try:
                d0 = datak(s, k, random_gauge=False)
            except Exception as ex:  # noqa
                raise MachineryError(f"cannot build the reference Data_K: {ex}")
            try:
                with Draws() as dr:
                    d1 = datak(s, k, random_gauge=True)
                    U1 = private(d1, "UU_K", skipped)
            except Exception as ex:  # noqa
                report_raise(rep, skipped, ex, "Data_K(random_gauge=True)", info)
                continue
            U0 = private(d0, "UU_K", skipped)
            if U0 is not None and U1 is not None and np.abs(np.asarray(U0) - np.asarray(U1)).max() < 1e-3:
                rep.violation("random_gauge:not_applied:Data_K", dict(info, note="eigenvectors with random_gauge=True equal those with random_gauge=False on a model whose bands are all degenerate"))
                continue
            if U0 is None and state["scipy_draws_seen"] and dr.n == 0:
                rep.violation("random_gauge:not_applied:Data_K", dict(info, note="no unitary was drawn"))
                continue
            # (1) traces of every calculator formula over the multiplets / sea blocks
            for e in reg:
                try:
                    with quiet():
                        o0 = e["make"](d0)
                        vals0 = multiplet_values(e, o0, nb, blocks)
                except Exception as ex:  # noqa   the reference gauge: nothing to compare with
                    if lib_raised(ex) is None:
                        skipped["formula:" + e["label"]] = f"{type(ex).__name__}: {ex}"[:200]
                        continue
                    raise MachineryError(f"cannot build {e['label']} in the reference gauge: {ex}")
                try:
                    with quiet():
                        o1 = e["make"](d1)
                        vals1 = multiplet_values(e, o1, nb, blocks)
                except Exception as ex:  # noqa   raises only in the random gauge
                    site = lib_raised(ex)
                    if site is None:
                        raise
                    rep.violation(f"random_gauge:formula_raises:{e['name']}{variant_tag(e)}",
                                  dict(info, formula=e["label"], raised_in=site, error=f"{type(ex).__name__}: {ex}"[:300], note="the same formula is fine with random_gauge=False"))
                    continue
                for (lab, v0), (_, v1) in zip(vals0, vals1):
                    scale = max(1.0, float(np.abs(v0).max()))
                    dev = float(np.abs(v0 - v1).max())
                    ncase += 1
                    rep.case(("gauge_formula", label, e["label"], m.meta["seed"], tuple(k), lab), nontrivial=np.abs(v0).max() > 1e-6)
                    if not (label != "spin_copies" and e["name"] in ABELIAN_FORMULAS):
                        worst = max(worst, dev / scale)
                    if dev > TOL * scale and label != "spin_copies" and e["name"] in ABELIAN_FORMULAS:
                        c = candidate.setdefault(e["label"], dict(max_relative_deviation=0.0, systems=[]))
                        c["max_relative_deviation"] = max(c["max_relative_deviation"], dev / scale)
                        if label not in c["systems"]:
                            c["systems"].append(label)
                    elif dev > TOL * scale:
                        rep.violation(f"random_gauge:formula:{e['name']}{variant_tag(e)}",
                                      dict(info, formula=e["label"], group=lab, fixed_gauge=str(np.array(v0)[0].tolist()),
                                           random_gauge=str(np.array(v1)[0].tolist()), deviation=dev))
            # (1b) integrators on the Data_K objects with Fermi levels INSIDE the multiplets (and between them)
            Ek = np.sort(np.asarray(d0.E_K)[0])
            Ef = np.sort(np.concatenate([[0.5 * (Ek[a] + Ek[b - 1]) for a, b in blocks], [0.5 * (Ek[b - 1] + Ek[b]) for a, b in blocks[:-1]]]))
            ics = {"AHC": lambda: calc.static.AHC(Efermi=Ef), "DOS": lambda: calc.static.DOS(Efermi=Ef), "Morb": lambda: calc.static.Morb(Efermi=Ef),
                   "Spin": lambda: calc.static.Spin(Efermi=Ef), "Ohmic_FermiSea": lambda: calc.static.Ohmic_FermiSea(Efermi=Ef)}
            for cn, mk in ics.items():
                try:
                    with quiet():
                        a = np.asarray(mk()(d0).data)
                except Exception as ex:  # noqa
                    if lib_raised(ex) is None:
                        skipped["integrator:" + cn] = f"{type(ex).__name__}: {ex}"[:200]
                        continue
                    raise MachineryError(f"integrator {cn} fails in the reference gauge: {ex}")
                try:
                    with quiet():
                        b = np.asarray(mk()(d1).data)
                except Exception as ex:  # noqa
                    report_raise(rep, skipped, ex, f"random_gauge:integrator:{cn}", info)
                    continue
                scale = max(1.0, float(np.abs(a).max()))
                dev = float(np.abs(a - b).max())
                worst = max(worst, dev / scale)
                ncase += 1
                rep.case(("gauge_fermi_in_multiplet", label, cn, m.meta["seed"], tuple(k)), nontrivial=np.abs(a).max() > 1e-9)
                if dev > TOL * scale:
                    rep.violation(f"random_gauge:fermi_level_in_multiplet:{cn}", dict(info, Efermi=Ef.tolist(), fixed_gauge=a.tolist(), random_gauge=b.tolist(), deviation=dev))
            # (2) evaluate_k tabulations
            quantities = ["energy", "band_gradients", "berry_curvature", "berry_curvature_internal_terms", "berry_curvature_external_terms", "spin"]

            def calcs():
                return {"morb": calc.tabulate.OrbitalMoment(), "der_berry": calc.tabulate.DerBerryCurvature(), "der_spin": calc.tabulate.DerSpin(),
                        "der3E": calc.tabulate.Der3E(), "der_morb": calc.tabulate.DerOrbitalMoment()}
            res = []
            try:
                for rg in (False, True):
                    np.random.seed(rng.randrange(1 << 30))
                    with quiet(), Draws() as dr:
                        x = wb.evaluate_k(s, k=k, quantities=quantities, calculators=calcs(), return_single_as_dict=True, parameters_K={"random_gauge": rg})
                    res.append({q: _arr(v) for q, v in x.items()})
                    if rg:
                        counted["evaluate_k"] = dr.n
            except Exception as ex:  # noqa
                report_raise(rep, skipped, ex, "random_gauge:evaluate_k", info)
                continue
            if state["scipy_draws_seen"] and dr.n < len(blocks):
                rep.violation("random_gauge:not_applied:evaluate_k", dict(info, multiplets=len(blocks), unitary_draws=dr.n,
                                                                         note="evaluate_k(..., parameters_K={'random_gauge': True}) did not rotate every multiplet"))
            for q in res[0]:
                scale = max(1.0, float(np.abs(res[0][q]).max()))
                dev = float(np.abs(res[0][q] - res[1][q]).max())
                worst = max(worst, dev / scale)
                ncase += 1
                rep.case(("gauge_evalk", label, q, m.meta["seed"], tuple(k)), nontrivial=np.abs(res[0][q]).max() > 1e-6)
                if dev > TOL * scale:
                    rep.violation(f"random_gauge:evaluate_k:{q}", dict(info, fixed_gauge=res[0][q].tolist(), random_gauge=res[1][q].tolist(), deviation=dev))
        if done < nk:
            raise MachineryError("no suitable k-point")
        if not with_run:
            continue
        # (3) run(): integrated and tabulated
        Es = np.concatenate([np.linalg.eigvalsh(m.Hk(np.array([i, j, 0]) / 4.0)) for i in range(4) for j in range(4)])
        Ef = np.linspace(float(Es.min()) - 0.3, float(Es.max()) + 0.3, 7)
        omega = np.linspace(0.5, 3.0, 4)

        def icalcs():
            kw = dict(Efermi=Ef, save_mode="")
            return {"ahc": calc.static.AHC(**kw), "dos": calc.static.DOS(**kw), "spin": calc.static.Spin(**kw), "morb": calc.static.Morb(**kw),
                    "ohmic": calc.static.Ohmic_FermiSea(**kw), "berry_dipole": calc.static.BerryDipole_FermiSea(**kw),
                    "gme_spin": calc.static.GME_spin_FermiSurf(**kw),
                    "ahc_tetra": calc.static.AHC(tetra=True, **kw), "dos_tetra": calc.static.DOS(tetra=True, **kw),
                    "opt": calc.dynamic.OpticalConductivity(Efermi=Ef[2:5], omega=omega, smr_fixed_width=0.2, save_mode=""),
                    "tab": calc.TabulatorAll({"Energy": calc.tabulate.Energy(), "berry": calc.tabulate.BerryCurvature(), "spin": calc.tabulate.Spin(),
                                              "morb": calc.tabulate.OrbitalMoment()}, mode="grid", save_mode="")}
        out = []
        try:
            for rg in (False, True):
                np.random.seed(rng.randrange(1 << 30))
                with quiet(), Draws() as dr:
                    grid = wb.Grid(s, NK=[4, 4, 1], NKFFT=[2, 2, 1])
                    out.append(wb.run(s, grid, icalcs(), parallel=False, adpt_num_iter=0, use_irred_kpt=False, symmetrize=False, fout_name=f"{wd}/run",
                                      parameters_K={"random_gauge": rg}, print_progress_step_time=1e9))
                if rg:
                    counted["run"] = dr.n
        except Exception as ex:  # noqa
            report_raise(rep, skipped, ex, "random_gauge:run", sysinfo)
            continue
        if state["scipy_draws_seen"] and dr.n < 16 * len(blocks):
            rep.violation("random_gauge:not_applied:run", dict(sysinfo, k_points=16, multiplets=len(blocks), unitary_draws=dr.n,
                                                              note="run(..., parameters_K={'random_gauge': True}) did not rotate every multiplet at every k-point"))
        for key in ("ahc", "dos", "spin", "morb", "ohmic", "berry_dipole", "gme_spin", "ahc_tetra", "dos_tetra", "opt"):
            a, b = out[0].results[key].data, out[1].results[key].data
            scale = max(1.0, float(np.abs(a).max()))
            dev = float(np.abs(a - b).max())
            worst = max(worst, dev / scale)
            ncase += 1
            rep.case(("gauge_run", key, m.meta["seed"]), nontrivial=np.abs(a).max() > 1e-9)
            if dev > TOL * scale:
                rep.violation(f"random_gauge:run:{key}", dict(sysinfo, Efermi=Ef.tolist(), deviation=dev, scale=scale))
        t0, t1 = out[0].results["tab"], out[1].results["tab"]
        for q in ("Energy", "berry", "spin", "morb"):
            a = t0.get_data(quantity=q, iband=list(range(nb)))
            b = t1.get_data(quantity=q, iband=list(range(nb)))
            scale = max(1.0, float(np.abs(a).max()))
            dev = float(np.abs(a - b).max())
            worst = max(worst, dev / scale)
            ncase += 1
            rep.case(("gauge_run_tab", q, m.meta["seed"]), nontrivial=np.abs(a).max() > 1e-9)
            if dev > TOL * scale:
                rep.violation(f"random_gauge:run:tabulate:{q}", dict(sysinfo, deviation=dev, scale=scale))
    if not state["scipy_draws_seen"]:
        skipped["unitary_draw_count"] = "scipy.stats.unitary_group.rvs is not what draws the random gauge (any more): application inside evaluate_k / run() not verified"
    if candidate:
        rep.part("candidate_finding_not_gauge_covariant", note="formulas built from band-diagonal elements (V_nn, A_nn): invariant only when the connection inside a degenerate multiplet "
                 "vanishes (spin copies); on multiplets with a non-trivial intra-multiplet connection they depend on the random gauge. Listed in ABELIAN_FORMULAS, not reported as violation",
                 **candidate)
    rep.part("numeric_only", gauge_cases=ncase, gauge_max_rel_dev=worst, unitary_draws=counted, systems=[k_[0] for k_ in kinds])
