"""C20: real-space symmetrisation yields a symmetric, Hermitian model.

spec  : SymOrbits.tla (space-group operations (W integer, t rational) on sites and hopping triples (R, a, b); site maps,
        integer shifts T, orbits, irreducible triples, which projection shells are admissible), MC_SymOrbits.tla (a
        catalogue of structures, one TLC state each, group/action/orbit invariants), SymOrbitsRec.tla (record validation)
bind  : spec -> code : for every structure the real irrep space group is matched operation by operation; the real
        SymmetrizerSAWF / SymWann index maps (atommap, T, get_atom_R_map, find_irreducible_Rab) are compared exactly
        with the specification's; System_R.symmetrize is run on random Hermitian starting models over the
        specification's structures x admissible projection sets x soc (x magnetic moments) and checked numerically.
        code -> spec : structures outside the catalogue (3 sites, all positions with denominator 4) are recorded from
        the real code (operations, maps, triple images, irreducible triples) together with the residual buckets of
        symmetrize runs and validated by TLC.
"""
import copy
import random
import warnings
import numpy as np

from .. import tlc, ftable
from ..common import Report, MachineryError, seed, quiet
from . import _symcommon as sc

PROPS = {
    "C20": dict(level="exploration",
                technique="TLC exhaustive on SymOrbits/MC_SymOrbits (space groups of a catalogue of structures on orthogonal lattices incl. "
                          "non-symmorphic and magnetic ones; group axioms, site permutation, triple action, orbit partition, irreducible "
                          "representatives, Hermitian partner) + exact replay on SymmetrizerSAWF/SymWann index maps + numeric checks of "
                          "System_R.symmetrize on random Hermitian models + TLC validation of recorded maps and residual buckets",
                text="The specification decides exactly the space group of each structure, the site permutation and lattice shifts of every "
                     "operation, the image of every hopping triple (R,a,b), the orbit partition and the irreducible representatives that "
                     "find_irreducible_Rab must return, and which projection shells a site set admits. After the real symmetrize on random "
                     "Hermitian models: E(gk) = E(k), Berry curvature and spin at gk equal the transformed values for every g of the "
                     "resulting point group (transformations applied by the harness from the specification's (W, time reversal)), "
                     "X(-R) = X(R)^dagger, centres map onto their images, a second symmetrisation changes nothing (1e-8, Berry curvature 1e-5; observed 1e-14 resp. 8e-10).",
                note="exact in TLA+: groups, site maps, shifts, triple maps, orbits, irreducible sets, shell admissibility. numeric: everything "
                     "about the symmetrised matrices (energies/curvature/spin covariance, Hermiticity, idempotence, centres). Lattices are "
                     "orthogonal (cubic, tetragonal, orthorhombic; hexagonal cells are not modelled), positions have denominator 4, starting "
                     "centres lie within 0.05 of the atomic sites; k-points with near-degenerate bands are skipped (named in the evidence). Hybrids must be "
                     "permuted by every operation (SymOrbits!ShellAllowed). FINDING (key System_R.symmetrize:mixed_centres): shells given in the d basis "
                     "(d, eg) on a polar site whose group mixes dz2 and dx2-y2 (e.g. C3v along [111]) are not symmetrised exactly: centres are "
                     "treated per orbital, the internal Berry curvature is not covariant and a second symmetrisation moves the centres; "
                     "reproduction: python -m harness.props._c20_repro.",
                ref="DESIGN.md 3.7"),
}

TOL = 1e-8
TOL_BERRY = 1e-5      # 1/gap^2 amplification at gaps down to 0.01: observed up to 8e-10 on admissible inputs, genuine failures are > 1e-3
PROJ_SETS = [["s"], ["p"], ["s", "p"], ["sp3"], ["d"], ["t2g"], ["eg"], ["sp3d2"], ["pz"], ["sp2"], ["sp"], ["p2"], ["pxy"], ["s", "d"], ["sp2", "pz"]]


def site_orbits(st):
    """orbits of the sites under the specification's group (sorted lists of site indices)"""
    seen, orbits = set(), []
    for k in range(st["nsites"]):
        if k in seen:
            continue
        orb = sorted({m[k] for m in st["amap"]})
        seen.update(orb)
        orbits.append(orb)
    return orbits


def exact_replay(rep, st, counts):
    """spec -> code : SymmetrizerSAWF / SymWann index maps of one structure"""
    from wannierberri.symmetry.sawf import SymmetrizerSAWF
    from wannierberri.symmetry.projections import Projection
    from wannierberri.symmetry.sym_wann_2 import SymWann
    with quiet(), warnings.catch_warnings():
        warnings.simplefilter("ignore")
        sg, op_of, lattice, positions = sc.real_spacegroup(st)
        orbits = site_orbits(st)
        projs = [Projection(position_num=positions[orb], orbital="s", spacegroup=sg, rotate_basis=False) for orb in orbits]
        symm = SymmetrizerSAWF.from_spacegroup_and_projections(spacegroup=sg, projections=projs)
        sw = SymWann(symmetrizer=symm, iRvec=[tuple(r) for r in st["rlist"]], silent=True)
    nR = len(st["rlist"])
    for b1, orb1 in enumerate(orbits):
        loc1 = {k: n for n, k in enumerate(orb1)}
        for isym, n in enumerate(op_of):
            rep.case(("maps", st["key"], b1, isym))
            counts["maps"] += 1
            exp_map = [loc1[st["amap"][n][k]] for k in orb1]
            exp_T = [list(st["tvec"][n][k]) for k in orb1]
            got_map = [int(x) for x in symm.atommap_list[b1][:, isym]]
            got_T = np.asarray(symm.T_list[b1][:, isym]).tolist()
            if got_map != exp_map or got_T != exp_T:
                rep.violation("SymmetrizerSAWF:atommap_T", dict(structure=st["key"], op=st["ops"][n], expected_map=exp_map, got_map=got_map,
                                                                  expected_T=exp_T, got_T=got_T))
        for b2, orb2 in enumerate(orbits):
            loc2 = {k: n for n, k in enumerate(orb2)}
            for isym, n in enumerate(op_of):
                Rm = sw.get_atom_R_map(sw.iRvec, isym, b1, b2)
                exp = np.array([[[list(st["tmap"][n][r][a][b][0]) for b in orb2] for a in orb1] for r in range(nR)])
                rep.case(("rmap", st["key"], b1, b2, isym))
                counts["rmap"] += 1
                if Rm.shape != exp.shape or not np.array_equal(Rm, exp):
                    rep.violation("SymWann:get_atom_R_map", dict(structure=st["key"], op=st["ops"][n], blocks=[orb1, orb2], rlist=st["rlist"],
                                                                 expected=exp.tolist(), got=np.asarray(Rm).tolist()))
            with quiet():
                irr = sw.find_irreducible_Rab(b1, b2)
            got = {(tuple(st["rlist"][iR]), orb1[a], orb2[b]) for (a, b), s in irr.items() for iR in s}
            exp = {x for x in st["irr"] if x[1] in loc1 and x[2] in loc2}
            rep.case(("irr", st["key"], b1, b2))
            counts["irr"] += 1
            counts["irr_reduced"] += int(len(exp) < nR * len(orb1) * len(orb2))
            if got != exp:
                rep.violation("SymWann:find_irreducible_Rab", dict(structure=st["key"], blocks=[orb1, orb2], rlist=st["rlist"],
                                                                   expected=sorted(exp), got=sorted(got)))
    return sg, op_of


def random_system(lattice, positions, names, proj, soc, nprs, nR=3):
    """a random Hermitian System_R whose Wannier functions follow proj (atom:shell), centres near the atomic sites"""
    from wannierberri.system.system_R import System_R
    from wannierberri.fourier.rvectors import Rvectors
    from wannierberri.symmetry.orbitals import num_orbitals
    cent = []
    for p in proj:
        atom, orb = p.split(":")
        no = num_orbitals(orb) * (2 if soc else 1)
        for pos, nm in zip(positions, names):
            if nm == atom:
                for _ in range(no):
                    cent.append(pos + (nprs.rand(3) - 0.5) * 0.1)
    cent = np.array(cent)
    nw = len(cent)
    Rs = {(0, 0, 0)}
    while len(Rs) < nR:
        R = tuple(int(x) for x in nprs.randint(-1, 2, size=3))
        Rs.add(R)
        Rs.add(tuple(-x for x in R))
    iRvec = sorted(Rs)
    s = System_R(name="c20", silent=True)
    s.set_real_lattice(lattice)
    s.num_wann = nw
    s.wannier_centers_cart = cent @ lattice
    s.rvec = Rvectors(lattice=lattice, iRvec=iRvec, shifts_left_red=s.wannier_centers_red)
    for key in ("Ham", "AA", "SS"):
        shape = (len(iRvec), nw, nw) + ((3,) if key != "Ham" else ())
        X = nprs.rand(*shape) - 0.5 + 1j * (nprs.rand(*shape) - 0.5)
        X = 0.5 * (X + s.rvec.conj_XX_R(X))
        if key == "AA":
            X[s.rvec.iR0, np.arange(nw), np.arange(nw)] = 0
        s.set_R_mat(key, X)
    s.do_at_end_of_init()
    return s


def as_function(system):
    """real-space matrices as dict key -> {R: matrix}, zero blocks dropped"""
    out = {}
    for key, X in system._XX_R.items():
        out[key] = {tuple(int(x) for x in R): X[i] for i, R in enumerate(system.rvec.iRvec) if np.abs(X[i]).max() > 1e-14}
    return out


def diff_functions(f, g):
    d = 0.0
    for key in set(f) | set(g):
        a, b = f.get(key, {}), g.get(key, {})
        for R in set(a) | set(b):
            if R in a and R in b:
                d = max(d, float(np.abs(a[R] - b[R]).max()))
            else:
                d = max(d, float(np.abs(a.get(R, b.get(R))).max()))
    return d


def symmetrize_run(rep, st, shells, soc, nprs, counts):
    """one System_R.symmetrize on a random Hermitian model of structure st; returns residuals (dict) or None if skipped"""
    from wannierberri.evaluate_k import evaluate_k
    lattice = np.diag(sc.CELL[st["lat"]])
    positions = np.array(st["pos"], dtype=float) / sc.DEN
    names = [f"X{t}" for t in st["types"]]
    proj = [f"{nm}:{sh}" for nm in sorted(set(names)) for sh in shells]
    magnetic = any(any(m) for m in st["mom"])
    magmom = np.array(st["mom"], dtype=float) if magnetic else None
    system = random_system(lattice, positions, names, proj, soc, nprs)
    with quiet(), warnings.catch_warnings():
        warnings.simplefilter("ignore")
        symm = system.symmetrize(proj=proj, positions=positions, atom_name=names, soc=soc, magmom=magmom, silent=True)
    key = (st["key"], tuple(shells), soc)
    res = dict(energy=0.0, berry=0.0, spin=0.0, herm=0.0, centres=0.0, idem=0.0)
    # Hermiticity
    for k, X in system._XX_R.items():
        res["herm"] = max(res["herm"], float(np.abs(X - system.rvec.conj_XX_R(X)).max()))
    # covariance under every operation of the specification's point group (k' = +-W k; axial vectors, odd under time reversal)
    pops = sorted({(W, tr) for W, _, tr in st["ops"]})
    npoint = len(system.pointgroup.symmetries)
    quantities = ["energy", "berry_curvature", "spin"]
    kpt = None
    for _ in range(20):
        k0 = nprs.rand(3) * 0.8 + 0.1
        with quiet():
            r0 = evaluate_k(system, k=k0, quantities=quantities, return_single_as_dict=True)
        E = np.sort(r0["energy"])
        gaps = np.diff(E)
        if np.all((gaps < 1e-9) | (gaps > 0.01)):       # named exclusion: no near-degenerate (but split) bands at the test point
            kpt = k0
            break
        counts["k_skipped"] += 1
    if kpt is None:
        counts["no_kpoint"] += 1
        return None, npoint
    for W, tr in pops:
        Wm = np.array(W, dtype=float)
        sgn = -1.0 if tr else 1.0
        k1 = sgn * Wm @ kpt
        with quiet():
            r1 = evaluate_k(system, k=k1, quantities=quantities, return_single_as_dict=True)
        ax = np.linalg.det(Wm) * sgn
        res["energy"] = max(res["energy"], float(np.abs(r1["energy"] - r0["energy"]).max()))
        res["berry"] = max(res["berry"], float(np.abs(r1["berry_curvature"] - ax * r0["berry_curvature"] @ Wm.T).max()))
        res["spin"] = max(res["spin"], float(np.abs(r1["spin"] - ax * r0["spin"] @ Wm.T).max()))
        counts["ops_checked"] += 1
    # the library's own check must agree
    with quiet():
        errs, _ = system.check_symmetry(kpoint=kpt)
    res["library_check"] = float(max(errs.values()))
    # centres: fixed point of the symmetrizer, and images of s-like (one-dimensional signed) orbitals
    if symm is not None:
        wcc = system.wannier_centers_cart
        res["centres"] = float(np.abs(symm.symmetrize_WCC(wcc) - wcc).max())
        wred = system.wannier_centers_red
        for isym, symop in enumerate(symm.spacegroup.symmetries):
            for blk, (ws, _) in enumerate(symm.D_wann_block_indices):
                rot = symm.rot_orb_list[blk]
                norb = rot[0, 0].shape[0]
                amap = symm.atommap_list[blk][:, isym]
                T = symm.T_list[blk][:, isym]
                for a in range(len(amap)):
                    D = rot[a, isym]
                    for i in range(norb):
                        col = np.abs(D[:, i])
                        j = int(np.argmax(col))
                        if abs(col[j] - 1) < 1e-9:       # orbital i is mapped onto +-orbital j of the image site
                            img = symop.transform_r(wred[ws + a * norb + i]) + T[a]
                            res["centres"] = max(res["centres"], float(np.abs(img - wred[ws + amap[a] * norb + j]).max()))
        # idempotence
        before = as_function(system)
        w0 = system.wannier_centers_cart.copy()
        with quiet(), warnings.catch_warnings():
            warnings.simplefilter("ignore")
            system.symmetrize2(symm, silent=True)
        res["idem"] = max(diff_functions(before, as_function(system)), float(np.abs(system.wannier_centers_cart - w0).max()))
    else:
        raise MachineryError("symmetrize returned no symmetrizer")
    rep.case(("symmetrize",) + key)
    counts["runs"] += 1
    counts["soc"] += int(soc)
    counts["magnetic"] += int(magnetic)
    mixed_class = bool(st["mixed"]) and any(sh in ("d", "eg") for sh in shells)
    res["mixed_class"] = mixed_class
    for nm in ("energy", "berry", "spin", "herm", "centres", "idem"):
        if res[nm] > (TOL_BERRY if nm == "berry" else TOL):
            keyname = "mixed_centres" if (mixed_class and nm in ("berry", "centres", "idem")) else nm
            rep.violation(f"System_R.symmetrize:{keyname}", dict(structure=st["key"], lattice=lattice.tolist(), positions=positions.tolist(), atom_name=names,
                                                            proj=proj, soc=soc, magmom=None if magmom is None else magmom.tolist(),
                                                            kpoint=kpt.tolist(), residuals=res, numpy_seed="see evidence seed"))
    counts["mixed_class"] += int(mixed_class)
    if res["library_check"] > TOL_BERRY and max(res["energy"], res["berry"], res["spin"]) <= TOL:
        rep.violation("System.check_symmetry:disagrees", dict(structure=st["key"], proj=proj, soc=soc, residuals=res))
    return res, npoint


def random_structure(rng):
    lat = rng.choice(["cubic", "tetra", "ortho"])
    ns = rng.choice([2, 3, 3])
    pos = []
    while len(pos) < ns:
        p = tuple(rng.randrange(sc.DEN) for _ in range(3))
        if p not in pos:
            pos.append(p)
    types = [1] + [rng.choice([1, 2]) for _ in range(ns - 1)]
    return dict(lat=lat, types=types, pos=pos, mom=[(0, 0, 0)] * ns, nsites=ns, key=(lat, tuple(types), tuple(pos), ((0, 0, 0),) * ns))


def struct_record(st, rng):
    """code -> spec: everything is read from the real irrep / wannierberri objects"""
    from irrep.spacegroup import SpaceGroup
    from wannierberri.symmetry.sawf import SymmetrizerSAWF
    from wannierberri.symmetry.projections import Projection
    from wannierberri.symmetry.sym_wann_2 import SymWann
    lattice = np.diag(sc.CELL[st["lat"]])
    positions = np.array(st["pos"], dtype=float) / sc.DEN
    with quiet(), warnings.catch_warnings():
        warnings.simplefilter("ignore")
        sg = SpaceGroup.from_cell(real_lattice=lattice, positions=positions, typat=list(st["types"]), magmom=None, include_TR=True, spinor=False)
    ops = []
    for symop in sg.symmetries:
        tn = np.asarray(symop.translation, dtype=float) * sc.DEN
        if np.abs(tn - np.round(tn)).max() > 1e-6:
            return None
        ops.append(dict(W=np.asarray(symop.rotation).astype(int).tolist(), t=[int(x) % sc.DEN for x in np.round(tn)], tr=bool(symop.time_reversal)))
    if any(o["W"] == [[1, 0, 0], [0, 1, 0], [0, 0, 1]] and not o["tr"] and any(o["t"]) for o in ops):
        return None        # not a primitive cell (named exclusion PrimitiveCell)
    ns = st["nsites"]
    # orbits from the real group
    from irrep.symmetry_operation import get_atom_map
    amap, tvec = [], []
    for symop in sg.symmetries:
        m = [-1] * ns
        t = [[0, 0, 0]] * ns
        for ty in set(st["types"]):
            glob = [k for k in range(ns) if st["types"][k] == ty]
            mm, tt = get_atom_map(symop=symop, positions=positions[glob])
            for n, k in enumerate(glob):
                m[k] = glob[int(mm[n])]
                t[k] = [int(x) for x in tt[n]]
        amap.append(m)
        tvec.append(t)
    orbits, seen = [], set()
    for k in range(ns):
        if k not in seen:
            orb = sorted({m[k] for m in amap})
            seen.update(orb)
            orbits.append(orb)
    rlist = [(0, 0, 0), (1, 0, 0), (0, 0, 1), (-1, 1, 0), (0, -1, -1), (2, 0, 0)]
    with quiet(), warnings.catch_warnings():
        warnings.simplefilter("ignore")
        projs = [Projection(position_num=positions[orb], orbital="s", spacegroup=sg, rotate_basis=False) for orb in orbits]
        symm = SymmetrizerSAWF.from_spacegroup_and_projections(spacegroup=sg, projections=projs)
        sw = SymWann(symmetrizer=symm, iRvec=rlist, silent=True)
    # the wannierberri maps must be the ones recorded (Dwann uses the same irrep function; compare to be sure)
    for b, orb in enumerate(orbits):
        for isym in range(len(ops)):
            if [orb[int(x)] for x in symm.atommap_list[b][:, isym]] != [amap[isym][k] for k in orb]:
                raise MachineryError("atommap of SymmetrizerSAWF differs from irrep.get_atom_map on the same positions")
    b1, b2 = rng.randrange(len(orbits)), rng.randrange(len(orbits))
    rmap = []
    for _ in range(12):
        isym = rng.randrange(len(ops))
        Rm = sw.get_atom_R_map(sw.iRvec, isym, b1, b2)
        iR, a, b = rng.randrange(len(rlist)), rng.randrange(len(orbits[b1])), rng.randrange(len(orbits[b2]))
        rmap.append(dict(op=isym, R=list(rlist[iR]), a=orbits[b1][a], b=orbits[b2][b], R2=[int(x) for x in Rm[iR, a, b]],
                         a2=orbits[b1][int(symm.atommap_list[b1][a, isym])], b2=orbits[b2][int(symm.atommap_list[b2][b, isym])]))
    with quiet():
        irr = sw.find_irreducible_Rab(b1, b2)
    irr_l = sorted([list(rlist[iR]), orbits[b1][a], orbits[b2][b]] for (a, b), s in irr.items() for iR in s)
    return dict(fn="struct", lat=st["lat"], sites=[dict(type=t, pos=list(p), mom=[0, 0, 0]) for t, p in zip(st["types"], st["pos"])],
                ops=ops, amap=amap, tvec=tvec, rlist=[list(r) for r in rlist], blockA=orbits[b1], blockB=orbits[b2], rmap=rmap, irr=irr_l)


REC_CFG = "SPECIFICATION RecSpec\nCONSTANTS\n  DEN = %d\nINVARIANT Report\nCHECK_DEADLOCK FALSE\n" % sc.DEN


def check(pid, tier):
    rep = Report(pid, tier, "exploration")
    thorough = tier == "thorough"
    rng = random.Random(seed() * 7919 + 20)
    nprs = np.random.RandomState(seed() * 31 + 20)
    rep.rule("TLC enumerates a catalogue of structures (lattice type x 1-2 sites x species x positions with denominator 4, optionally "
             "magnetic moments); a case = one (structure, block, operation) index map or irreducible set compared exactly with "
             "SymmetrizerSAWF/SymWann, one System_R.symmetrize run (structure x projection set x soc) checked numerically, or one "
             "recorded structure / run validated by TLC; distinct by these tuples")
    rep.assume("starting models are random Hermitian matrices (Ham, AA, SS) on an R set closed under negation, centres within 0.05 of the sites")
    rep.assume("covariance is tested at random k-points without near-degenerate split bands (gaps < 1e-9 or > 0.01)")
    rep.assume("projection shells are restricted to those the specification admits for the structure (SymOrbits!ShellAllowed)")

    lats, nsites, poscat = (["cubic", "tetra", "ortho"], [1, 2], "small") if thorough else (["cubic", "tetra"], [1, 2], "tiny")
    sts, structs, excl = sc.symorb_structures("c20_symorb", lats, nsites, poscat)
    if ftable.spec_violation(rep, sts, "c20_symorb"):
        return rep.finish()
    rep.add_tlc("c20_symorb", sts)
    stm, mstructs, mexcl = sc.symorb_structures("c20_symorb_mag", ["tetra", "ortho"] if thorough else ["tetra"], [1, 2],
                                                 "tiny" if thorough else "pair", magnetic="zx" if thorough else "z")
    if ftable.spec_violation(rep, stm, "c20_symorb_mag"):
        return rep.finish()
    rep.add_tlc("c20_symorb_mag", stm)
    mstructs = [s for s in mstructs if any(any(m) for m in s["mom"])]
    stc, cstructs, _ = sc.symorb_structures("c20_symorb_c3v", ["cubic"], [2], "c3v")
    if ftable.spec_violation(rep, stc, "c20_symorb_c3v"):
        return rep.finish()
    rep.add_tlc("c20_symorb_c3v", stc)
    cstructs = [s for s in cstructs if s["mixed"]]
    if not cstructs:
        raise MachineryError("the catalogue lacks a polar site whose group mixes dz2 and dx2-y2")
    rep.part("structures", nonmagnetic=len(structs), magnetic=len(mstructs), excluded_nonprimitive=excl + mexcl,
             nonsymmorphic_like=sum(1 for s in structs if any(any(t) for _, t, _ in s["ops"])))
    if not structs or not mstructs:
        raise MachineryError("empty structure catalogue")

    # ---------------- spec -> code : exact index maps
    counts = dict(maps=0, rmap=0, irr=0, irr_reduced=0)
    sel = structs if thorough else rng.sample(structs, min(len(structs), 16))
    for st in sel:
        exact_replay(rep, st, counts)
    if counts["irr_reduced"] == 0 or counts["rmap"] == 0:
        raise MachineryError("exact replay never met a reducible triple")
    rep.part("exact_replay", **counts)
    rep.sample(dict(structure=sel[0]["key"], n_ops=len(sel[0]["ops"]), irreducible_triples=len(sel[0]["irr"])))

    # ---------------- numeric : System_R.symmetrize
    ncounts = dict(runs=0, soc=0, magnetic=0, ops_checked=0, k_skipped=0, skipped=0, no_kpoint=0, mixed_class=0)
    recs = []
    maxres = {}
    plan = []
    pool = structs if thorough else rng.sample(structs, min(len(structs), 9))
    for n, st in enumerate(pool):
        ok = [ps for ps in PROJ_SETS if all(sh in st["shells"] for sh in ps)]
        for ps in (rng.sample(ok, min(len(ok), 3 if thorough else 1))):
            plan.append((st, ps, (n + len(ps)) % 2 == 1))
    for st in cstructs[:2 if thorough else 1]:
        for ps in (["d"], ["t2g"], ["eg"], ["sp3"], ["s", "p"]) if thorough else (["eg"], ["t2g"]):
            if all(sh in st["shells"] for sh in ps):
                plan.append((st, ps, False))
    for st in (mstructs if thorough else rng.sample(mstructs, min(len(mstructs), 3))):
        ok = [ps for ps in PROJ_SETS[:5] if all(sh in st["shells"] for sh in ps)]
        plan.append((st, rng.choice(ok), True))
    for st, ps, soc in plan:
        nw = sum({"s": 1, "p": 3, "d": 5, "sp3": 4, "t2g": 3, "eg": 2, "sp3d2": 6, "pz": 1, "sp2": 3, "sp": 2, "p2": 2, "pxy": 2}[sh] for sh in ps) * st["nsites"] * (2 if soc else 1)
        if nw > (24 if thorough else 16):
            ncounts["skipped"] += 1
            continue
        res, npoint = symmetrize_run(rep, st, ps, soc, nprs, ncounts)
        if res is None:
            ncounts["skipped"] += 1
            continue
        for k, v in res.items():
            if k != "mixed_class" and not res["mixed_class"]:
                maxres[k] = max(maxres.get(k, 0.0), v)
        recs.append(dict(fn="symm", lat=st["lat"], sites=[dict(type=t, pos=list(p), mom=list(m)) for t, p, m in zip(st["types"], st["pos"], st["mom"])],
                         shells=list(ps), soc=soc, npoint=npoint, mixed_class=bool(res["mixed_class"]), b_energy=sc.bucket(res["energy"]), b_berry=sc.bucket(res["berry"]),
                         b_spin=sc.bucket(res["spin"]), b_herm=sc.bucket(res["herm"]), b_centres=sc.bucket(res["centres"]), b_idem=sc.bucket(res["idem"])))
    if ncounts["runs"] == 0 or ncounts["soc"] == 0 or ncounts["magnetic"] == 0 or ncounts["runs"] == ncounts["soc"]:
        raise MachineryError(f"symmetrize runs do not cover soc / no soc / magnetic: {ncounts}")
    rep.part("numeric_only", what="System_R.symmetrize on random Hermitian models: E(gk)=E(k), curvature/spin covariance for every (W, TR) of the "
                                  "specification's point group, Hermiticity, centre images, idempotence; tolerance 1e-8", counts=ncounts, max_residual=maxres)
    rep.sample(recs[0])

    # ---------------- code -> spec : structures outside the catalogue + run residuals
    nstruct = 60 if thorough else 8
    tries = 0
    while nstruct > 0 and tries < 2000:
        tries += 1
        st = random_structure(rng)
        r = struct_record(st, rng)
        if r is None:
            continue
        recs.append(r)
        rep.case(("rec_struct", st["key"]))
        nstruct -= 1
    stv, bad = ftable.validate_records("SymOrbitsRec.tla", REC_CFG, recs, "c20")
    rep.add_tlc("c20_records", stv)
    rep.add_traces(len(recs))
    for i, clauses in bad.items():
        r = recs[i]
        if r["fn"] == "symm" and clauses == ["mixed_centres"]:
            rep.violation("System_R.symmetrize:mixed_centres", dict(record=r, failing_clauses=clauses))
            continue
        site = "System_R.symmetrize" if r["fn"] == "symm" else "SymWann"
        rep.violation(f"{site}:recorded:{'+'.join(sorted(clauses))}", dict(record=r, failing_clauses=clauses))
    # binding self-test
    srec = copy.deepcopy([r for r in recs if r["fn"] == "struct"][0])
    srec["tvec"][1][0][0] += 1
    srec2 = copy.deepcopy([r for r in recs if r["fn"] == "struct"][0])
    srec2["irr"] = srec2["irr"][:-1]
    nrec = copy.deepcopy([r for r in recs if r["fn"] == "symm" and not r["mixed_class"]][0])
    nrec["b_idem"] = 12
    _, bb = ftable.validate_records("SymOrbitsRec.tla", REC_CFG, [srec, srec2, nrec], "c20_selftest")
    if "shifts" not in bb.get(0, []) or "irreducible" not in bb.get(1, []) or "idempotent" not in bb.get(2, []):
        raise MachineryError(f"binding self-test failed: corrupted records accepted ({bb})")
    rep.part("binding_selftest", corrupted_records_rejected=bb)
    return rep.finish()
