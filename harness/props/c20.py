"""C20: real-space symmetrisation yields a symmetric, Hermitian model.

spec  : SymOrbits.tla (space-group operations (W integer, t rational) on sites and hopping triples (R, a, b); site maps,
        integer shifts T, orbits, irreducible triples, which projection shells are admissible; orthogonal lattices and the
        hexagonal cell, where W is not the Cartesian matrix), MC_SymOrbits.tla (a catalogue of structures, one TLC state each,
        group/action/orbit invariants), SymOrbitsRec.tla (record validation)
bind  : spec -> code : for every replayed structure the real irrep space group is matched operation by operation; the real
        SymmetrizerSAWF / SymWann index maps are compared with the specification's (site maps exactly, shifts up to a global
        sign, images of hopping triples exactly, find_irreducible_Rab as "every orbit is represented"); System_R.symmetrize
        is run on random Hermitian starting models over the specification's structures x admissible projection sets x soc
        (x magnetic moments) and checked numerically under every operation of the specification's group.
        code -> spec : structures outside the catalogue (3 sites, all positions with denominator 4) are recorded from
        the real code (operations, maps, triple images, irreducible triples) together with the residual buckets of
        symmetrize runs and validated by TLC.
"""
import copy
import random
import warnings
import numpy as np

from .. import tlc, ftable
from ..common import Report, MachineryError, seed, quiet
from . import _symcommon as sc

TOL = 1e-8
TOL_BERRY = 1e-5      # 1/gap^2 amplification at gaps down to MIN_GAP: observed up to 8e-10 at gaps >= 0.01, genuine failures are > 1e-3
MIN_GAP = 0.02

PROPS = {
    "C20": dict(level="exploration",
                technique="TLC exhaustive on SymOrbits/MC_SymOrbits (space groups of a catalogue of structures on orthogonal lattices and on the "
                          "hexagonal cell, incl. operations with fractional translations and magnetic ones; group axioms, site permutation, "
                          "triple action, orbit partition, irreducible representatives, Hermitian partner) + replay on SymmetrizerSAWF/SymWann "
                          "index maps + numeric checks of System_R.symmetrize on random Hermitian models + TLC validation of recorded maps and "
                          "residual buckets",
                text="The specification decides exactly the space group of each structure, the site permutation and lattice shifts of every "
                     "operation, the image of every hopping triple (R,a,b), the orbit partition (find_irreducible_Rab must return listed "
                     "triples that represent every orbit; which representative is the implementation's choice), and which projection shells "
                     "a site set admits; the same for a subgroup H of the operations (option use_symmetries_index: proper rotations, "
                     "identity + a two-fold axis, identity + inversion): representatives must reach every listed triple under H. After the real "
                     "symmetrize (and symmetrize2 with a subgroup, or with projections in site-dependent local frames) on random Hermitian models: E(gk) = E(k), Berry curvature and spin at gk "
                     "equal the transformed values for every g of the resulting point group (transformations applied by the harness from the "
                     "specification's (W, time reversal), summed over degenerate groups), X(-R) = X(R)^dagger, centres map onto their images, "
                     "a second symmetrisation changes nothing (1e-8, Berry curvature 1e-5 at band gaps >= 0.02; observed 1e-14 resp. 8e-10).",
                note="exact in TLA+: groups, site maps, shifts, triple maps, orbits, shell admissibility. numeric: everything "
                     "about the symmetrised matrices (energies/curvature/spin covariance, Hermiticity, idempotence, centres). Lattices: "
                     "cubic, tetragonal, orthorhombic, hexagonal (sites with denominator 4, i.e. no 1/3 positions); starting "
                     "centres lie within 0.05 of the atomic sites; k-points with near-degenerate split bands are skipped (named in the evidence). Hybrids must be "
                     "permuted by every operation (SymOrbits!ShellAllowed; on the hexagonal cell only s, p, d, pz are used). Quick: 10 replayed "
                     "structures (tetragonal, hexagonal, one cubic C3v, 2 magnetic) + 2 structures x 3 subgroups, about 14 symmetrize runs + 3 "
                     "subgroup runs + 2 runs with site-dependent frames (explicit basis_list; s, p, d only), 8 recorded structures (half with the "
                     "subgroup of proper rotations); two structures of the class two_multi_site_blocks_permuted_differently (two species, each an orbit of "
                     "two sites, permuted differently by some operation; SymOrbits!BlockTripleMap) in the replay and in two symmetrize runs; thorough: the whole "
                     "catalogue. FINDING (key System_R.symmetrize:mixed_centres): shells whose orbitals are mixed (not merely permuted up to sign) "
                     "by an operation of the site group of a polar site are not symmetrised exactly: centres are treated per orbital, the "
                     "Berry curvature is not covariant and a second symmetrisation moves the centres. Instances: d / eg on a site whose "
                     "group mixes dz2 and dx2-y2 (C3v along [111] of a cubic cell); p / d on a polar site of the hexagonal cell whose site "
                     "group has an operation with a non-diagonal Cartesian matrix (class SymOrbits!MixedCentreSitesFor). Every "
                     "curvature/centre/idempotence failure of that input class is filed under this key; "
                     "reproduction: python -m harness.props._c20_repro.",
                ref="DESIGN.md 3.7"),
}

PROJ_SETS = [["s"], ["p"], ["s", "p"], ["sp3"], ["d"], ["t2g"], ["eg"], ["sp3d2"], ["pz"], ["sp2"], ["sp"], ["p2"], ["pxy"], ["s", "d"], ["sp2", "pz"]]
MATS = ("Ham", "AA", "SS")
# local frames for projections with site-dependent bases (rows = local x, y, z): identity, C4z, C3[111], C2 about x+y
FRAMES = [np.eye(3), np.array([[0.0, 1, 0], [-1, 0, 0], [0, 0, 1]]), np.array([[0.0, 1, 0], [0, 0, 1], [1, 0, 0]]), np.array([[0.0, 1, 0], [1, 0, 0], [0, 0, -1]])]
MIXED_SHELLS = {"orthogonal": ("d", "eg"), "hex": ("p", "d")}      # SymOrbits!MixesShell
INFO_CLAUSES = ("group_size", "class_recorded", "structure_ok", "shells_allowed", "group_complete")     # harness / irrep vs spec, not the code


def site_orbits(st):
    """orbits of the sites under the specification's group (sorted lists of site indices)"""
    seen, orbits = set(), []
    for k in range(st["nsites"]):
        if k in seen:
            continue
        orb = sorted({m[k] for m in st["amap"]})
        seen.update(orb)
        orbits.append(orb)
    return orbits


# ----------------------------------------------------------------------------- adapters around private names of the package
def build_symwann(st, rlist, sub=None):
    """real space group, SymmetrizerSAWF with one s-like projection per site orbit, SymWann on the R list; sub: specification
    operation numbers of a subgroup, handed over as use_symmetries_index"""
    from wannierberri.symmetry.sawf import SymmetrizerSAWF
    from wannierberri.symmetry.projections import Projection
    from wannierberri.symmetry.sym_wann_2 import SymWann
    sg, op_of, lattice, positions = sc.real_spacegroup(st)
    orbits = site_orbits(st)
    projs = [Projection(position_num=positions[orb], orbital="s", spacegroup=sg, rotate_basis=False) for orb in orbits]
    symm = SymmetrizerSAWF.from_spacegroup_and_projections(spacegroup=sg, projections=projs)
    kw = {} if sub is None else dict(use_symmetries_index=[isym for isym, n in enumerate(op_of) if n in set(sub)])
    sw = SymWann(symmetrizer=symm, iRvec=[tuple(r) for r in rlist], silent=True, **kw)
    return sg, op_of, positions, orbits, projs, symm, sw


def block_orders(rep, projs, positions, orbits):
    """for every block: the specification site of each point as the code ordered them (by position mod 1); the given order
    if the projections do not expose their positions"""
    ok, pos = sc.private(rep, "Projection.positions", lambda: [np.asarray(p.positions, dtype=float).reshape(-1, 3) for p in projs])
    if not ok:
        return [list(orb) for orb in orbits]
    out = []
    for orb, pp in zip(orbits, pos):
        order = []
        for p in pp:
            d = [np.abs((p - positions[k] + 0.5) % 1 - 0.5).max() for k in orb]
            a = int(np.argmin(d))
            if d[a] > 1e-8:
                return None
            order.append(orb[a])
        if sorted(order) != sorted(orb):
            return None
        out.append(order)
    return out


def irreducible_triples(rep, sw, b1, b2, rlist, ord1, ord2):
    """find_irreducible_Rab -> set of triples (R, site a, site b) in the specification's site numbering; None if the method
    is gone or returns something this adapter does not understand"""
    with quiet():
        good, irr = sc.guarded(rep, "SymWann.find_irreducible_Rab", dict(blocks=[ord1, ord2], rlist=[list(r) for r in rlist]), sw.find_irreducible_Rab, b1, b2)
    if not good:
        return None

    def conv():
        out = set()
        for (a, b), s in irr.items():
            for iR in s:
                out.add((tuple(int(x) for x in rlist[int(iR)]), ord1[int(a)], ord2[int(b)]))
        return out
    ok, got = sc.private(rep, "find_irreducible_Rab:return", conv)
    return got if ok else None


def triple_orbits(st, ops, orb1, orb2):
    """orbits of the listed triples (R, a, b), a in orb1, b in orb2, under the specification's tabulated action; images that
    leave the R list are ignored (the operations form a group, so this is an equivalence on the listed triples)"""
    rl = st["rlist"]
    X = [(r, a, b) for r in range(len(rl)) for a in orb1 for b in orb2]
    index = {rl[r]: r for r in range(len(rl))}
    parent = {x: x for x in X}

    def find(x):
        while parent[x] != x:
            parent[x] = parent[parent[x]]
            x = parent[x]
        return x
    for n in ops:
        for (r, a, b) in X:
            y = st["tmap"][n][r][a][b]
            R2 = tuple(y[0])
            if R2 in index:
                parent[find((r, a, b))] = find((index[R2], y[1] - 1, y[2] - 1))
    groups = {}
    for x in X:
        groups.setdefault(find(x), set()).add((rl[x[0]], x[1], x[2]))
    return list(groups.values())


def exact_replay(rep, st, counts):
    """spec -> code : SymmetrizerSAWF / SymWann index maps of one structure"""
    detail = dict(structure=st["key"])
    with quiet(), warnings.catch_warnings():
        warnings.simplefilter("ignore")
        good, built = sc.guarded(rep, "SymmetrizerSAWF/SymWann", detail, build_symwann, st, st["rlist"])
    if not good:
        return
    sg, op_of, positions, orbits, projs, symm, sw = built
    orders = block_orders(rep, projs, positions, orbits)
    if orders is None:
        rep.violation("SymmetrizerSAWF:orbit", dict(detail, what="the points of a projection block are not the sites of the orbit given to it"))
        return
    okm, maps = sc.private(rep, "SymmetrizerSAWF.atommap_list", lambda: [np.asarray(symm.atommap_list[b]) for b in range(len(orbits))])
    okt, shifts = sc.private(rep, "SymmetrizerSAWF.T_list", lambda: [np.asarray(symm.T_list[b]) for b in range(len(orbits))])
    nR = len(st["rlist"])
    shift_eq = {1: True, -1: True}
    if okm:     # two blocks of more than one site whose sites some operation permutes differently (as permutations of the listed sites)
        counts["blocks_permuted_differently"] += int(any(len(orders[i]) > 1 and len(orders[i]) == len(orders[j]) and not np.array_equal(maps[i], maps[j])
                                                         for i in range(len(orders)) for j in range(i)))
    for b1, ord1 in enumerate(orders):
        for isym, n in enumerate(op_of):
            exp_map = [ord1.index(st["amap"][n][k]) for k in ord1]
            exp_T = np.array([st["tvec"][n][k] for k in ord1])
            if okm:
                rep.case(("maps", st["key"], b1, isym))
                counts["maps"] += 1
                got_map = [int(x) for x in maps[b1][:, isym]]
                if got_map != exp_map:
                    rep.violation("SymmetrizerSAWF:atommap", dict(structure=st["key"], op=st["ops"][n], expected_map=exp_map, got_map=got_map))
            if okt:
                shift_eq[1] &= bool(np.array_equal(shifts[b1][:, isym], exp_T))
                shift_eq[-1] &= bool(np.array_equal(shifts[b1][:, isym], -exp_T))
        for b2, ord2 in enumerate(orders):
            for isym, n in enumerate(op_of):
                ok, Rm = sc.private(rep, "SymWann.get_atom_R_map", lambda: np.asarray(sw.get_atom_R_map(sw.iRvec, isym, b1, b2)))
                if not ok:
                    break
                exp = np.array([[[list(st["tmap"][n][r][a][b][0]) for b in ord2] for a in ord1] for r in range(nR)])
                rep.case(("rmap", st["key"], b1, b2, isym))
                counts["rmap"] += 1
                if Rm.shape != exp.shape or not np.array_equal(Rm, exp):
                    rep.violation("SymWann:triple_image", dict(structure=st["key"], op=st["ops"][n], blocks=[ord1, ord2], rlist=st["rlist"],
                                                               expected=exp.tolist(), got=np.asarray(Rm).tolist()))
            got = irreducible_triples(rep, sw, b1, b2, st["rlist"], ord1, ord2)
            if got is None:
                continue
            orbs = triple_orbits(st, sorted(set(op_of)), ord1, ord2)
            X = set().union(*orbs)
            rep.case(("irr", st["key"], b1, b2))
            counts["irr"] += 1
            counts["irr_reduced"] += int(len(orbs) < len(X))
            counts["irr_exactly_one"] += int(all(len(got & o) == 1 for o in orbs))
            missing = [sorted(o)[0] for o in orbs if not (got & o)]
            if missing or not got <= X:
                rep.violation("SymWann:find_irreducible_Rab", dict(structure=st["key"], blocks=[ord1, ord2], rlist=st["rlist"],
                                                                   orbits_not_represented=missing[:10], not_listed=sorted(got - X)[:10], got=sorted(got)))
    if okt:
        conv = 1 if shift_eq[1] else (-1 if shift_eq[-1] else 0)
        counts["shift_convention"][str(conv)] = counts["shift_convention"].get(str(conv), 0) + 1
        if conv == 0:
            rep.violation("SymmetrizerSAWF:shifts", dict(structure=st["key"], what="the lattice shifts T are neither p_map(a) - g(p_a) nor its negative"))


def subgroup_replay(rep, st, kind, counts):
    """spec -> code : find_irreducible_Rab of a SymWann restricted to a subgroup (use_symmetries_index): every orbit of the
    listed triples under the operations that are applied must be represented"""
    sub = list(st["sub"][kind])
    detail = dict(structure=st["key"], subgroup=kind, operations=[st["ops"][n] for n in sub])
    try:
        with quiet(), warnings.catch_warnings():
            warnings.simplefilter("ignore")
            good, built = sc.guarded(rep, "SymmetrizerSAWF/SymWann", detail, build_symwann, st, st["rlist"], sub)
    except TypeError as ex:              # the option was renamed: harness side
        rep.part("skipped_private", SymWann_use_symmetries_index=str(ex)[:200])
        return
    if not good:
        return
    sg, op_of, positions, orbits, projs, symm, sw = built
    orders = block_orders(rep, projs, positions, orbits)
    if orders is None:
        return
    for b1, ord1 in enumerate(orders):
        for b2, ord2 in enumerate(orders):
            got = irreducible_triples(rep, sw, b1, b2, st["rlist"], ord1, ord2)
            if got is None:
                continue
            orbs = triple_orbits(st, sub, ord1, ord2)
            X = set().union(*orbs)
            rep.case(("irr_sub", st["key"], kind, b1, b2))
            counts["irr_subgroup"] += 1
            counts["irr_subgroup_finer"] += int(len(orbs) > len(triple_orbits(st, range(len(st["ops"])), ord1, ord2)))
            missing = [sorted(o)[0] for o in orbs if not (got & o)]
            if missing or not got <= X:
                rep.violation("SymWann:find_irreducible_Rab:subgroup", dict(detail, blocks=[ord1, ord2], rlist=st["rlist"], orbits_not_represented=missing[:10],
                                                                            not_listed=sorted(got - X)[:10], got=sorted(got),
                                                                            what="with use_symmetries_index = a subgroup, some orbit of listed triples under the "
                                                                                 "selected operations has no representative: those hoppings are never averaged"))


# ----------------------------------------------------------------------------- numeric: System_R.symmetrize
def random_system(lattice, positions, names, proj, soc, nprs, nR=3):
    """a random Hermitian System_R whose Wannier functions follow proj (atom:shell), centres near the atomic sites"""
    from wannierberri.symmetry.orbitals import num_orbitals
    cent = []
    for p in proj:
        atom, orb = p.split(":")
        no = num_orbitals(orb) * (2 if soc else 1)
        for pos, nm in zip(positions, names):
            if nm == atom:
                for _ in range(no):
                    cent.append(pos + (nprs.rand(3) - 0.5) * 0.1)
    return random_system_at(lattice, np.array(cent), nprs, nR)


def random_system_at(lattice, cent, nprs, nR=3):
    """a random Hermitian System_R (Ham, AA, SS) with Wannier centres cent (reduced coordinates)"""
    from wannierberri.system.system_R import System_R
    from wannierberri.fourier.rvectors import Rvectors
    nw = len(cent)
    Rs = {(0, 0, 0)}
    while len(Rs) < nR:
        R = tuple(int(x) for x in nprs.randint(-1, 2, size=3))
        Rs.add(R)
        Rs.add(tuple(-x for x in R))
    iRvec = sorted(Rs)
    s = System_R(name="c20", silent=True)
    s.set_real_lattice(lattice)
    s.num_wann = nw
    s.wannier_centers_cart = cent @ lattice
    s.rvec = Rvectors(lattice=lattice, iRvec=iRvec, shifts_left_red=s.wannier_centers_red)
    for key in MATS:
        shape = (len(iRvec), nw, nw) + ((3,) if key != "Ham" else ())
        X = nprs.rand(*shape) - 0.5 + 1j * (nprs.rand(*shape) - 0.5)
        X = 0.5 * (X + s.rvec.conj_XX_R(X))
        if key == "AA":
            X[s.rvec.iR0, np.arange(nw), np.arange(nw)] = 0
        s.set_R_mat(key, X)
    s.do_at_end_of_init()
    return s


def as_function(system):
    """real-space matrices as dict key -> {R: matrix}, zero blocks dropped"""
    out = {}
    for key in MATS:
        X = system.get_R_mat(key)
        out[key] = {tuple(int(x) for x in R): X[i] for i, R in enumerate(system.rvec.iRvec) if np.abs(X[i]).max() > 1e-14}
    return out


def diff_functions(f, g):
    d = 0.0
    for key in set(f) | set(g):
        a, b = f.get(key, {}), g.get(key, {})
        for R in set(a) | set(b):
            if R in a and R in b:
                d = max(d, float(np.abs(a[R] - b[R]).max()))
            else:
                d = max(d, float(np.abs(a.get(R, b.get(R))).max()))
    return d


def group_sums(E, X):
    """per-band quantity X (nb, ...) summed over groups of exactly degenerate bands (E sorted ascending): independent of the
    basis chosen inside a degenerate subspace and of whether the library averages over it"""
    order = np.argsort(E)
    E, X = np.asarray(E)[order], np.asarray(X)[order]
    starts = [0] + [i + 1 for i, g in enumerate(np.diff(E)) if g >= 1e-9]
    return np.array([X[a:b].sum(axis=0) for a, b in zip(starts, starts[1:] + [len(E)])])


def centre_images(rep, symm, system):
    """largest distance between the image of a centre under an operation and the centre of the Wannier function it is
    mapped onto (orbitals mapped onto +-one orbital of the image site); None if the private tables are gone"""
    def run():
        wred = system.wannier_centers_red
        worst = 0.0
        for isym, symop in enumerate(symm.spacegroup.symmetries):
            for blk, (ws, _) in enumerate(symm.D_wann_block_indices):
                rot = symm.rot_orb_list[blk]
                norb = rot[0, 0].shape[0]
                amap = symm.atommap_list[blk][:, isym]
                for a in range(len(amap)):
                    D = rot[a, isym]
                    for i in range(norb):
                        col = np.abs(D[:, i])
                        j = int(np.argmax(col))
                        if abs(col[j] - 1) < 1e-9:       # orbital i is mapped onto +-orbital j of the image site
                            d = symop.transform_r(wred[ws + a * norb + i]) - wred[ws + amap[a] * norb + j]
                            worst = max(worst, float(np.abs(d - np.round(d)).max()))     # modulo lattice vectors: no shift convention
        return worst
    ok, w = sc.private(rep, "SymmetrizerSAWF tables (centre images)", run)
    return w if ok else None


def assess(rep, system, symm, lattice, pops, resym, nprs, counts, detail, full_group=True):
    """what the statement says about a symmetrised system, for the operations pops = {(W, time reversal)} it was symmetrised
    with: Hermiticity, E / curvature / spin at g k, centres, idempotence (resym() symmetrises once more).  -> (residuals, k) or None"""
    from wannierberri.evaluate_k import evaluate_k
    linvT = np.linalg.inv(lattice).T
    res = dict(energy=0.0, berry=0.0, spin=0.0, herm=0.0, centres=0.0, idem=0.0)
    for k in MATS:
        X = system.get_R_mat(k)
        res["herm"] = max(res["herm"], float(np.abs(X - system.rvec.conj_XX_R(X)).max()))
    # covariance under every operation (k' = +-W^-T k; axial vectors, odd under time reversal)
    quantities = ["energy", "berry_curvature", "spin"]
    kpt = None
    for _ in range(40):
        k0 = nprs.rand(3) * 0.8 + 0.1
        with quiet():
            good, r0 = sc.guarded(rep, "evaluate_k(symmetrized system)", dict(detail, k=k0.tolist()), evaluate_k, system, k=k0, quantities=quantities,
                                  return_single_as_dict=True)
        if not good:
            return None
        gaps = np.diff(np.sort(r0["energy"]))
        if np.all((gaps < 1e-9) | (gaps > MIN_GAP)):       # named exclusion: no near-degenerate (but split) bands at the test point
            kpt = k0
            break
        counts["k_skipped"] += 1
    if kpt is None:
        counts["no_kpoint"] += 1
        return None
    E0 = r0["energy"]
    for W, tr in pops:
        Wm = np.array(W, dtype=float)
        Wc = lattice.T @ Wm @ linvT                      # Cartesian matrix of the lattice operation
        sgn = -1.0 if tr else 1.0
        k1 = sgn * np.linalg.inv(Wm).T @ kpt
        with quiet():
            good, r1 = sc.guarded(rep, "evaluate_k(symmetrized system)", dict(detail, k=k1.tolist()), evaluate_k, system, k=k1, quantities=quantities,
                                  return_single_as_dict=True)
        if not good:
            return None
        ax = np.linalg.det(Wc) * sgn
        res["energy"] = max(res["energy"], float(np.abs(np.sort(r1["energy"]) - np.sort(E0)).max()))
        res["berry"] = max(res["berry"], float(np.abs(group_sums(r1["energy"], r1["berry_curvature"]) - ax * group_sums(E0, r0["berry_curvature"]) @ Wc.T).max()))
        res["spin"] = max(res["spin"], float(np.abs(group_sums(r1["energy"], r1["spin"]) - ax * group_sums(E0, r0["spin"]) @ Wc.T).max()))
        counts["ops_checked"] += 1
    if full_group:      # the library's own check and its group size: information only
        try:
            with quiet():
                errs, _ = system.check_symmetry(kpoint=kpt)
            res["library_check"] = float(max(errs.values()))
            counts["library_group_differs"] += int(len(system.pointgroup.symmetries) != len(pops))
            counts["library_check_disagrees"] += int(res["library_check"] > TOL_BERRY and max(res["energy"], res["berry"], res["spin"]) <= TOL)
        except Exception as ex:
            counts["library_check_unavailable"] += 1
            rep.part("library_check", note=f"{type(ex).__name__}: {ex}"[:200])
    # centres: fixed point of the symmetrizer, and images of orbitals that are mapped onto single orbitals
    wcc = system.wannier_centers_cart
    ok, w2 = sc.private(rep, "SymmetrizerSAWF.symmetrize_WCC", lambda: np.asarray(symm.symmetrize_WCC(wcc)))
    if ok:
        res["centres"] = float(np.abs(w2 - wcc).max())
    ci = centre_images(rep, symm, system)
    if ci is not None:
        res["centres"] = max(res["centres"], ci)
    counts["centres_checked"] += int(ok or ci is not None)
    # idempotence
    before = as_function(system)
    w0 = system.wannier_centers_cart.copy()
    with quiet(), warnings.catch_warnings():
        warnings.simplefilter("ignore")
        good = resym()
    if not good:
        return None
    res["idem"] = max(diff_functions(before, as_function(system)), float(np.abs(system.wannier_centers_cart - w0).max()))
    res["nops"] = len(pops)
    return res, kpt


def judge(rep, res, kpt, mixed_class, detail, site="System_R.symmetrize"):
    res["mixed_class"] = mixed_class
    for nm in ("energy", "berry", "spin", "herm", "centres", "idem"):
        if res[nm] > (TOL_BERRY if nm == "berry" else TOL):
            if mixed_class and nm in ("berry", "centres", "idem"):
                rep.violation("System_R.symmetrize:mixed_centres", dict(detail, kpoint=kpt.tolist(), residuals=res, numpy_seed="see evidence seed"))
            else:
                rep.violation(f"{site}:{nm}", dict(detail, kpoint=kpt.tolist(), residuals=res, numpy_seed="see evidence seed"))


def in_mixed_class(st, shells):
    return bool(st["mixed"]) and any(sh in MIXED_SHELLS["hex" if st["lat"] == "hex" else "orthogonal"] for sh in shells)


def symmetrize_run(rep, st, shells, soc, nprs, counts):
    """one System_R.symmetrize on a random Hermitian model of structure st; returns residuals (dict) or None if skipped"""
    lattice = sc.lattice_of(st["lat"])
    positions = np.array(st["pos"], dtype=float) / sc.DEN
    names = [f"X{t}" for t in st["types"]]
    proj = [f"{nm}:{sh}" for nm in sorted(set(names)) for sh in shells]
    magnetic = any(any(m) for m in st["mom"])
    magmom = np.array(st["mom"], dtype=float) if magnetic else None
    system = random_system(lattice, positions, names, proj, soc, nprs)
    detail = dict(structure=st["key"], lattice=lattice.tolist(), positions=positions.tolist(), atom_name=names, proj=proj, soc=soc,
                  magmom=None if magmom is None else magmom.tolist())
    with quiet(), warnings.catch_warnings():
        warnings.simplefilter("ignore")
        good, symm = sc.guarded(rep, "System_R.symmetrize", detail, system.symmetrize, proj=proj, positions=positions, atom_name=names, soc=soc,
                                magmom=magmom, silent=True)
    if not good:
        return None
    if symm is None:
        raise MachineryError("symmetrize returned no symmetrizer")
    pops = sorted({(W, tr) for W, _, tr in st["ops"]})
    out = assess(rep, system, symm, lattice, pops, lambda: sc.guarded(rep, "System_R.symmetrize2", detail, system.symmetrize2, symm, silent=True)[0],
                 nprs, counts, detail)
    if out is None:
        return None
    res, kpt = out
    rep.case(("symmetrize", st["key"], tuple(shells), soc))
    counts["runs"] += 1
    counts["soc"] += int(soc)
    counts["magnetic"] += int(magnetic)
    mixed_class = in_mixed_class(st, shells)
    counts["hexagonal"] += int(st["lat"] == "hex" and not mixed_class)
    counts["mixed_class"] += int(mixed_class)
    counts["two_block_runs"] += int(st["nsites"] == 4)
    judge(rep, res, kpt, mixed_class, detail)
    return res


def symmetrize2_run(rep, st, shells, soc, nprs, counts, kind=None, site_frames=False):
    """System_R.symmetrize2 with a symmetrizer built from Projection objects, on a random Hermitian model that is NOT symmetric:
    kind = a subgroup of the specification (option use_symmetries_index): the statement is tested for the operations of
    that subgroup; site_frames = projections with site-dependent local frames (Projection(basis_list=...)).
    -> (residuals, list of subgroup operations) or None"""
    from wannierberri.symmetry.sawf import SymmetrizerSAWF
    from wannierberri.symmetry.projections import Projection
    lattice = sc.lattice_of(st["lat"])
    detail = dict(structure=st["key"], lattice=lattice.tolist(), shells=list(shells), soc=soc, subgroup=kind, site_dependent_frames=site_frames,
                  entry="System_R.symmetrize2")

    def build():
        sg, op_of, _, positions = sc.real_spacegroup(st, spinor=soc)
        if site_frames:     # explicit orthonormal local frames (rows), a different one on every site of an orbit
            projs = [Projection(position_num=positions[orb], orbital=sh, spacegroup=sg, basis_list=[FRAMES[(n + m) % len(FRAMES)] for m in range(len(orb))])
                     for n, orb in enumerate(site_orbits(st)) for sh in shells]
        else:
            projs = [Projection(position_num=positions[orb], orbital=sh, spacegroup=sg, rotate_basis=False) for orb in site_orbits(st) for sh in shells]
        return sg, op_of, projs, SymmetrizerSAWF.from_spacegroup_and_projections(spacegroup=sg, projections=projs)
    with quiet(), warnings.catch_warnings():
        warnings.simplefilter("ignore")
        good, built = sc.guarded(rep, "Projection/SymmetrizerSAWF", detail, build)
    if not good:
        return None
    sg, op_of, projs, symm = built
    ok, cent = sc.private(rep, "Projection.positions/num_wann_per_site",
                          lambda: np.array([p for pr in projs for p in np.asarray(pr.positions, dtype=float).reshape(-1, 3) for _ in range(int(pr.num_wann_per_site))]))
    if not ok:
        return None
    if site_frames:
        ok, differ = sc.private(rep, "Projection.basis_list", lambda: any(not np.allclose(pr.basis_list, pr.basis_list[0]) for pr in projs))
        if not ok or not differ:
            counts["frames_not_site_dependent"] = counts.get("frames_not_site_dependent", 0) + 1
            return None
    system = random_system_at(lattice, cent + (nprs.rand(*cent.shape) - 0.5) * 0.1, nprs, nR=5)
    if kind is None:
        sub_spec, use = list(range(len(st["ops"]))), None
    else:
        sub_spec = list(st["sub"][kind])
        use = [isym for isym, n in enumerate(op_of) if n in set(sub_spec)]
        detail["use_symmetries_index"] = use
    kw = {} if use is None else dict(use_symmetries_index=use)

    def sym2():
        try:
            return sc.guarded(rep, "System_R.symmetrize2", detail, system.symmetrize2, symm, silent=True, **kw)[0]
        except TypeError as ex:          # the option was renamed: harness side
            rep.part("skipped_private", symmetrize2_use_symmetries_index=str(ex)[:200])
            return None
    with quiet(), warnings.catch_warnings():
        warnings.simplefilter("ignore")
        good = sym2()
    if not good:
        return None
    pops = sorted({(st["ops"][n][0], st["ops"][n][2]) for n in sub_spec})
    out = assess(rep, system, symm, lattice, pops, sym2, nprs, counts, detail, full_group=kind is None)
    if out is None:
        return None
    res, kpt = out
    rep.case(("symmetrize2", st["key"], tuple(shells), soc, kind, site_frames))
    counts["subgroup_runs" if kind else "site_frame_runs"] += 1
    mixed_class = in_mixed_class(st, shells)
    counts["mixed_class"] += int(mixed_class)
    judge(rep, res, kpt, mixed_class, detail, site="System_R.symmetrize2")
    return res, [st["ops"][n] for n in sub_spec] if kind else []


def random_structure(rng):
    lat = rng.choice(["cubic", "tetra", "ortho", "hex"])
    ns = rng.choice([2, 3, 3])
    pos = []
    while len(pos) < ns:
        p = tuple(rng.randrange(sc.DEN) for _ in range(3))
        if p not in pos:
            pos.append(p)
    types = [1] + [rng.choice([1, 2]) for _ in range(ns - 1)]
    return dict(lat=lat, types=types, pos=pos, mom=[(0, 0, 0)] * ns, nsites=ns, key=(lat, tuple(types), tuple(pos), ((0, 0, 0),) * ns))


def struct_record(rep, st, rng, subgroup=False):
    """code -> spec: everything is read from the real irrep / wannierberri objects"""
    from irrep.spacegroup import SpaceGroup
    from irrep.symmetry_operation import get_atom_map
    from wannierberri.symmetry.sawf import SymmetrizerSAWF
    from wannierberri.symmetry.projections import Projection
    from wannierberri.symmetry.sym_wann_2 import SymWann
    lattice = sc.lattice_of(st["lat"])
    positions = np.array(st["pos"], dtype=float) / sc.DEN
    with quiet(), warnings.catch_warnings():
        warnings.simplefilter("ignore")
        sg = SpaceGroup.from_cell(real_lattice=lattice, positions=positions, typat=list(st["types"]), magmom=None, include_TR=True, spinor=False)
    ops = []
    for symop in sg.symmetries:
        tn = np.asarray(symop.translation, dtype=float) * sc.DEN
        if np.abs(tn - np.round(tn)).max() > 1e-6:
            return None
        ops.append(dict(W=np.asarray(symop.rotation).astype(int).tolist(), t=[int(x) % sc.DEN for x in np.round(tn)], tr=bool(symop.time_reversal)))
    if any(o["W"] == [[1, 0, 0], [0, 1, 0], [0, 0, 1]] and not o["tr"] and any(o["t"]) for o in ops):
        return None        # not a primitive cell (named exclusion PrimitiveCell)
    ns = st["nsites"]
    # site maps of the real group (irrep), used to form the orbits
    amap0 = []
    for symop in sg.symmetries:
        m = [-1] * ns
        for ty in set(st["types"]):
            glob = [k for k in range(ns) if st["types"][k] == ty]
            mm, _ = get_atom_map(symop=symop, positions=positions[glob])
            for n, k in enumerate(glob):
                m[k] = glob[int(mm[n])]
        amap0.append(m)
    orbits, seen = [], set()
    for k in range(ns):
        if k not in seen:
            orb = sorted({m[k] for m in amap0})
            seen.update(orb)
            orbits.append(orb)
    rlist = [(0, 0, 0), (1, 0, 0), (0, 0, 1), (-1, 1, 0), (0, -1, -1), (2, 0, 0)]

    # the operations that are applied: all of them, or (every other record) only the proper rotations without time reversal
    sub = list(range(len(ops)))
    if subgroup:
        sub = [n for n, symop in enumerate(sg.symmetries) if not symop.time_reversal and np.linalg.det(np.asarray(symop.rotation, dtype=float)) > 0]
    kw = dict(use_symmetries_index=sub) if subgroup else {}

    def build():
        projs = [Projection(position_num=positions[orb], orbital="s", spacegroup=sg, rotate_basis=False) for orb in orbits]
        symm = SymmetrizerSAWF.from_spacegroup_and_projections(spacegroup=sg, projections=projs)
        return projs, symm, SymWann(symmetrizer=symm, iRvec=rlist, silent=True, **kw)
    try:
        with quiet(), warnings.catch_warnings():
            warnings.simplefilter("ignore")
            good, built = sc.guarded(rep, "SymmetrizerSAWF/SymWann", dict(structure=st["key"], use_symmetries_index=sub if subgroup else None), build)
    except TypeError as ex:              # the option was renamed: harness side
        rep.part("skipped_private", SymWann_use_symmetries_index=str(ex)[:200])
        return None
    if not good:
        return None
    projs, symm, sw = built
    orders = block_orders(rep, projs, positions, orbits)
    if orders is None:
        rep.violation("SymmetrizerSAWF:orbit", dict(structure=st["key"], what="the points of a projection block are not the sites of the orbit given to it"))
        return None
    # the maps and shifts as wannierberri holds them (site numbering of the record = the specification's)
    def tables():
        amap = [[-1] * ns for _ in ops]
        tvec = [[[0, 0, 0]] * ns for _ in ops]
        for b, order in enumerate(orders):
            for isym in range(len(ops)):
                for a, k in enumerate(order):
                    amap[isym][k] = order[int(symm.atommap_list[b][a, isym])]
                    tvec[isym][k] = [int(x) for x in symm.T_list[b][a, isym]]
        return amap, tvec
    ok, tab = sc.private(rep, "SymmetrizerSAWF.atommap_list/T_list", tables)
    if not ok:
        return None
    amap, tvec = tab
    b1, b2 = rng.randrange(len(orbits)), rng.randrange(len(orbits))
    rmap = []
    for _ in range(12):
        isym = rng.randrange(len(ops))
        ok, Rm = sc.private(rep, "SymWann.get_atom_R_map", lambda: np.asarray(sw.get_atom_R_map(sw.iRvec, isym, b1, b2)))
        if not ok:
            break
        iR, a, b = rng.randrange(len(rlist)), rng.randrange(len(orders[b1])), rng.randrange(len(orders[b2]))
        ka, kb = orders[b1][a], orders[b2][b]
        rmap.append(dict(op=isym, R=list(rlist[iR]), a=ka, b=kb, R2=[int(x) for x in Rm[iR, a, b]], a2=amap[isym][ka], b2=amap[isym][kb]))
    got = irreducible_triples(rep, sw, b1, b2, rlist, orders[b1], orders[b2])
    if got is None:
        return None
    irr_l = sorted([list(R), a, b] for R, a, b in got)
    return dict(fn="struct", lat=st["lat"], sites=[dict(type=t, pos=list(p), mom=[0, 0, 0]) for t, p in zip(st["types"], st["pos"])],
                ops=ops, sub=sub, amap=amap, tvec=tvec, rlist=[list(r) for r in rlist], blockA=sorted(orders[b1]), blockB=sorted(orders[b2]), rmap=rmap, irr=irr_l)


REC_CFG = "SPECIFICATION RecSpec\nCONSTANTS\n  DEN = %d\nINVARIANT Report\nCHECK_DEADLOCK FALSE\n" % sc.DEN
NW = {"s": 1, "p": 3, "d": 5, "sp3": 4, "t2g": 3, "eg": 2, "sp3d2": 6, "pz": 1, "sp2": 3, "sp": 2, "p2": 2, "pxy": 2}


def check(pid, tier):
    rep = Report(pid, tier, "exploration")
    try:
        return _check(rep, tier)
    except Exception:
        if rep.violations:
            rep.finish()
        raise
    finally:
        sc.cleanup(keep=any(k.startswith("spec:") for k, _ in rep.violations))      # TLC output is referenced only by spec:* violations


def _check(rep, tier):
    thorough = tier == "thorough"
    rng = random.Random(seed() * 7919 + 20)
    nprs = np.random.RandomState(seed() * 31 + 20)
    rep.rule("TLC enumerates a catalogue of structures (lattice type x 1-2 sites x species x positions with denominator 4, optionally "
             "magnetic moments); a case = one (structure, block, operation) index map or set of irreducible triples compared with "
             "SymmetrizerSAWF/SymWann, one System_R.symmetrize run (structure x projection set x soc) checked numerically, or one "
             "recorded structure / run validated by TLC; distinct by these tuples")
    rep.assume("starting models are random Hermitian matrices (Ham, AA, SS) on an R set closed under negation, centres within 0.05 of the sites")
    rep.assume(f"covariance is tested at random k-points without near-degenerate split bands (gaps < 1e-9 or > {MIN_GAP}); per-band quantities are "
               "compared as sums over exactly degenerate groups")
    rep.assume("projection shells are restricted to those the specification admits for the structure (SymOrbits!ShellAllowedIn)")

    lats, nsites, poscat = (["cubic", "tetra", "ortho", "hex"], [1, 2], "small") if thorough else (["tetra", "hex"], [1, 2], "tiny")
    sts, structs, excl = sc.symorb_structures(sc.uniq("c20_symorb"), lats, nsites, poscat)
    if ftable.spec_violation(rep, sts, "c20_symorb"):
        return rep.finish()
    rep.add_tlc("c20_symorb", sts)
    stm, mstructs, mexcl = sc.symorb_structures(sc.uniq("c20_symorb_mag"), ["tetra", "ortho"] if thorough else ["tetra"], [1, 2],
                                                 "tiny" if thorough else "pair", magnetic="zx" if thorough else "z")
    if ftable.spec_violation(rep, stm, "c20_symorb_mag"):
        return rep.finish()
    rep.add_tlc("c20_symorb_mag", stm)
    mstructs = [s for s in mstructs if any(any(m) for m in s["mom"])]
    stc, cstructs, _ = sc.symorb_structures(sc.uniq("c20_symorb_c3v"), ["cubic"], [2], "c3v")
    if ftable.spec_violation(rep, stc, "c20_symorb_c3v"):
        return rep.finish()
    rep.add_tlc("c20_symorb_c3v", stc)
    # class two_multi_site_blocks_permuted_differently: two species, each an orbit of two sites, permuted differently by some operation
    stb, bstructs, _ = sc.symorb_structures(sc.uniq("c20_symorb_2blocks"), ["tetra", "hex"], [4], "twoblocks")
    if ftable.spec_violation(rep, stb, "c20_symorb_2blocks"):
        return rep.finish()
    rep.add_tlc("c20_symorb_2blocks", stb)
    if not bstructs:
        raise MachineryError("the catalogue of two-block structures is empty")
    stw = tlc.run_tlc("MC_SymOrbits.tla", sc.symorb_cfg(["tetra"], [4], "twoblocks", False, blockmap="row"), sc.uniq("c20_symorb_rowmap"), workers=sc.WORKERS, timeout=1500)
    if not stw.get("violation") or stw["violation"][1] != "BlockTripleMap":
        raise MachineryError(f"sensitivity self-test failed: taking the column site through the site map of the row block must violate BlockTripleMap, got {stw.get('violation')} {stw.get('error')}")
    rep.part("sensitivity", column_site_through_row_block_map=stw["violation"][1])
    # sensitivity: representatives chosen w.r.t. the full group while only a subgroup is applied must leave triples unreached
    stf = tlc.run_tlc("MC_SymOrbits.tla", sc.symorb_cfg(["cubic"], [2], "c3v", False, subreps="full"), sc.uniq("c20_symorb_fullreps"), workers=sc.WORKERS, timeout=1500)
    if not stf.get("violation") or stf["violation"][1] != "SubReach":
        raise MachineryError(f"sensitivity self-test failed: full-group representatives with subgroup averaging must violate SubReach, got {stf.get('violation')} {stf.get('error')}")
    rep.part("sensitivity", full_group_representatives_with_subgroup_averaging=stf["violation"][1])
    cstructs = [s for s in cstructs if s["mixed"]]
    if not cstructs:
        raise MachineryError("the catalogue lacks a polar site whose group mixes dz2 and dx2-y2")
    hstructs = [s for s in structs if s["lat"] == "hex"]
    ostructs = [s for s in structs if s["lat"] != "hex"]
    rep.part("structures", nonmagnetic=len(structs), hexagonal=len(hstructs), magnetic=len(mstructs), excluded_nonprimitive=excl + mexcl,
             with_fractional_translations=sum(1 for s in structs if any(any(t) for _, t, _ in s["ops"])))
    if not ostructs or not mstructs or not hstructs:
        raise MachineryError("empty structure catalogue (orthogonal / magnetic / hexagonal)")

    # ---------------- spec -> code : index maps
    counts = dict(maps=0, rmap=0, irr=0, irr_reduced=0, irr_exactly_one=0, shift_convention={}, structures=0, magnetic=0, hexagonal=0,
                  irr_subgroup=0, irr_subgroup_finer=0, blocks_permuted_differently=0)
    if thorough:
        sel = structs + cstructs + bstructs + rng.sample(mstructs, min(len(mstructs), 40))
    else:
        sel = rng.sample(ostructs, min(len(ostructs), 4)) + rng.sample(hstructs, min(len(hstructs), 3)) + cstructs[:1] + rng.sample(mstructs, min(len(mstructs), 2)) + bstructs[:1] + bstructs[-1:]
    for st in sel:
        exact_replay(rep, st, counts)
        counts["structures"] += 1
        counts["magnetic"] += int(any(any(m) for m in st["mom"]))
        counts["hexagonal"] += int(st["lat"] == "hex")
    # the same with a subgroup of the operations (option use_symmetries_index): structures with the largest groups
    subsel = sorted(ostructs, key=lambda s: (-len(s["ops"]), repr(s["key"])))[:1] + sorted(hstructs, key=lambda s: (-len(s["ops"]) if s["nsites"] > 1 else 0, repr(s["key"])))[:1]
    if thorough:
        subsel = subsel + rng.sample(structs, min(len(structs), 10))
    for st in subsel:
        for kind in sorted(st["sub"]):
            if 1 < len(st["sub"][kind]) < len(st["ops"]):
                subgroup_replay(rep, st, kind, counts)
    if (counts["irr_reduced"] == 0 or counts["rmap"] == 0 or counts["irr_subgroup_finer"] == 0 or counts["blocks_permuted_differently"] == 0) and not rep.violations and "skipped_private" not in rep.parts:
        raise MachineryError(f"exact replay never met a reducible triple / a subgroup with finer orbits: {counts}")
    rep.part("exact_replay", **counts)
    rep.sample(dict(structure=sel[0]["key"], n_ops=len(sel[0]["ops"]), irreducible_triples=len(sel[0]["irr"])))

    # ---------------- numeric : System_R.symmetrize
    ncounts = dict(runs=0, soc=0, magnetic=0, hexagonal=0, ops_checked=0, k_skipped=0, skipped=0, no_kpoint=0, mixed_class=0, centres_checked=0,
                   library_group_differs=0, library_check_disagrees=0, library_check_unavailable=0, subgroup_runs=0, site_frame_runs=0, two_block_runs=0)
    recs = []
    maxres = {}
    plan = []
    pool = structs if thorough else rng.sample(ostructs, min(len(ostructs), 6)) + rng.sample(hstructs, min(len(hstructs), 2))
    for n, st in enumerate(pool):
        ok = [ps for ps in PROJ_SETS if all(sh in st["shells"] for sh in ps)]
        for ps in (rng.sample(ok, min(len(ok), 3 if thorough else 1))):
            plan.append((st, ps, (n + len(ps)) % 2 == 1))
    hplain = [s for s in hstructs if not s["mixed"]]
    if hplain:
        plan.append((hplain[0], ["p"], False))
        plan.append((hplain[-1], ["s", "p"], True))
    for st in cstructs[:2 if thorough else 1]:
        for ps in (["d"], ["t2g"], ["eg"], ["sp3"], ["s", "p"]) if thorough else (["eg"], ["t2g"]):
            if all(sh in st["shells"] for sh in ps):
                plan.append((st, ps, False))
    for n, st in enumerate(bstructs if thorough else [bstructs[0], bstructs[-1]]):       # two multi-site blocks permuted differently
        plan.append((st, ["s"], n % 2 == 1))
        if thorough and not st["mixed"]:
            plan.append((st, ["p"], False))
    for st in (mstructs if thorough else rng.sample(mstructs, min(len(mstructs), 3))):
        ok = [ps for ps in PROJ_SETS[:5] if all(sh in st["shells"] for sh in ps)]
        plan.append((st, rng.choice(ok), True))
    # symmetrize2 on models that are not symmetric: with a subgroup (use_symmetries_index), with site-dependent local frames
    plain = [s for s in structs if not s["mixed"]]
    multi = sorted([s for s in plain if any(len(o) > 1 for o in site_orbits(s))], key=lambda s: repr(s["key"]))
    big = sorted(plain, key=lambda s: (-len(s["ops"]), repr(s["key"])))
    plan2 = []
    if multi and big:
        mt = [s for s in multi if s["lat"] != "hex"] or multi
        mh = [s for s in multi if s["lat"] == "hex"] or multi
        plan2 = [(mt[0], ["s"], False, "proper", False), (big[0], ["p"], False, "c2", False), (mh[0], ["s", "p"], True, "inv", False),
                 (mt[-1], ["p"], False, None, True), (mh[-1], ["s", "p"], True, None, True)]
        if thorough:
            for n, st in enumerate(rng.sample(multi, min(len(multi), 12))):
                plan2.append((st, [["s"], ["p"], ["d"], ["s", "p"]][n % 4], n % 3 == 0, ["proper", "c2", "inv"][n % 3], False))
                plan2.append((st, [["p"], ["d"], ["s", "p"]][n % 3], n % 2 == 1, None, True))

    def record(st, ps, soc, res, subops=(), frames="global"):
        for k, v in res.items():
            if k not in ("mixed_class", "nops") and not res["mixed_class"]:
                maxres[k] = max(maxres.get(k, 0.0), v)
        recs.append(dict(fn="symm", lat=st["lat"], sites=[dict(type=t, pos=list(p), mom=list(m)) for t, p, m in zip(st["types"], st["pos"], st["mom"])],
                         shells=list(ps), soc=soc, nops=res["nops"], mixed_class=bool(res["mixed_class"]), frames=frames,
                         subops=[dict(W=[list(r) for r in W], t=list(t), tr=bool(tr)) for W, t, tr in subops],
                         b_energy=sc.bucket(res["energy"]), b_berry=sc.bucket(res["berry"]),
                         b_spin=sc.bucket(res["spin"]), b_herm=sc.bucket(res["herm"]), b_centres=sc.bucket(res["centres"]), b_idem=sc.bucket(res["idem"])))
    for st, ps, soc in plan:
        nw = sum(NW[sh] for sh in ps) * st["nsites"] * (2 if soc else 1)
        if nw > (24 if thorough else 16):
            ncounts["skipped"] += 1
            continue
        res = symmetrize_run(rep, st, ps, soc, nprs, ncounts)
        if res is None:
            ncounts["skipped"] += 1
            continue
        record(st, ps, soc, res)
    for st, ps, soc, kind, frames in plan2:
        if kind is not None and not 1 < len(st["sub"][kind]) < len(st["ops"]):
            kind = next((k for k in sorted(st["sub"]) if 1 < len(st["sub"][k]) < len(st["ops"])), None)
            if kind is None:
                continue
        out = symmetrize2_run(rep, st, ps, soc, nprs, ncounts, kind=kind, site_frames=frames)
        if out is None:
            ncounts["skipped"] += 1
            continue
        record(st, ps, soc, out[0], subops=out[1], frames="site" if frames else "global")
    if not rep.violations and (ncounts["runs"] == 0 or ncounts["soc"] == 0 or ncounts["magnetic"] == 0 or ncounts["runs"] == ncounts["soc"] or ncounts["hexagonal"] == 0 or ncounts["two_block_runs"] == 0
                                   or (("skipped_private" not in rep.parts) and (ncounts["subgroup_runs"] == 0 or ncounts["site_frame_runs"] == 0))):
        raise MachineryError(f"symmetrize runs do not cover soc / no soc / magnetic / hexagonal / subgroup / site-dependent frames: {ncounts}")
    rep.part("numeric_only", what="System_R.symmetrize (and symmetrize2 with a subgroup via use_symmetries_index / with site-dependent local frames) on random Hermitian models: E(gk)=E(k), curvature/spin covariance for every (W, TR) of the "
                                  f"specification's point group (of the selected subgroup), Hermiticity, centre images, idempotence; tolerance {TOL:g} (Berry curvature {TOL_BERRY:g} at band "
                                  f"gaps >= {MIN_GAP}); library_* counters are information (System.check_symmetry, size of system.pointgroup)",
             counts=ncounts, max_residual=maxres)
    if recs:
        rep.sample(recs[0])

    # ---------------- code -> spec : structures outside the catalogue + run residuals (+ the corrupted records of the self-test)
    nstruct = 60 if thorough else 8
    tries = 0
    while nstruct > 0 and tries < 2000:
        tries += 1
        st = random_structure(rng)
        r = struct_record(rep, st, rng, subgroup=nstruct % 2 == 1)
        if r is None:
            if "skipped_private" in rep.parts and tries > 20 and not any(x["fn"] == "struct" for x in recs):
                break
            continue
        recs.append(r)
        rep.case(("rec_struct", st["key"]))
        nstruct -= 1
    if not recs:
        if rep.violations:
            return rep.finish()
        raise MachineryError("nothing was recorded")
    nreal = len(recs)
    selftest = {}
    srecs = [r for r in recs if r["fn"] == "struct"]
    if srecs:
        srec = copy.deepcopy(srecs[0])
        srec["tvec"][1][0][0] += 1
        selftest[len(recs)] = "shifts"
        recs.append(srec)
        srec2 = copy.deepcopy(srecs[0])
        srec2["irr"] = []
        selftest[len(recs)] = "irreducible"
        recs.append(srec2)
    nrecs = [r for r in recs[:nreal] if r["fn"] == "symm" and not r["mixed_class"]]
    if nrecs:
        nrec = copy.deepcopy(nrecs[0])
        nrec["b_idem"] = 12
        selftest[len(recs)] = "idempotent"
        recs.append(nrec)
    stv, bad = ftable.validate_records("SymOrbitsRec.tla", REC_CFG, recs, sc.uniq("c20"))
    rep.add_tlc("c20_records", dict(stv, distinct=stv["distinct"] - len(selftest), generated=stv["generated"] - 2 * len(selftest)))
    rep.add_traces(nreal)
    for i, clause in selftest.items():
        if clause not in bad.get(i, []):
            raise MachineryError(f"binding self-test failed: corrupted record accepted ({clause}: {bad.get(i)})")
    rep.part("binding_selftest", corrupted_records_rejected={str(i - nreal): bad.get(i) for i in selftest})
    info = {}
    for i, clauses in bad.items():
        if i >= nreal:
            continue
        r = recs[i]
        for c in clauses:
            if c in INFO_CLAUSES:
                info[c] = info.get(c, 0) + 1
        hard = sorted(c for c in clauses if c not in INFO_CLAUSES)
        if not hard:
            continue
        if r["fn"] == "symm" and hard == ["mixed_centres"]:
            rep.violation("System_R.symmetrize:mixed_centres", dict(record=r, failing_clauses=hard))
            continue
        site = "System_R.symmetrize" if r["fn"] == "symm" else "SymWann"
        rep.violation(f"{site}:recorded:{'+'.join(hard)}", dict(record=r, failing_clauses=hard))
    if info:
        raise MachineryError(f"harness / irrep disagree with the specification about the inputs themselves: {info}")
    return rep.finish()
