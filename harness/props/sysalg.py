"""C05, C25, C26, C32, C33: the system algebra (spec/SysAlg.tla, exact numbers in spec/SysNum.tla).

spec  : SysAlg.tla (abstract systems over Gaussian integers; operators named like the code: Reorder, Rotate, DoubleSpin, MakeSOC,
        SetSOC/HamSOC, ToPlainR, Interpolate, CornerHamPar/Tet, SocCornerHam*, Ptb*/Tbm* builders and imports; spectra through
        characteristic polynomials), bounded models MC_SysAlgOps (state machine of API operations), MC_SysAlgPauli,
        MC_SysAlgCreate (builder state machines), MC_SysAlgCorners; record validation SysAlgRec.tla
bind  : spec -> code: every TLC state is replayed on the real classes and compared exactly with the specification's values;
        code -> spec: seeded random calls of the real code are projected to Gaussian integers and validated by TLC
"""
import copy
import os
import random
import warnings
import numpy as np

from .. import tlc, ftable
from ..common import Report, MachineryError, seed, quiet
from . import _sysalg_world as W
from . import _sysalg_ops as O
from . import _sysalg_rand as RND

_T = "TLC exhaustive on SysAlg.tla (exact Gaussian-integer / Z[zeta8] arithmetic, spectra as characteristic polynomials) + replay of every TLC state on the real code + TLC validation of recorded calls"
PROPS = {
    "C05": dict(level="model_checking", technique=_T,
                text="State machine of Reorder / Rotate (exact unitaries among co-centred functions) over a catalogue of small exact systems: "
                     "H(k)' = P^T H(k) P resp. U^+ H(k) U, characteristic polynomial invariant, covariant Wannier-gauge derivative (centres/shifts "
                     "permuted); every state replayed on System_R.reorder / a rotation of all R-matrices, evaluate_k and run() outputs compared before/after.",
                note="numeric (1e-8, exact inputs): evaluate_k energies/Berry curvature and run() CumDOS/AHC before/after; numeric_only: random complex "
                     "systems with AA and Haar-random unitaries among co-centred functions",
                ref="DESIGN.md 3.4, row C05"),
    "C25": dict(level="model_checking", technique=_T,
                text="DoubleSpin (interlaced Kronecker product, every band twice), MakeSOC (characteristic polynomial = product of the up and down ones, "
                     "equal or different R-sets), SetSOC/ToPlainR (same H(k) at every k), rotated Pauli matrices for all axes with angles in multiples of "
                     "pi/2 (Pauli algebra, spin along the axis = diag(1,-1), half-angle matrix unitary, exact in Z[zeta8]); replay on double_spin, SystemSOC, "
                     "Data_K_soc.HH_K, set_soc_axis, get_system_R, SOC.get_C_ss/get_pauli_rotated.",
                note="numeric_only: arbitrary angles (Pauli algebra to 1e-12), random real-valued SOC-free up/down systems (union of spectra)",
                ref="DESIGN.md 3.4, row C25"),
    "C26": dict(level="model_checking", technique=_T,
                text="Interpolate(s0, s1, a/den) with R-set union and matrix-set intersection: endpoints reproduce s0 / s1 at every k (Ham and the second "
                     "matrix), affine in alpha, centres affine; replay on SystemInterpolator.interpolate with exact projection of matrices, "
                     "wannier_centers and rvec shifts.",
                note="alpha in {0, 1/2, 1} (thorough also quarters) with dyadic data; numeric_only: random alpha affinity",
                ref="DESIGN.md 3.4, row C26"),
    "C32": dict(level="model_checking", technique=_T,
                text="PythTB (set_onsite/set_hop, set/add modes, refusals, spinful blocks) and TBmodels (constructor on_site, add_hop, add_on_site; halved "
                     "R=0 storage, positive-R keys) builders as state machines, import get_system_tb_py transcribed; import = source Hamiltonian, both libraries "
                     "agree on the same hoppings, Haldane_ptb = Haldane_tbm over a parameter grid; every state replayed on the real libraries and from_pythtb / from_tbmodels.",
                note="numeric (1e-8): energies of the imported system vs the source model's own solver; bundled builders compared over the parameter grid in units of 0.2",
                ref="DESIGN.md 3.4, row C32"),
    "C33": dict(level="model_checking", technique=_T,
                text="Corner Hamiltonians of E_K_corners_parallel / E_K_corners_tetra transcribed for real-space, spin-orbit (up/down R-sets equal or different) "
                     "and k.p systems; TLC checks that they are the Hamiltonians at the corner k-points; every state replayed on Data_K_R / Data_K_soc / Data_K_k "
                     "(also phonon-flagged), corner energies compared with the eigenvalues of the specification's exact matrices and with direct evaluation.",
                note="eigenvalues are compared as sorted spectra (1e-8; stable also at degeneracies); records carry the integer characteristic polynomials of the code's corner spectra",
                ref="DESIGN.md 3.4, row C33"),
}


LEVI = np.zeros((3, 3, 3))
LEVI[0, 1, 2] = LEVI[1, 2, 0] = LEVI[2, 0, 1] = 1
LEVI[0, 2, 1] = LEVI[2, 1, 0] = LEVI[1, 0, 2] = -1


def _workers(thorough):
    return 16


def _replay_all(rep, st, pid, tag, classes, sample_every=None, on_sample=None):
    n = 0
    counts = {}
    for s in ftable.dump_states(st):
        n += 1
        last = s["hist"][-1]["op"] if s["hist"] else "base"
        counts[last] = counts.get(last, 0) + 1
        real = O.replay_state(rep, s, pid, tag)
        if on_sample is not None and real is not None and s["hist"] and counts[last] % sample_every == 1:
            on_sample(s, real)
        if s["hist"] and counts[last] == 1:
            rep.sample(dict(config=tag, base=O._js(s["base"]), hist=O._js(s["hist"]), expected=O._js(s["cur"]) if s["kind"] == "R" else "SOC"))
    if n != st["distinct"]:
        raise MachineryError(f"{tag}: dump has {n} states, TLC reported {st['distinct']}")
    for c in classes:
        if counts.get(c, 0) == 0:
            raise MachineryError(f"{tag}: vacuous, no state after {c} ({counts})")
    rep.part(tag, replayed=n, per_operation=counts)
    return counts


def _validate(rep, recs, name, site_of):
    if not recs:
        raise MachineryError(f"{name}: no records")
    stv, bad = ftable.validate_records("SysAlgRec.tla", ftable.REC_CFG, recs, name, timeout=1700)
    rep.add_tlc(name + "_records", stv)
    rep.add_traces(len(recs))
    for i, clauses in bad.items():
        rep.violation(f"{site_of(recs[i])}:recorded", dict(record=recs[i], failing_clauses=clauses))
    rep.sample(dict(record=recs[0]["fn"], example={k: v for k, v in recs[0].items() if k in ("fn", "p", "a", "den", "m", "n")}))
    return bad


def _selftest(rep, rec, mutate, name, expect_clause=None):
    bad = copy.deepcopy(rec)
    mutate(bad)
    _, b2 = ftable.validate_records("SysAlgRec.tla", ftable.REC_CFG, [bad], name + "_selftest")
    if 0 not in b2 or (expect_clause and expect_clause not in b2[0]):
        raise MachineryError(f"binding self-test failed ({name}): corrupted record accepted ({b2})")
    rep.part("binding_selftest_" + name, corrupted_record_rejected=b2[0])


def _flip(mat_entry):
    mat_entry[0] += 1


# =================================================================================================== C05
def check_c05(rep, thorough):
    rng = random.Random(seed() * 7919 + 5)
    w = _workers(thorough)
    rep.rule("TLC enumerates base systems (nw Wannier functions, hops with amplitudes in {1,-1,i} on R within +-1 in 1-2 directions, on-site "
             "energies, centres in twelfths, optional second matrix) and sequences of Reorder / Rotate; a case = one TLC state (base + operation "
             "history) replayed on the real code with exact comparison of the projection, H(k), dH(k), spectrum; plus seeded random recorded calls "
             "validated by TLC; distinct by (base, history) / record input")
    rep.assume("amplitudes are Gaussian integers and k-points quarters of reciprocal lattice vectors, so H(k) is exactly representable; "
               "R-vectors within +-1 per direction: agreement on three quarter points per direction is agreement at every k")
    numeric = dict(evaluate_k=0, run=0, maxdev=0.0)

    def on_sample(s, real):
        base = W.build(W.sys_from_tla(s["base"]))
        a, b = O.observe(base), O.observe(real)
        dev, what = O.compare_observations(a, b, 1e-8)
        numeric["evaluate_k"] += 1
        numeric["maxdev"] = max(numeric["maxdev"], dev)
        rep.case(("evaluate_k", repr(s["base"]), repr(s["hist"])))
        if dev > 1e-8:
            rep.violation(f"{O.OP_SITE[s['hist'][-1]['op']]}:evaluate_k", dict(base=O._js(s["base"]), hist=O._js(s["hist"]), k=O.GENERIC_K, compared=what, deviation=dev,
                                                                              before={k: v.tolist() for k, v in a.items()}, after={k: v.tolist() for k, v in b.items()}))
        if numeric["run"] < (24 if thorough else 3) and real.num_wann > 1:
            ra, rb = O.run_integrated(base), O.run_integrated(real)
            d2 = max(float(np.max(np.abs(ra[k] - rb[k]))) for k in ra)
            numeric["run"] += 1
            numeric["maxdev"] = max(numeric["maxdev"], d2)
            rep.case(("run", repr(s["base"]), repr(s["hist"])))
            if d2 > 1e-8:
                rep.violation(f"{O.OP_SITE[s['hist'][-1]['op']]}:run", dict(base=O._js(s["base"]), hist=O._js(s["hist"]), deviation=d2))

    if thorough:
        cfgs = [("c05_reorder", ["Reorder"], dict(OPS='{"Reorder"}', NWS="{1, 2, 3}", MAXHOPS=1, NEPS=2, NCEN=2, WITHX="{FALSE, TRUE}"), 40),
                ("c05_reorder_2hops", ["Reorder"], dict(OPS='{"Reorder"}', NWS="{2}", MAXHOPS=2, NEPS=1, NCEN=2, WITHX="{FALSE}"), 60),
                ("c05_rotate", ["Rotate"], dict(OPS='{"Rotate"}', NWS="{2}", MAXHOPS=1, NEPS=2, NCEN=3, PHS="{0, 1, 2, 3}", WITHX="{FALSE, TRUE}"), 100),
                ("c05_rotate_3", ["Rotate"], dict(OPS='{"Rotate"}', NWS="{3}", KDIRS=1, MAXHOPS=1, NEPS=1, NCEN=2, PHS="{0, 1}"), 60),
                ("c05_chain", ["Reorder", "Rotate"], dict(OPS='{"Reorder", "Rotate"}', MAXLEN=2, NWS="{2}", KDIRS=2, MAXHOPS=1, NEPS=1, NCEN=1, PHS="{1, 2}"), 80)]
    else:
        cfgs = [("c05_reorder", ["Reorder"], dict(OPS='{"Reorder"}', NWS="{1, 2}", MAXHOPS=1, NEPS=1, NCEN=2, WITHX="{FALSE, TRUE}"), 25),
                ("c05_rotate", ["Rotate"], dict(OPS='{"Rotate"}', NWS="{2}", MAXHOPS=1, NEPS=1, NCEN=3, PHS="{0, 1}", WITHX="{FALSE}"), 30),
                ("c05_chain", ["Reorder", "Rotate"], dict(OPS='{"Reorder", "Rotate"}', MAXLEN=2, NWS="{2}", KDIRS=1, MAXHOPS=1, NEPS=1, NCEN=1, PHS="{1}"), 40)]
    for name, classes, kw, every in cfgs:
        st = O.run_ops(rep, name, w, **kw)
        if st is None:
            continue
        _replay_all(rep, st, "C05", name, ["base"] + classes, sample_every=every, on_sample=on_sample)
    O.sensitivity(rep, "c05_reorder_keepcentres", "LawReorder", w, OPS='{"Reorder"}', NWS="{2}", Variant='"keepcentres"')
    O.sensitivity(rep, "c05_rotate_not_cocentred", "LawRotate", w, OPS='{"Rotate"}', NWS="{2}", NCEN=2, Variant='"anyU"')
    if numeric["evaluate_k"] == 0:
        raise MachineryError("no evaluate_k comparison was made")
    rep.part("numeric_exact_inputs", **numeric, tolerance=1e-8)

    # ---- code -> spec
    recs = []
    nrec = 400 if thorough else 24
    for i in range(nrec):
        a = RND.rand_sys(rng, rmax=rng.choice([1, 1, 2]), nw=rng.choice([2, 3, 3]))
        try:
            rec, views, out = (RND.rec_reorder if i % 2 == 0 else RND.rec_rotate)(rng, a)
        except W.NonIntegral as ex:
            rep.violation("System_R.reorder:non-integral" if i % 2 == 0 else "rotate_all_R_matrices:non-integral", dict(sys=W.sys_json(a), error=str(ex)))
            continue
        dv = W.diff_views(out["cen"], views)
        if dv:
            rep.violation("System_R.reorder:shifts", dict(record=rec, differences=dv))
        recs.append(rec)
        rep.case(("rec", rec["fn"], i, repr(rec["sys"]), repr(rec.get("p", rec.get("U")))))
    _validate(rep, recs, "c05", lambda r: "System_R.reorder" if r["fn"] == "reorder" else "rotate_all_R_matrices")
    r0 = next(r for r in recs if r["fn"] == "reorder" and r["p"] != sorted(r["p"]))
    _selftest(rep, r0, lambda r: r["out"]["cen"].reverse() if r["out"]["cen"][0] != r["out"]["cen"][-1] else _flip(r["out"]["H"][0][0][0]), "c05", None)

    # ---- numeric only: random complex systems with AA, Haar-random unitaries among co-centred functions
    from scipy.stats import unitary_group
    nprng = np.random.RandomState(seed() + 505)
    nn, maxdev = (40 if thorough else 6), 0.0
    for _ in range(nn):
        a = RND.rand_sys(rng, nw=3, rmax=1, with_x=True, cen_choices=(0, 4))
        for R in a["rs"]:
            mR = tuple(-x for x in R)
            if R >= (0, 0, 0):
                noise = (nprng.randn(3, 3) + 1j * nprng.randn(3, 3)) * 0.3
                a["H"][R] = a["H"][R] + (noise + noise.conj().T if R == (0, 0, 0) else noise)
                if R != (0, 0, 0):
                    a["H"][mR] = a["H"][R].conj().T
        s0 = W.build(a)
        U = np.zeros((3, 3), dtype=complex)
        groups = {}
        for i in range(3):
            groups.setdefault(tuple(a["cen"][i]), []).append(i)
        for idx in groups.values():
            U[np.ix_(idx, idx)] = unitary_group.rvs(len(idx), random_state=nprng) if len(idx) > 1 else np.exp(1j * nprng.rand())
        s1 = W.op_rotate(W.build(a), U)
        q = ("energy", "berry_curvature")
        oa, ob = O.observe(s0, quantities=q), O.observe(s1, quantities=q)
        dev, _ = O.compare_observations(oa, ob, 1e-7)
        maxdev = max(maxdev, dev)
        if dev > 1e-6:
            rep.violation("rotate_all_R_matrices:evaluate_k:numeric", dict(sys=W.sys_json(a), deviation=dev))
    rep.part("numeric_only", random_unitary_cases=nn, max_deviation=maxdev, tolerance=1e-6)
    import shutil
    from ..common import WORK
    shutil.rmtree(os.path.join(WORK, "sysalg_run"), ignore_errors=True)          # files written by run()
    return rep.finish()


# =================================================================================================== C25
def check_c25(rep, thorough):
    rng = random.Random(seed() * 7919 + 25)
    w = _workers(thorough)
    rep.rule("TLC enumerates base systems and the operation sequences DoubleSpin[, Reorder] and MakeSOC(partner)[, SetSOC(SOC data, axis, alpha)"
             "[, ToPlainR]], and all 64 axes (theta, phi in multiples of pi/2 over the 4 pi period); a case = one TLC state replayed on the real code "
             "(exact projection, H(k) of Data_K_R / Data_K_soc, Ham_SOC, SS, spectrum); plus seeded random recorded calls validated by TLC")
    rep.assume("the SOC real-space matrices (dV_soc_wann_*, overlap_up_down) are put directly into SystemSOC with small Gaussian integers and the identity "
               "overlap; only set_soc_axis / get_system_R / Data_K_soc are exercised, not set_soc_R (needs ab-initio files)")
    numeric = dict(evaluate_k=0, maxdev=0.0)

    def on_sample(s, real):
        if s["hist"][-1]["op"] != "DoubleSpin" or len(s["hist"]) != 1:
            return
        base = W.build(W.sys_from_tla(s["base"]))
        a, b = O.observe(base), O.observe(real)
        dev, what = O.compare_observations(a, b, 1e-8, mult=2)
        numeric["evaluate_k"] += 1
        numeric["maxdev"] = max(numeric["maxdev"], dev)
        if dev > 1e-8:
            rep.violation("System_R.double_spin:evaluate_k", dict(base=O._js(s["base"]), compared=what, deviation=dev))

    st = O.run_ops(rep, "c25_double", w, OPS='{"DoubleSpin", "Reorder"}', MAXLEN=2, NWS="{1, 2}" if thorough else "{1}", MAXHOPS=1,
                   WITHX="{FALSE, TRUE}", NEPS=2, NCEN=2)
    if st:
        _replay_all(rep, st, "C25", "c25_double", ["base", "DoubleSpin", "Reorder"], sample_every=10, on_sample=on_sample)
    socs = [("c25_soc", dict(NWS="{1}", MAXHOPS=1, KDIRS=2, ANGM="{1, 3}", ANGN="{0, 1, 2}", ALS="{2}")),
            ("c25_soc_2", dict(NWS="{2}", MAXHOPS=0, KDIRS=1, ANGM="{1}", ANGN="{0, 1}", ALS="{1}"))] if thorough else \
           [("c25_soc", dict(NWS="{1}", MAXHOPS=1, KDIRS=1, ANGM="{1}", ANGN="{1}", ALS="{1}"))]
    for name, kw in socs:
        st = O.run_ops(rep, name, w, OPS='{"MakeSOC", "SetSOC", "ToPlainR"}', MAXLEN=3, NEPS=1, NCEN=1, MAXSOC=1, **kw)
        if st:
            _replay_all(rep, st, "C25", name, ["MakeSOC", "SetSOC", "ToPlainR"])
    O.sensitivity(rep, "c25_double_block_order", "LawDoubleSpin", w, OPS='{"DoubleSpin"}', NWS="{2}", Variant='"blockspin"')

    # ---- Pauli algebra, all axes
    inv = ["HalfAngleUnitary", "RotatedExact", "RotatedPauliAlgebra", "SpinAlongAxis", "AxisIsUnit", "RotatedIsVectorRotation"]
    pcfg = lambda invs: "SPECIFICATION Spec\nCONSTANTS\n  MMAX = 7\n" + "".join(f"INVARIANT {i}\n" for i in invs) + "CHECK_DEADLOCK FALSE\n"
    st = O.enumerate_states("MC_SysAlgPauli.tla", pcfg(inv), "c25_pauli", workers=4)
    if not ftable.spec_violation(rep, st, "c25_pauli"):
        rep.add_tlc("c25_pauli", st)
        from wannierberri.w90files.soc import SOC
        z8 = np.exp(1j * np.pi / 4) ** np.arange(4)
        npa = 0
        for s in ftable.dump_states(st):
            npa += 1
            th, ph = s["m"] * np.pi / 2, s["n"] * np.pi / 2
            rep.case(("pauli", s["m"], s["n"]))
            C = SOC.get_C_ss(theta=th, phi=ph)
            expC = np.array([[np.dot(np.array(s["C2"][i][j], dtype=float), z8) / 2 for j in range(2)] for i in range(2)])
            if np.max(np.abs(C - expC)) > 1e-12:
                rep.violation("SOC.get_C_ss", dict(m=s["m"], n=s["n"], expected=O._c(expC), got=O._c(C)))
            P = SOC.get_pauli_rotated(theta=th, phi=ph)
            expP = np.transpose(np.array([W.tla_mat(s["P"][c]) for c in range(3)]), (1, 2, 0))
            if np.max(np.abs(P - expP)) > 1e-12:
                rep.violation("SOC.get_pauli_rotated", dict(m=s["m"], n=s["n"], expected=O._c(expP), got=O._c(P)))
            if npa == 2:
                rep.sample(dict(config="c25_pauli", m=s["m"], n=s["n"], axis=list(s["ax"]), pauli_rotated=O._js(s["P"])))
        if npa != 64:
            raise MachineryError(f"c25_pauli: {npa} states")
    st0 = tlc.run_tlc("MC_SysAlgPauli.tla", pcfg(["UnrotatedSpinAlongAxis"]), "c25_pauli_v0", workers=2, coverage=False, timeout=600)
    if not st0.get("violation"):
        raise MachineryError("sensitivity self-test failed: unrotated Pauli matrices accepted")
    rep.part("c25_pauli_unrotated", sensitivity_violation=st0["violation"][1])
    rep.part("numeric_exact_inputs", **numeric, tolerance=1e-8)

    # ---- code -> spec
    recs = []
    nrec = 240 if thorough else 30
    ks = [(0, 0, 0), (1, 2, 0), (3, 1, 0), (2, 2, 0)]
    for i in range(nrec):
        try:
            kind = i % 4
            if kind == 0:
                rec, views, out = RND.rec_doublespin(rng, RND.rand_sys(rng, nw=rng.choice([1, 2, 3])))
                dv = W.diff_views(out["cen"], views)
                if dv:
                    rep.violation("System_R.double_spin:shifts", dict(record=rec, differences=dv))
                recs.append(rec)
            elif kind == 3:
                m, n = rng.randint(0, 7), rng.randint(0, 7)
                P = RND.exact_pauli_rot(m, n)
                recs.append(dict(fn="pauli", m=m, n=n, P=[W.mat_json(P[c]) for c in range(3)]))
            else:
                nw = rng.choice([1, 2])
                up = RND.rand_sys(rng, nw=nw, with_x=False)
                dn = RND.rand_sys(rng, nw=nw, with_x=False)
                socdata = RND.rand_soc_data(rng, nw) if kind == 2 else None
                m, n, al = rng.randint(0, 3), rng.randint(0, 3), rng.choice([1, 2, -1])
                rec, soc, a = RND.rec_soc_hk(rng, up, dn, socdata, m, n, al, ks)
                recs.append(rec)
                if socdata is not None:
                    rec2, views, out, plain = RND.rec_toplain(soc, a)
                    recs.append(rec2)
                    rep.case(("rec", "toplain", i))
            rep.case(("rec", recs[-1]["fn"], i))
        except W.NonIntegral as ex:
            rep.violation("C25:non-integral", dict(index=i, error=str(ex)))
    site = {"doublespin": "System_R.double_spin", "soc_hk": "Data_K_soc.HH_K", "toplain": "SystemSOC.get_system_R", "pauli": "SOC.get_pauli_rotated"}
    _validate(rep, recs, "c25", lambda r: site[r["fn"]])
    _selftest(rep, next(r for r in recs if r["fn"] == "soc_hk"), lambda r: _flip(r["hk"][1][0][0]), "c25", "equals_spec")

    # ---- numeric only
    from wannierberri.w90files.soc import SOC
    nprng = np.random.RandomState(seed() + 2525)
    maxdev = 0.0
    nn = 2000 if thorough else 200
    for _ in range(nn):
        th, ph = nprng.rand() * 2 * np.pi, nprng.rand() * 4 * np.pi
        P = SOC.get_pauli_rotated(theta=th, phi=ph)
        ax = np.array([np.sin(th) * np.cos(ph), np.sin(th) * np.sin(ph), np.cos(th)])
        dev = np.max(np.abs(np.einsum("ijc,c->ij", P, ax) - np.diag([1, -1])))
        for a in range(3):
            for b in range(3):
                rhs = (a == b) * np.eye(2) + 1j * np.einsum("c,ijc->ij", LEVI[a, b], P)
                dev = max(dev, np.max(np.abs(P[:, :, a] @ P[:, :, b] - rhs)))
        maxdev = max(maxdev, dev)
        if dev > 1e-9:
            rep.violation("SOC.get_pauli_rotated:numeric", dict(theta=th, phi=ph, deviation=float(dev)))
    # random non-integer up/down systems at random k: spectrum of the SOC-free SystemSOC = union of the two spectra
    n2, dev2 = (40 if thorough else 6), 0.0
    for _ in range(n2):
        nw = rng.choice([1, 2, 3])
        up, dn = RND.rand_sys(rng, nw=nw, with_x=False), RND.rand_sys(rng, nw=nw, with_x=False)
        ju, jd = W.sys_json(up), W.sys_json(dn)
        for a_, f in ((up, 0.37), (dn, 0.61)):
            for R in a_["rs"]:
                a_["H"][R] = a_["H"][R] * f
        soc, _ = RND.make_real_soc(up, dn)
        k4 = [tuple(4 * nprng.rand(3))]
        e = np.sort(np.array(W.data_k_list(soc, k4).E_K)[0])
        eu = np.array(W.data_k_list(W.build(up), k4).E_K)[0]
        ed = np.array(W.data_k_list(W.build(dn), k4).E_K)[0]
        d = float(np.max(np.abs(e - np.sort(np.concatenate([eu, ed])))))
        dev2 = max(dev2, d)
        if d > 1e-9:
            rep.violation("SystemSOC:union_of_spectra:numeric", dict(up=ju, dn=jd, scale=[0.37, 0.61], k=[x / 4 for x in k4[0]], deviation=d))
    rep.part("numeric_only", random_axes=nn, max_deviation=float(maxdev), tolerance=1e-9, random_soc_free_systems=n2, max_deviation_spectra=dev2)
    return rep.finish()


# =================================================================================================== C26
def check_c26(rep, thorough):
    rng = random.Random(seed() * 7919 + 26)
    w = _workers(thorough)
    rep.rule("TLC enumerates pairs (base system, partner system: other centres, other R-set, with/without the second matrix) and alpha = a/den; a case = "
             "one TLC state replayed on SystemInterpolator(s0, s1).interpolate(alpha) with exact projection (Ham, AA, R-set, centres in all three "
             "places the code keeps them) and H(k); plus seeded random recorded calls validated by TLC")
    rep.assume("all amplitudes are multiples of den, so every interpolated value is an integer (named precondition InterpExact)")
    cfgs = [("c26_interp", dict(OPS='{"Interpolate"}', NWS="{1, 2}" if thorough else "{2}", SC=2, DEN=2, WITHX="{FALSE, TRUE}", MAXHOPS=1, NEPS=1,
                                NCEN=2 if thorough else 1, KDIRS=2 if thorough else 1))]
    if thorough:
        cfgs.append(("c26_interp_quarters", dict(OPS='{"Interpolate"}', NWS="{2}", SC=4, DEN=4, WITHX="{FALSE, TRUE}", MAXHOPS=1, NEPS=1, NCEN=1, KDIRS=1)))
        cfgs.append(("c26_interp_chain", dict(OPS='{"Interpolate", "Reorder"}', MAXLEN=2, NWS="{2}", SC=2, DEN=2, WITHX="{FALSE}", MAXHOPS=1, MAXHOPS2=0,
                                              NEPS=1, NCEN=1, KDIRS=1)))
    for name, kw in cfgs:
        st = O.run_ops(rep, name, w, **kw)
        if st:
            _replay_all(rep, st, "C26", name, ["base", "Interpolate"])
    O.sensitivity(rep, "c26_intersect_rset", "LawInterpolate", w, OPS='{"Interpolate"}', NWS="{1}", SC=2, Variant='"intersect"')

    recs = []
    nrec = 300 if thorough else 30
    for i in range(nrec):
        den = rng.choice([2, 2, 4])
        a = rng.randint(0, den)
        nw = rng.choice([1, 2, 3])
        same_cen = rng.random() < 0.5
        s0 = RND.rand_sys(rng, nw=nw, scale=den, cen_choices=(0, 4, 8))
        s1 = RND.rand_sys(rng, nw=nw, scale=den, cen_choices=(0, 4, 8))
        if same_cen:
            s1["cen"] = s0["cen"].copy()
        else:
            s1["cen"] = s0["cen"] + den * np.array([[rng.choice([0, 1]), rng.choice([0, -1]), 0] for _ in range(nw)])
        try:
            rec, views, out = RND.rec_interp(rng, s0, s1, a, den)
        except W.NonIntegral as ex:
            rep.violation("SystemInterpolator.interpolate:non-integral", dict(s0=W.sys_json(s0), s1=W.sys_json(s1), a=a, den=den, error=str(ex)))
            continue
        dv = W.diff_views(out["cen"], views)
        if dv:
            rep.violation("SystemInterpolator.interpolate:centres_not_propagated", dict(record=rec, differences=dv))
        recs.append(rec)
        rep.case(("rec", "interp", i, a, den))
    _validate(rep, recs, "c26", lambda r: "SystemInterpolator.interpolate")
    _selftest(rep, next(r for r in recs if r["a"] == 0), lambda r: _flip(r["out"]["H"][0][0][0]), "c26", "equals_spec")

    # ---- numeric only: random alpha, affinity of matrices and of H(k)
    from wannierberri.system.interpolate import SystemInterpolator
    nprng = np.random.RandomState(seed() + 2626)
    nn, maxdev = (60 if thorough else 8), 0.0
    for _ in range(nn):
        nw = rng.choice([2, 3])
        s0, s1 = RND.rand_sys(rng, nw=nw), RND.rand_sys(rng, nw=nw)
        s1["cen"] = s0["cen"].copy()
        with quiet(), warnings.catch_warnings():
            warnings.simplefilter("ignore")
            itp = SystemInterpolator(W.build(s0), W.build(s1))
            al = float(nprng.rand())
            r = itp.interpolate(al)
        ks = [(1, 2, 0), (3, 3, 0)]
        hk = W.real_hk(r, ks)
        for i, k in enumerate(ks):
            dev = np.max(np.abs(hk[i] - ((1 - al) * W.abs_hk(s0, k) + al * W.abs_hk(s1, k))))
            maxdev = max(maxdev, float(dev))
            if dev > 1e-9:
                rep.violation("SystemInterpolator.interpolate:affine:numeric", dict(alpha=al, s0=W.sys_json(s0), s1=W.sys_json(s1), deviation=float(dev)))
    rep.part("numeric_only", random_alpha_cases=nn, max_deviation=maxdev, tolerance=1e-9)
    return rep.finish()


def _cap_violations(rep, cap=2):
    """Report.finish writes replay files for the keys among the first 20 violations only: keep at most `cap` per key, count the rest"""
    orig, counts = rep.violation, {}

    def violation(key, detail):
        counts[key] = counts.get(key, 0) + 1
        rep.part("violation_counts", **{key: counts[key]})
        return orig(key, detail) if counts[key] <= cap else False
    rep.violation = violation


def check(pid, tier):
    rep = Report(pid, tier, "model_checking")
    _cap_violations(rep)
    thorough = tier == "thorough"
    if pid == "C05":
        return check_c05(rep, thorough)
    if pid == "C25":
        return check_c25(rep, thorough)
    if pid == "C26":
        return check_c26(rep, thorough)
    if pid == "C32":
        from . import _sysalg_create as CR
        return CR.check_c32(rep, thorough)
    if pid == "C33":
        from . import _sysalg_corners as CO
        return CO.check_c33(rep, thorough)
    raise MachineryError(f"sysalg does not serve {pid}")
