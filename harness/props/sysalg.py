"""C05, C25, C26, C32, C33: the system algebra (spec/SysAlg.tla, exact numbers in spec/SysNum.tla).

spec  : SysAlg.tla (abstract systems over Gaussian integers; operators named like the code: Reorder, Rotate, DoubleSpin, MakeSOC,
        SetSOC/HamSOC, ToPlainR, Interpolate, CornerHamPar/Tet, SocCornerHam*, Ptb*/Tbm* builders and imports; spectra through
        characteristic polynomials), bounded models MC_SysAlgOps (state machine of API operations), MC_SysAlgPauli,
        MC_SysAlgCreate (builder state machines), MC_SysAlgCorners; record validation SysAlgRec.tla
bind  : spec -> code: every TLC state is replayed on the real classes and compared exactly with the specification's values;
        code -> spec: seeded random calls of the real code are projected to Gaussian integers and validated by TLC
rules : systems are compared as functions R -> matrix (not as stored R-sets); every second case lives on a non-orthogonal lattice and
        every fourth is two-dimensional; exceptions of the package inside a public call are violations `<site>:raises`, the harness's
        own misuse of a private detail is a recorded skip; states are processed in a sorted order and sub-samples are drawn by a hash
"""
import copy
import os
import random
import traceback
import warnings
import numpy as np

from .. import ftable
from ..common import Report, MachineryError, seed, quiet
from . import _sysalg_world as W
from . import _sysalg_ops as O
from . import _sysalg_rand as RND

_T = "TLC exhaustive on SysAlg.tla (exact Gaussian-integer / Z[zeta8] arithmetic, spectra as characteristic polynomials) + replay of every TLC state on the real code + TLC validation of recorded calls"
PROPS = {
    "C05": dict(level="model_checking", technique=_T,
                text="State machine of Reorder / Rotate (exact unitaries among co-centred functions) over a catalogue of small exact systems: "
                     "H(k)' = P^T H(k) P resp. U^+ H(k) U, characteristic polynomial invariant, covariant Wannier-gauge derivative (centres/shifts "
                     "permuted); every state replayed on System_R.reorder / a rotation of all R-matrices (exact projection, H(k), spectrum, derivative "
                     "before/after, also 2-D systems, a non-orthogonal lattice, wannier_names; in one configuration the systems carry EVERY real-space matrix the "
                     "package knows - names and Cartesian ranks enumerated from NeededData / num_cart_dim - and each must follow: X'(R) = P^T X(R) P "
                     "resp. U^+ X(R) U on the orbital indices, Cartesian indices untouched); evaluate_k on a hash-drawn sub-sample of the states "
                     "(quick ~1/15, thorough ~1/40), run() on the first 3 (quick) / 24 (thorough) of them.",
                note="numeric (1e-8 relative, exact inputs): evaluate_k energies/Berry curvature and run() CumDOS/AHC before/after; deciding numeric part "
                     "(1e-6 relative, observed 1e-13): random complex systems with AA, Haar-random unitaries among co-centred functions AND a random "
                     "reordering: evaluate_k energy / Berry curvature with external terms / band gradients, run() CumDOS, DOS, AHC (external terms), "
                     "Ohmic_FermiSea; (1e-7 relative, observed 1e-14) a spinful system with the matrices of both spin-current definitions: run() SHC "
                     "'ryoo' / 'qiao' and tabulated spin Berry curvature before/after reorder",
                ref="DESIGN.md 3.4, row C05"),
    "C25": dict(level="model_checking", technique=_T,
                text="DoubleSpin (every band twice; the pairing is read from the code's SS, any order of the doubled functions is accepted), MakeSOC "
                     "with two spin channels and with one (SystemSOC(up)) (characteristic polynomial = product of the up and down ones, equal or "
                     "different R-sets), SetSOC/ToPlainR (same H(k) at every k, with and without SOC terms), rotated Pauli matrices for all axes with "
                     "angles in multiples of pi/2: the CODE's matrices must obey the Pauli algebra and have the spin along the axis = diag(1,-1) "
                     "(decided by TLC on the recorded matrices); equality with the specification's choice is information only. Replay on double_spin, "
                     "SystemSOC, Data_K_soc.HH_K, set_soc_axis (radians and degrees), get_system_R, SOC.get_pauli_rotated.",
                note="numeric (deciding, 1e-9): arbitrary angles (Pauli algebra), random real-valued SOC-free up/down systems (union of spectra), random "
                     "angles / non-integer alpha_soc / non-trivial overlap_up_down: Data_K_soc.HH_K = H(k) of get_system_R(), Ham_SOC linear in alpha, SS blocks",
                ref="DESIGN.md 3.4, row C25"),
    "C26": dict(level="model_checking", technique=_T,
                text="Interpolate(s0, s1, a/den) with R-set union and matrix-set intersection: endpoints reproduce s0 / s1 at every k (Ham and the second "
                     "matrix), affine in alpha (also a = -1 and a = den + 1), centres affine and in force in the derivative of H(k); replay on "
                     "SystemInterpolator.interpolate (use_pointgroup 1/0/-1, second call of the same interpolator after spoiling the first result, inputs "
                     "unchanged, the same R-vectors stored in different orders in the two systems) with exact projection; SystemInterpolatorSOC through recorded calls validated by TLC, for all four pairs of numbers of spin "
                     "channels (1,1), (1,2), (2,1), (2,2) (a system with one channel is described with down = up).",
                note="alpha in {0, 1/2, 1} (+ -1/2, 3/2; thorough also quarters) with dyadic data; numeric (deciding, 1e-9): random alpha with different "
                     "centres: H(k), centres, derivative; SystemInterpolatorSOC for the four pairs of spin-channel numbers at alpha = 0, 1/2, 1, random: H(k) of "
                     "Data_K_soc vs the mix of the end points, end points reproduced, each spin channel the mix of the channels",
                ref="DESIGN.md 3.4, row C26"),
    "C32": dict(level="model_checking", technique=_T,
                text="PythTB (set_onsite/set_hop, set/add modes, refusals, spinful blocks) and TBmodels (constructor on_site, add_hop, add_on_site; halved "
                     "R=0 storage, positive-R keys) builders as state machines, import get_system_tb_py transcribed; import = source Hamiltonian (as a "
                     "function of R, centres modulo lattice vectors), both libraries agree on the same hoppings, Haldane_ptb = Haldane_tbm over a parameter "
                     "grid; every state replayed on the real libraries and from_pythtb / from_tbmodels (2-D models, orthogonal and skew cells).",
                note="numeric (deciding, 1e-8): energies of the imported system vs the source model's own solver (Data_K_R on 5 k-points and one evaluate_k "
                     "call per case); all bundled PythTB builders (1-D, 2-D, 3-D, spinful), a PythTB model with a non-periodic direction, 1-D and 3-D "
                     "TBmodels models",
                ref="DESIGN.md 3.4, row C32"),
    "C33": dict(level="model_checking", technique=_T,
                text="Corner Hamiltonians of E_K_corners_parallel / E_K_corners_tetra transcribed for real-space, spin-orbit (one or two spin channels, "
                     "up/down R-sets equal or different) and k.p systems; TLC checks that they are the Hamiltonians at the corner k-points; every state "
                     "replayed once on Data_K_R / Data_K_soc / Data_K_k, corner energies compared with the eigenvalues of the specification's exact matrices "
                     "and with the class's own evaluation at the corner k-points; a 1/7 sub-sample of the real-space states also phonon-flagged "
                     "(squared frequencies compared) and with an energy window that cuts one band.",
                note="eigenvalues are compared as sorted spectra (1e-8; stable also at degeneracies); records carry the integer characteristic polynomials of "
                     "the code's corner spectra; numeric (deciding, 1e-8): NKFFT = 3 grids, k.p systems with Cartesian k on a non-cubic cell",
                ref="DESIGN.md 3.4, row C33"),
}


ALL_NAMES = '{"BB", "CC", "SS", "SH", "OO", "SHA", "SA", "SR", "SHR", "GG", "FF"}'


def _workers(thorough):
    return O.TLC_WORKERS


def _drawn(s, every, salt="sample"):
    return W.stable_hash((salt, s["base"], s["hist"])) % every == 0


def _replay_all(rep, st, pid, tag, classes, sample_every=None, on_sample=None):
    n = 0
    counts = {}
    for s in O.sorted_states(st, O.state_key):
        n += 1
        last = s["hist"][-1]["op"] if s["hist"] else "base"
        counts[last] = counts.get(last, 0) + 1
        real = O.replay_state(rep, s, pid, tag)
        if on_sample is not None and real is not None and s["hist"] and (counts[last] == 1 or _drawn(s, sample_every)):
            on_sample(s, real)
        if s["hist"] and counts[last] == 1:
            rep.sample(dict(config=tag, base=O._js(s["base"]), hist=O._js(s["hist"]), expected=O._js(s["cur"]) if s["kind"] == "R" else "SOC"))
    if n != st["distinct"]:
        raise MachineryError(f"{tag}: dump has {n} states, TLC reported {st['distinct']}")
    for c in classes:
        if counts.get(c, 0) == 0:
            raise MachineryError(f"{tag}: vacuous, no state after {c} ({counts})")
    rep.part(tag, replayed=n, per_operation=counts)
    return counts


def _validate(rep, recs, name, site_of, environment=()):
    if not recs:
        if rep.violations:
            rep.part(name + "_records", note="no record could be made: every recorded call failed (see the violations)")
            return {}
        raise MachineryError(f"{name}: no records")
    stv, bad = O.validate_records("SysAlgRec.tla", ftable.REC_CFG, recs, name, timeout=1700)
    rep.add_tlc(name + "_records", stv)
    rep.add_traces(len(recs))
    for i, clauses in bad.items():
        info = [c for c in clauses if c.startswith("info_")]
        hard = [c for c in clauses if not c.startswith("info_")]
        if set(hard) & set(environment):
            raise MachineryError(f"{name}: a recorded third-party builder differs from the modelled library version (record {i}: {hard}): "
                                 f"{str(recs[i])[:600]}")
        for c in info:
            O._bump(rep, "information_clauses_false", f"{recs[i]['fn']}.{c}")
        if hard:
            rep.violation(f"{site_of(recs[i])}:recorded", dict(record=recs[i], failing_clauses=hard))
    rep.sample(dict(record=recs[0]["fn"], example={k: v for k, v in recs[0].items() if k in ("fn", "p", "a", "den", "m", "n")}))
    return bad


def _selftest(rep, rec, mutate, name, expect_clause=None):
    if rec is None:
        rep.part("binding_selftest_" + name, skipped="the record for the self-test could not be made (see the violations)")
        return
    bad = copy.deepcopy(rec)
    mutate(bad)
    _, b2 = O.validate_records("SysAlgRec.tla", ftable.REC_CFG, [bad], name + "_selftest")
    if 0 not in b2 or (expect_clause and expect_clause not in b2[0]):
        raise MachineryError(f"binding self-test failed ({name}): corrupted record accepted ({b2})")
    rep.part("binding_selftest_" + name, corrupted_record_rejected=b2[0])


def _flip(mat_entry):
    mat_entry[0] += 1


def _fixed_sys(k, **kw):
    """a system that does not depend on VERIF_SEED (for the binding self-tests)"""
    return RND.rand_sys(random.Random(1000 + k), **kw)


def _try_record(rep, key, detail, fn, *a, **k):
    """a recorded call: -> result or None after reporting (package raised: `<key>:raises`; not integral: `<key>:non-integral`)"""
    try:
        ok, val = W.guarded(rep, key, detail, fn, *a, **k)
    except RND.PauliNotExact as ex:
        O._bump(rep, "records_skipped_pauli_choice_not_exact", key)
        return None
    except W.NonIntegral as ex:
        rep.violation(f"{key}:non-integral", dict(detail, error=str(ex)))
        return None
    return val if ok else None


# =================================================================================================== C05
def check_c05(rep, thorough):
    rng = random.Random(seed() * 7919 + 5)
    w = _workers(thorough)
    rep.rule("TLC enumerates base systems (nw Wannier functions, hops with amplitudes in {1,-1,i} on R within +-1 in 1-2 directions, on-site "
             "energies, centres in twelfths, optional second matrix) and sequences of Reorder / Rotate; a case = one TLC state (base + operation "
             "history) replayed on the real code with exact comparison of the projection, H(k), dH(k) before/after, spectrum; the lattice "
             "(identity / non-orthogonal), the periodicity (3-D / 2-D) and wannier_names are chosen by a hash of the case; plus seeded random "
             "recorded calls validated by TLC; distinct by (base, history) / record input")
    rep.assume("amplitudes are Gaussian integers and k-points quarters of reciprocal lattice vectors, so H(k) is exactly representable; "
               "TLC states have R-vectors within +-1 per direction: agreement on three quarter points per direction is agreement at every k. "
               "Records may have R = +-2, which alias on the quarter grid: for them only the exact equality of the matrices (equals_spec) decides")
    numeric = dict(evaluate_k=0, run=0, maxdev=0.0)
    nrun = 24 if thorough else 3

    def on_sample(s, real):
        var = W.variant_of((s["base"], s["hist"]))
        site = O.OP_SITE[s["hist"][-1]["op"]]
        detail = dict(base=O._js(s["base"]), hist=O._js(s["hist"]), k=O.GENERIC_K)
        base = W.build(W.sys_from_tla(s["base"]), periodic=var["periodic"], lattice=var["lattice"])
        ok, ab = W.guarded(rep, f"{site}:evaluate_k", detail, lambda: (O.observe(base), O.observe(real)))
        if not ok:
            return
        a, b = ab
        dev, what = O.compare_observations(a, b, 1e-8)
        numeric["evaluate_k"] += 1
        numeric["maxdev"] = max(numeric["maxdev"], dev)
        rep.case(("evaluate_k", O.state_key(s)))
        if dev > 1e-8:
            rep.violation(f"{site}:evaluate_k", dict(detail, compared=what, deviation=dev,
                                                    before={k: v.tolist() for k, v in a.items()}, after={k: v.tolist() for k, v in b.items()}))
        if numeric["run"] < nrun and real.num_wann > 1:
            ok, rr = W.guarded(rep, f"{site}:run", detail, lambda: (O.run_integrated(base), O.run_integrated(real)))
            if not ok:
                return
            d2 = O.rel_dev(*rr)
            numeric["run"] += 1
            numeric["maxdev"] = max(numeric["maxdev"], d2)
            rep.case(("run", O.state_key(s)))
            if d2 > 1e-8:
                rep.violation(f"{site}:run", dict(detail, relative_deviation=d2))

    if thorough:
        cfgs = [("c05_reorder", ["Reorder"], dict(OPS='{"Reorder"}', NWS="{1, 2, 3}", MAXHOPS=1, NEPS=2, NCEN=2, WITHX="{FALSE, TRUE}"), 40),
                ("c05_reorder_2hops", ["Reorder"], dict(OPS='{"Reorder"}', NWS="{2}", MAXHOPS=2, NEPS=1, NCEN=2, WITHX="{FALSE}"), 60),
                ("c05_rotate", ["Rotate"], dict(OPS='{"Rotate"}', NWS="{2}", MAXHOPS=1, NEPS=2, NCEN=3, PHS="{0, 1, 2, 3}", WITHX="{FALSE, TRUE}"), 100),
                ("c05_rotate_3", ["Rotate"], dict(OPS='{"Rotate"}', NWS="{3}", KDIRS=1, MAXHOPS=1, NEPS=1, NCEN=2, PHS="{0, 1}"), 60),
                ("c05_chain", ["Reorder", "Rotate"], dict(OPS='{"Reorder", "Rotate"}', MAXLEN=2, NWS="{2}", KDIRS=2, MAXHOPS=1, NEPS=1, NCEN=1, PHS="{1, 2}"), 80),
                ("c05_names", ["Reorder", "Rotate"], dict(OPS='{"Reorder", "Rotate"}', MAXLEN=1, NWS="{2, 3}", KDIRS=1, MAXHOPS=1, NEPS=1, NCEN=2, PHS="{1}",
                                                          NAMES=ALL_NAMES), 200)]
    else:
        cfgs = [("c05_reorder", ["Reorder"], dict(OPS='{"Reorder"}', NWS="{1, 2}", MAXHOPS=1, NEPS=1, NCEN=2, WITHX="{FALSE, TRUE}"), 15),
                ("c05_chain", ["Reorder", "Rotate"], dict(OPS='{"Reorder", "Rotate"}', MAXLEN=2, NWS="{2}", KDIRS=1, MAXHOPS=1, NEPS=1, NCEN=2, PHS="{1}"), 15),
                ("c05_names", ["Reorder", "Rotate"], dict(OPS='{"Reorder", "Rotate"}', MAXLEN=1, NWS="{2}", KDIRS=1, MAXHOPS=1, NEPS=1, NCEN=2, PHS="{1}",
                                                          NAMES=ALL_NAMES), 50)]
    for name, classes, kw, every in cfgs:
        st = O.run_ops(rep, name, w, **kw)
        if st is None:
            continue
        _replay_all(rep, st, "C05", name, ["base"] + classes, sample_every=every, on_sample=on_sample)
    O.sensitivity(rep, "c05_reorder_keepcentres", "LawReorder", w, OPS='{"Reorder"}', NWS="{2}", NEPS=1, Variant='"keepcentres"')
    O.sensitivity(rep, "c05_reorder_fixed_names", "LawReorder", w, OPS='{"Reorder"}', NWS="{2}", NEPS=1, NCEN=1, MAXHOPS=0, NAMES='{"SS", "SA"}',
                  Variant='"fixednames"')
    if thorough:
        O.sensitivity(rep, "c05_rotate_not_cocentred", "LawRotate", w, OPS='{"Rotate"}', NWS="{2}", NEPS=1, NCEN=2, Variant='"anyU"')
    if numeric["evaluate_k"] == 0 and not rep.violations:
        raise MachineryError("no evaluate_k comparison was made")
    rep.part("numeric_exact_inputs", **numeric, tolerance=1e-8)

    # ---- code -> spec
    recs = []
    nrec = 400 if thorough else 12
    for i in range(nrec):
        a = RND.rand_sys(rng, rmax=rng.choice([1, 1, 2]), nw=rng.choice([2, 3, 3]))
        var = W.variant_of(("c05rec", i))
        fn, key = (RND.rec_reorder, "System_R.reorder") if i % 2 == 0 else (RND.rec_rotate, "rotate_all_R_matrices")
        val = _try_record(rep, key, dict(sys=W.sys_json(a), index=i), fn, rng, a, var=var)
        if val is None:
            continue
        rec, views, out = val
        dv = W.diff_views(out["cen"], views, only=("cen_red",))
        if dv:
            rep.violation(f"{key}:shifts", dict(record=rec, differences=dv))
        recs.append(rec)
        rep.case(("rec", rec["fn"], i, repr(rec["sys"]), repr(rec.get("p", rec.get("U")))))
    # systems that carry every real-space matrix the package knows (names and ranks enumerated from the code): all of them follow
    for i in range(60 if thorough else 4):
        a = RND.rand_sys(rng, rmax=1, nw=rng.choice([2, 3, 3]), with_x=True)
        var = W.variant_of(("c05named", i))
        what, key = ("reorder", "System_R.reorder") if i % 2 == 0 else ("rotate", "rotate_all_R_matrices")
        val = _try_record(rep, key, dict(sys=W.sys_json(a), index=i, named=True), RND.rec_named, rng, a, what, var=var)
        if val is None:
            continue
        recs.append(val[0])
        rep.case(("rec", val[0]["fn"], i))
    rep.part("named_matrices", names=W.named_names(), ranks={n: W.SPEC_RANKS[n] for n in W.named_names()}, source="NeededData / num_cart_dim of the package")
    _validate(rep, recs, "c05", lambda r: "System_R.reorder" if r["fn"].startswith("reorder") else "rotate_all_R_matrices")
    v0 = _try_record(rep, "System_R.reorder", dict(selftest=True), RND.rec_reorder, rng, _fixed_sys(5, nw=3, cen_choices=(0, 3, 4)), p=[2, 0, 1])

    def spoil(r):
        r["out"]["cen"][0][0] += 1
    _selftest(rep, None if v0 is None else v0[0], spoil, "c05", "equals_spec")

    # ---- deciding numeric part: random complex systems with AA; Haar-random unitaries among co-centred functions, random reordering
    from scipy.stats import unitary_group
    nprng = np.random.RandomState(seed() + 505)
    nn, maxdev, maxrun, nruns = (40 if thorough else 6), 0.0, 0.0, (10 if thorough else 2)
    q = ("energy", "berry_curvature", "band_gradients")
    for it in range(nn):
        a = RND.rand_sys(rng, nw=3, rmax=1, with_x=True, cen_choices=(0, 4))
        var = W.variant_of(("c05num", it))
        for R in a["rs"]:
            mR = tuple(-x for x in R)
            if R >= (0, 0, 0):
                noise = (nprng.randn(3, 3) + 1j * nprng.randn(3, 3)) * 0.3
                a["H"][R] = a["H"][R] + (noise + noise.conj().T if R == (0, 0, 0) else noise)
                if R != (0, 0, 0):
                    a["H"][mR] = a["H"][R].conj().T
        bkw = dict(periodic=var["periodic"], lattice=var["lattice"])
        s0 = W.build(a, **bkw)
        U = np.zeros((3, 3), dtype=complex)
        groups = {}
        for i in range(3):
            groups.setdefault(tuple(a["cen"][i]), []).append(i)
        for idx in groups.values():
            U[np.ix_(idx, idx)] = unitary_group.rvs(len(idx), random_state=nprng) if len(idx) > 1 else np.exp(1j * nprng.rand())
        perm = list(nprng.permutation(3))
        detail = dict(sys=W.sys_json(a), permutation=[int(x) for x in perm], lattice=var["lattice"].tolist())

        def transformed(rotate, reorder):
            s = W.build(a, **bkw)
            if rotate:
                W.op_rotate(s, U)
            if reorder:
                with quiet():
                    s.reorder(perm)
            return s
        for what, rot, reo in (("rotate_all_R_matrices", True, False), ("System_R.reorder", False, True), ("System_R.reorder", True, True)):
            ok, s1 = W.guarded(rep, f"{what}:numeric", detail, transformed, rot, reo)
            if not ok:
                continue
            ok, obs = W.guarded(rep, f"{what}:evaluate_k:numeric", detail, lambda: (O.observe(s0, quantities=q), O.observe(s1, quantities=q)))
            if not ok:
                continue
            dev, _ = O.compare_observations(obs[0], obs[1], 1e-7)
            maxdev = max(maxdev, dev)
            rep.case(("num", it, rot, reo))
            if dev > 1e-6:
                rep.violation(f"{what}:evaluate_k:numeric", dict(detail, rotated=rot, reordered=reo, relative_deviation=dev))
            if rot and reo and it < nruns:
                ok, rr = W.guarded(rep, f"{what}:run:numeric", detail,
                                   lambda: (O.run_integrated(s0, external=True, more=True), O.run_integrated(s1, external=True, more=True)))
                if ok:
                    d2 = O.rel_dev(*rr)
                    maxrun = max(maxrun, d2)
                    if d2 > 1e-6:
                        rep.violation(f"{what}:run:numeric", dict(detail, relative_deviation=d2,
                                                                 outputs={k: float(np.max(np.abs(rr[0][k] - rr[1][k]))) for k in rr[0]}))
    rep.part("numeric_deciding", random_cases=nn, max_relative_deviation_evaluate_k=maxdev, run_cases=min(nn, nruns),
             max_relative_deviation_run=maxrun, tolerance=1e-6)
    _spin_hall_numeric(rep, thorough)
    return rep.finish()


def _spin_hall_numeric(rep, thorough):
    """deciding numeric part (1e-7 relative, observed 1e-14): a spinful system that carries the matrices of both spin-current
    definitions (SA, SHA, SH / SR, SH, SHR): run() SHC 'ryoo' and 'qiao' and the tabulated spin Berry curvature before / after reorder"""
    import wannierberri as wb
    from . import kmodels
    ef = np.array([-1.375, 0.625, 2.125])
    keys = ("Ham", "AA", "SS", "SH", "SA", "SHA", "SR", "SHR")

    def run(system):
        calcs = {"shc_ryoo": wb.calculators.static.SHC(Efermi=ef, kwargs_formula={"spin_current_type": "ryoo"}),
                 "shc_qiao": wb.calculators.static.SHC(Efermi=ef, kwargs_formula={"spin_current_type": "qiao"}),
                 "tab": wb.calculators.TabulatorAll({"Energy": wb.calculators.tabulate.Energy(),
                                                     "spinberry_ryoo": wb.calculators.tabulate.SpinBerry(kwargs_formula={"spin_current_type": "ryoo"}),
                                                     "spinberry_qiao": wb.calculators.tabulate.SpinBerry(kwargs_formula={"spin_current_type": "qiao"})},
                                                    ibands=list(range(system.num_wann)))}
        out = os.path.join(O.scratch(), "run_shc")
        os.makedirs(out, exist_ok=True)
        with quiet(), warnings.catch_warnings():
            warnings.simplefilter("ignore")
            grid = wb.Grid(system=system, NKdiv=[2, 2, 1], NKFFT=[2, 2, 1])
            res = wb.run(system, grid=grid, calculators=calcs, adpt_num_iter=0, parallel=False, restart=False, use_irred_kpt=False,
                         symmetrize=False, print_Kpoints=False, fout_name=os.path.join(out, "res"))
        r = {k: np.array(res.results[k].data) for k in ("shc_ryoo", "shc_qiao")}
        for q in ("Energy", "spinberry_ryoo", "spinberry_qiao"):
            r["tab_" + q] = np.array(res.results["tab"].results[q].data)
        return r
    maxdev, n = 0.0, 0
    perms = [[1, 2, 3, 0], [1, 0, 2, 3], [2, 3, 0, 1]]
    for im in range(4 if thorough else 1):
        model = kmodels.build(seed() * 31 + 7 + im, nw=2, dim=2, rmax=1, keys=keys, spinful=True)
        detail = dict(model=model.describe())
        ok, ref = W.guarded(rep, "System_R.reorder:spin_hall:numeric", detail, lambda: run(model.system()))
        if not ok:
            continue
        if any(not np.all(np.isfinite(v)) or np.max(np.abs(v)) < 1e-10 for v in ref.values()):
            raise MachineryError("spin Hall numeric case: a reference output vanishes")
        for p in perms[:3 if thorough else 2]:
            def after():
                s = model.system()
                with quiet():
                    s.reorder(p)
                return run(s)
            ok, res = W.guarded(rep, "System_R.reorder:spin_hall:numeric", dict(detail, permutation=p), after)
            if not ok:
                continue
            n += 1
            rep.case(("shc", im, tuple(p)))
            devs = {k: float(np.max(np.abs(res[k] - ref[k]))) / max(1.0, float(np.max(np.abs(ref[k])))) if res[k].shape == ref[k].shape else float("inf")
                    for k in ref}
            maxdev = max(maxdev, max(devs.values()))
            if max(devs.values()) > 1e-7:
                rep.violation("System_R.reorder:spin_hall:numeric", dict(detail, permutation=p, relative_deviations=devs,
                                                                        note="SHC with the 'ryoo' / 'qiao' spin current and the tabulated spin Berry curvature "
                                                                             "before and after relabelling the Wannier functions"))
    rep.part("numeric_deciding_spin_hall", cases=n, max_relative_deviation=maxdev, tolerance=1e-7, matrices=list(keys))


# =================================================================================================== C25
def check_c25(rep, thorough):
    rng = random.Random(seed() * 7919 + 25)
    w = _workers(thorough)
    rep.rule("TLC enumerates base systems and the operation sequences DoubleSpin[, Reorder] and MakeSOC(partner | one spin channel)[, SetSOC(SOC "
             "data, axis, alpha)][, ToPlainR], and all 64 axes (theta, phi in multiples of pi/2 over the 4 pi period); a case = one TLC state "
             "replayed on the real code (exact projection, H(k) of Data_K_R / Data_K_soc, Ham_SOC, SS, spectrum); plus seeded random recorded "
             "calls validated by TLC")
    rep.assume("the SOC real-space matrices (dV_soc_wann_*, overlap_up_down) are put directly into SystemSOC with small Gaussian integers; only "
               "set_soc_axis / get_system_R / Data_K_soc are exercised, not set_soc_R (needs ab-initio files); Data_K_soc.Xbar is not exercised "
               "(the statement is about spectra and H(k)); the spinor flag of the results is reported, not required")
    numeric = dict(evaluate_k=0, maxdev=0.0)

    def on_sample(s, real):
        ops = [h["op"] for h in s["hist"]]
        var = W.variant_of((s["base"], s["hist"]))
        detail = dict(base=O._js(s["base"]), hist=O._js(s["hist"]))
        if ops == ["DoubleSpin"]:
            base = W.build(W.sys_from_tla(s["base"]), periodic=var["periodic"], lattice=var["lattice"])
            ok, ab = W.guarded(rep, "System_R.double_spin:evaluate_k", detail, lambda: (O.observe(base), O.observe(real)))
            mult, key = 2, "System_R.double_spin:evaluate_k"
        elif ops == ["DoubleSpin", "Reorder"]:
            qs = ("energy", "berry_curvature_internal_terms", "spin")

            def both():
                _, before, _ = O.apply_hist(s, var, hist=s["hist"][:-1])
                return O.observe(before, quantities=qs), O.observe(real, quantities=qs)
            ok, ab = W.guarded(rep, "System_R.reorder:evaluate_k", detail, both)
            mult, key = 1, "System_R.reorder:evaluate_k"
        else:
            return
        if not ok:
            return
        dev, what = O.compare_observations(ab[0], ab[1], 1e-8, mult=mult)
        numeric["evaluate_k"] += 1
        numeric["maxdev"] = max(numeric["maxdev"], dev)
        if dev > 1e-8:
            rep.violation(key, dict(detail, compared=what, deviation=dev))

    st = O.run_ops(rep, "c25_double", w, OPS='{"DoubleSpin", "Reorder"}', MAXLEN=2, NWS="{1, 2}" if thorough else "{1}", MAXHOPS=1,
                   WITHX="{FALSE, TRUE}", NEPS=2 if thorough else 1, NCEN=2)
    if st:
        _replay_all(rep, st, "C25", "c25_double", ["base", "DoubleSpin", "Reorder"], sample_every=10, on_sample=on_sample)
    socs = [("c25_soc", dict(NWS="{1}", MAXHOPS=1, KDIRS=2, ANGM="{1, 3}", ANGN="{0, 1, 2}", ALS="{2}", NSPINS="{1, 2}")),
            ("c25_soc_2", dict(NWS="{2}", MAXHOPS=0, MAXHOPS2=0, KDIRS=1, ANGM="{1}", ANGN="{0, 1}", ALS="{1}", NSPINS="{1, 2}"))] if thorough else \
           [("c25_soc", dict(NWS="{1}", MAXHOPS=0, KDIRS=1, ANGM="{1}", ANGN="{1}", ALS="{1}", NSPINS="{1, 2}"))]
    for name, kw in socs:
        st = O.run_ops(rep, name, w, OPS='{"MakeSOC", "SetSOC", "ToPlainR"}', MAXLEN=3, NEPS=1, NCEN=1, MAXSOC=1, **kw)
        if st:
            _replay_all(rep, st, "C25", name, ["MakeSOC", "SetSOC", "ToPlainR"])
    O.sensitivity(rep, "c25_double_block_order", "LawDoubleSpin", w, OPS='{"DoubleSpin"}', NWS="{2}", NEPS=1, Variant='"blockspin"')

    # ---- Pauli algebra, all axes: the specification's choice is checked by TLC; the CODE's matrices must be a valid choice
    inv = ["HalfAngleUnitary", "RotatedExact", "RotatedPauliAlgebra", "SpinAlongAxis", "AxisIsUnit", "RotatedIsVectorRotation"]
    pcfg = lambda invs: "SPECIFICATION Spec\nCONSTANTS\n  MMAX = 7\n" + "".join(f"INVARIANT {i}\n" for i in invs) + "CHECK_DEADLOCK FALSE\n"
    st = O.enumerate_states("MC_SysAlgPauli.tla", pcfg(inv), "c25_pauli", workers=2)
    if not ftable.spec_violation(rep, st, "c25_pauli"):
        rep.add_tlc("c25_pauli", st)
        from wannierberri.w90files.soc import SOC
        z8 = np.exp(1j * np.pi / 4) ** np.arange(4)
        npa, same_c, same_p, maxdefect = 0, 0, 0, 0.0
        for s in O.sorted_states(st, lambda s: (s["m"], s["n"])):
            npa += 1
            m, n = s["m"], s["n"]
            rep.case(("pauli", m, n))
            ok, P = W.guarded(rep, "SOC.get_pauli_rotated", dict(m=m, n=n), W.code_pauli, m, n)
            if not ok:
                continue
            defect = W.pauli_defect(P, np.array(s["ax"], dtype=float))
            maxdefect = max(maxdefect, defect)
            if defect > 1e-12:
                rep.violation("SOC.get_pauli_rotated:algebra", dict(m=m, n=n, axis=list(s["ax"]), defect=defect, got=O._c(P),
                                                                   note="Pauli algebra / spin along the axis = diag(1, -1)"))
            expP = np.array([W.tla_mat(s["P"][c]) for c in range(3)])
            same_p += bool(np.max(np.abs(P - expP)) <= 1e-12)
            C = W.private("SOC.get_C_ss", lambda: np.asarray(SOC.get_C_ss(theta=m * np.pi / 2, phi=n * np.pi / 2)))
            if C is not None:
                expC = np.array([[np.dot(np.array(s["C2"][i][j], dtype=float), z8) / 2 for j in range(2)] for i in range(2)])
                same_c += bool(C.shape == expC.shape and np.max(np.abs(C - expC)) <= 1e-12)
            if npa == 2:
                rep.sample(dict(config="c25_pauli", m=m, n=n, axis=list(s["ax"]), pauli_rotated=O._js(s["P"])))
        if npa != 64:
            raise MachineryError(f"c25_pauli: {npa} states")
        rep.part("c25_pauli_code", axes=npa, max_defect_of_the_codes_matrices=maxdefect, tolerance=1e-12,
                 information_equal_to_the_specifications_choice=dict(get_pauli_rotated=same_p, get_C_ss=same_c))
    if thorough:                                                  # quick keeps one sensitivity self-test (the block order of double_spin)
        st0 = O.run_tlc("MC_SysAlgPauli.tla", pcfg(["UnrotatedSpinAlongAxis"]), "c25_pauli_v0", workers=2, timeout=600)
        if not st0.get("violation"):
            raise MachineryError("sensitivity self-test failed: unrotated Pauli matrices accepted")
        rep.part("c25_pauli_unrotated", sensitivity_violation=st0["violation"][1])
    rep.part("numeric_exact_inputs", **numeric, tolerance=1e-8)

    # ---- code -> spec
    recs = []
    nrec = 240 if thorough else 16
    ks = [(0, 0, 0), (1, 2, 0), (3, 1, 0), (2, 2, 0)]
    site = {"doublespin": "System_R.double_spin", "soc_hk": "Data_K_soc.HH_K", "toplain": "SystemSOC.get_system_R", "pauli": "SOC.get_pauli_rotated"}
    for i in range(nrec):
        kind = i % 4
        var = W.variant_of(("c25rec", i))
        if kind == 0:
            a = RND.rand_sys(rng, nw=rng.choice([1, 2, 3]))
            val = _try_record(rep, site["doublespin"], dict(sys=W.sys_json(a), index=i), RND.rec_doublespin, rng, a, var=var)
            if val is None:
                continue
            rec, views, out, okpair = val
            if okpair is False:
                rep.violation("System_R.double_spin:SS", dict(record=rec, note="SS(R=0) is not a pairing of every function with one partner"))
            dv = W.diff_views(out["cen"], views, only=("cen_red",))
            if dv:
                rep.violation("System_R.double_spin:shifts", dict(record=rec, differences=dv))
            recs.append(rec)
        elif kind == 3:
            m, n = rng.randint(0, 7), rng.randint(0, 7)
            P = _try_record(rep, site["pauli"], dict(m=m, n=n), RND.exact_pauli_rot, m, n)
            if P is None:
                continue
            recs.append(dict(fn="pauli", m=m, n=n, P=[W.mat_json(P[c]) for c in range(3)]))
        else:
            nw = rng.choice([1, 2])
            nspin = 1 if rng.random() < 0.3 else 2
            up = RND.rand_sys(rng, nw=nw, with_x=False)
            dn = RND.rand_sys(rng, nw=nw, with_x=False)
            socdata = RND.rand_soc_data(rng, nw) if kind == 2 else None
            m, n, al = rng.randint(0, 3), rng.randint(0, 3), rng.choice([1, 2, -1])
            val = _try_record(rep, site["soc_hk"], dict(index=i, nspin=nspin, up=W.sys_json(up), dn=W.sys_json(dn)), RND.rec_soc_hk, rng, up, dn,
                              socdata, m, n, al, ks, nspin=nspin, var=var, degrees=bool(var["h"] & 1))
            if val is None:
                continue
            rec, soc, a = val
            recs.append(rec)
            if socdata is not None:
                val = _try_record(rep, site["toplain"], dict(index=i, nspin=nspin, soc=W.soc_json(a)), RND.rec_toplain, soc, a)
                if val is not None:
                    recs.append(val[0])
                    rep.case(("rec", "toplain", i))
        rep.case(("rec", recs[-1]["fn"], i))
    _validate(rep, recs, "c25", lambda r: site[r["fn"]])
    v0 = _try_record(rep, site["soc_hk"], dict(selftest=True), RND.rec_soc_hk, rng, _fixed_sys(1, nw=1, with_x=False), _fixed_sys(2, nw=1, with_x=False),
                     RND.rand_soc_data(random.Random(77), 1), 1, 1, 1, ks)
    _selftest(rep, None if v0 is None else v0[0], lambda r: _flip(r["hk"][1][0][0]), "c25", "equals_spec")

    # ---- numeric (deciding)
    nprng = np.random.RandomState(seed() + 2525)
    maxdev = 0.0
    nn = 2000 if thorough else 200
    for _ in range(nn):
        th, ph = nprng.rand() * 2 * np.pi, nprng.rand() * 4 * np.pi
        ok, P = W.guarded(rep, "SOC.get_pauli_rotated:numeric", dict(theta=th, phi=ph), W.code_pauli, None, None, th, ph)
        if not ok:
            break
        dev = W.pauli_defect(P, np.array([np.sin(th) * np.cos(ph), np.sin(th) * np.sin(ph), np.cos(th)]))
        maxdev = max(maxdev, dev)
        if dev > 1e-9:
            rep.violation("SOC.get_pauli_rotated:numeric", dict(theta=th, phi=ph, deviation=float(dev)))
    # random non-integer up/down systems at random k: spectrum of the SOC-free SystemSOC = union of the two spectra (one / two spin channels)
    n2, dev2 = (40 if thorough else 6), 0.0
    for it in range(n2):
        nw = rng.choice([1, 2, 3])
        nspin = 1 if it % 3 == 2 else 2
        var = W.variant_of(("c25num", it))
        up, dn = RND.rand_sys(rng, nw=nw, with_x=False), RND.rand_sys(rng, nw=nw, with_x=False)
        if nspin == 1:
            dn = up
        ju, jd = W.sys_json(up), W.sys_json(dn)
        for a_, f in ((up, 0.37), (dn, 0.61)) if nspin == 2 else ((up, 0.37),):
            for R in a_["rs"]:
                a_["H"][R] = a_["H"][R] * f
        k4 = [tuple(4 * nprng.rand(3))]
        detail = dict(up=ju, dn=jd, scale=[0.37, 0.61], nspin=nspin, k=[x / 4 for x in k4[0]])

        def spectra():
            soc, _ = RND.make_real_soc(up, dn, nspin=nspin, var=var)
            bkw = dict(periodic=var["periodic"], lattice=var["lattice"])
            return (np.sort(W.real_ek(soc, k4)[0]), W.real_ek(W.build(up, **bkw), k4)[0], W.real_ek(W.build(dn, **bkw), k4)[0])
        ok, val = W.guarded(rep, "SystemSOC:union_of_spectra:numeric", detail, spectra)
        if not ok:
            continue
        e, eu, ed = val
        d = float(np.max(np.abs(e - np.sort(np.concatenate([eu, ed])))))
        dev2 = max(dev2, d)
        if d > 1e-9:
            rep.violation("SystemSOC:union_of_spectra:numeric", dict(detail, deviation=d))
    # random angles, non-integer alpha, non-trivial overlap, degrees: H(k) of Data_K_soc = H(k) of get_system_R(); Ham_SOC linear in alpha; SS
    n3, dev3 = (40 if thorough else 8), 0.0
    for it in range(n3):
        nw = rng.choice([1, 2])
        nspin = 1 if it % 4 == 3 else 2
        var = W.variant_of(("c25num3", it))
        up, dn = RND.rand_sys(rng, nw=nw, with_x=False), RND.rand_sys(rng, nw=nw, with_x=False)
        rsS, D = RND.rand_soc_data(rng, nw)
        th, ph, al = nprng.rand() * np.pi, nprng.rand() * 2 * np.pi, float(0.1 + nprng.rand())
        ov = {R: np.zeros((nw, nw), dtype=complex) for R in rsS}
        for R in rsS:
            ov[R] += (nprng.randn(nw, nw) + 1j * nprng.randn(nw, nw)) * 0.2
        ov[(0, 0, 0)] += np.eye(nw)
        k4 = [tuple(4 * nprng.rand(3)), (1, 2, 0)]
        deg = bool(it % 2)
        detail = dict(up=W.sys_json(up), dn=W.sys_json(dn), nspin=nspin, theta=th, phi=ph, alpha_soc=al, degrees=deg, k=[[x / 4 for x in k] for k in k4])

        def soc_case():
            bkw = dict(periodic=var["periodic"], lattice=var["lattice"])
            a = dict(up=up, dn=up if nspin == 1 else dn, rsS=rsS, D=W.nspin1_D(D) if nspin == 1 else D, al=1)
            out = {}
            for label, alpha in (("one", 1.0), ("al", al)):
                soc = W.make_soc(W.build(up, **bkw), None if nspin == 1 else W.build(dn, **bkw))
                hs, ss = W.set_soc(soc, a, nspin=nspin, degrees=deg, overlap=ov if nspin == 2 else None, theta=th, phi=ph, alpha=alpha)
                out[label] = (soc, hs, ss)
            soc, hs, ss = out["al"]
            with quiet(), warnings.catch_warnings():
                warnings.simplefilter("ignore")
                plain = soc.get_system_R()
            return out["one"][1], hs, ss, W.real_hk(soc, k4), W.real_hk(plain, k4), [tuple(int(x) for x in R) for R in soc.rvec.iRvec], W.code_pauli(theta=th, phi=ph)
        ok, val = W.guarded(rep, "SystemSOC.get_system_R:numeric", detail, soc_case)
        if not ok:
            continue
        hs1, hs, ss, hk_soc, hk_plain, rs, P = val
        d = float(np.max(np.abs(hk_soc - hk_plain))) if hk_soc.shape == hk_plain.shape else float("inf")
        if d > 1e-9:
            rep.violation("SystemSOC.get_system_R:same_hamiltonian:numeric", dict(detail, deviation=d))
        dherm = float(np.max(np.abs(hk_soc - hk_soc.conj().transpose(0, 2, 1))))
        if dherm > 1e-9:
            rep.violation("Data_K_soc.HH_K:hermitian:numeric", dict(detail, deviation=dherm))
        dlin = float(np.max(np.abs(hs - al * hs1))) if hs is not None and hs1 is not None else 0.0
        if dlin > 1e-9:
            rep.violation("SystemSOC.set_soc_axis:alpha_soc:numeric", dict(detail, deviation=dlin))
        dss = 0.0
        if ss is not None:
            exp = np.zeros_like(ss)
            i0 = rs.index((0, 0, 0))
            for mm in range(nw):
                exp[i0, 2 * mm, 2 * mm, :], exp[i0, 2 * mm + 1, 2 * mm + 1, :] = P[:, 0, 0], P[:, 1, 1]
            for iR, R in enumerate(rs):
                o, om = (ov[R], ov[tuple(-x for x in R)]) if nspin == 2 else ((np.eye(nw), np.eye(nw)) if iR == i0 else (np.zeros((nw, nw)), np.zeros((nw, nw))))
                exp[iR, 0::2, 1::2, :] = o[:, :, None] * P[None, None, :, 0, 1]
                exp[iR, 1::2, 0::2, :] = om.conj().T[:, :, None] * P[None, None, :, 1, 0]
            dss = float(np.max(np.abs(ss - exp)))
            if dss > 1e-9:
                rep.violation("SystemSOC.set_soc_axis:SS:numeric", dict(detail, deviation=dss))
        dev3 = max(dev3, d, dherm, dlin, dss)
        rep.case(("num3", it))
    rep.part("numeric_deciding", random_axes=nn, max_deviation=float(maxdev), tolerance=1e-9, random_soc_free_systems=n2, max_deviation_spectra=dev2,
             random_soc_systems=n3, max_deviation_soc=dev3)
    return rep.finish()


# =================================================================================================== C26
def check_c26(rep, thorough):
    rng = random.Random(seed() * 7919 + 26)
    w = _workers(thorough)
    rep.rule("TLC enumerates pairs (base system, partner system: other centres, other R-set, with/without the second matrix) and alpha = a/den "
             "(a from -1 to den + 1); a case = one TLC state replayed on SystemInterpolator(s0, s1[, use_pointgroup]).interpolate(alpha) (for "
             "half of the cases as the second call of the interpolator after spoiling its first result) with exact projection (Ham, AA as "
             "functions of R, centres, derivative of H(k)) and H(k); plus seeded random recorded calls (also SystemInterpolatorSOC) validated by TLC")
    rep.assume("all amplitudes are multiples of den, so every interpolated value is an integer (named precondition InterpExact); "
               "SystemInterpolatorSOC is exercised through recorded calls and their H(k) only (its up/down sub-systems are not inspected)")
    cfgs = [("c26_interp", dict(OPS='{"Interpolate"}', NWS="{1, 2}" if thorough else "{2}", SC=2, DEN=2, AEXT=0 if thorough else 1, WITHX="{FALSE, TRUE}",
                                MAXHOPS=1 if thorough else 0, NEPS=1, NCEN=2, KDIRS=2 if thorough else 1))]
    if thorough:
        cfgs.append(("c26_interp_quarters", dict(OPS='{"Interpolate"}', NWS="{2}", SC=4, DEN=4, AEXT=1, WITHX="{FALSE, TRUE}", MAXHOPS=1, NEPS=1, NCEN=1, KDIRS=1)))
        cfgs.append(("c26_interp_chain", dict(OPS='{"Interpolate", "Reorder"}', MAXLEN=2, NWS="{2}", SC=2, DEN=2, WITHX="{FALSE}", MAXHOPS=1, MAXHOPS2=0,
                                              NEPS=1, NCEN=1, KDIRS=1)))
    for name, kw in cfgs:
        st = O.run_ops(rep, name, w, **kw)
        if st:
            _replay_all(rep, st, "C26", name, ["base", "Interpolate"])
    O.sensitivity(rep, "c26_intersect_rset", "LawInterpolate", w, OPS='{"Interpolate"}', NWS="{1}", SC=2, NEPS=1, NCEN=1, Variant='"intersect"')

    recs = []
    nrec = 300 if thorough else 12
    ks = [(0, 0, 0), (1, 2, 0), (3, 1, 0)]

    def pair(rng, den, nw, same_cen):
        s0 = RND.rand_sys(rng, nw=nw, scale=den, cen_choices=(0, 4, 8))
        s1 = RND.rand_sys(rng, nw=nw, scale=den, cen_choices=(0, 4, 8))
        if same_cen:
            s1["cen"] = s0["cen"].copy()
        else:
            s1["cen"] = s0["cen"] + den * np.array([[rng.choice([0, 1]), rng.choice([0, -1]), 0] for _ in range(nw)])
        return s0, s1
    nsoc, nsame = {}, [0]
    for i in range(nrec):
        den = rng.choice([2, 2, 4])
        a = rng.randint(-1, den + 1)
        var = W.variant_of(("c26rec", i))
        if i % 3 == 2:                                              # the four pairs of numbers of spin channels in turn, (1, 2) at the end point first
            j = i // 3
            nspins = ((1, 2), (2, 1), (1, 1), (2, 2))[j % 4]
            a = (den, 1, 0, den + 1, -1, den // 2)[(j // 4 + j) % 6] if j >= 4 else (den, 1, 0, den + 1)[j]
            val = _try_record(rep, "SystemInterpolatorSOC.interpolate", dict(index=i, a=a, den=den, nspins=nspins), RND.rec_interp_soc, rng, a, den, ks,
                              var=var, nspins=nspins)
            if val is not None:
                recs.append(val[0])
                nsoc[nspins] = nsoc.get(nspins, 0) + 1
                rep.case(("rec", "interp_soc", i, a, den, nspins))
            continue
        s0, s1 = pair(rng, den, rng.choice([1, 2, 3]), rng.random() < 0.5)
        same_rset = i % 3 == 1                                      # the same SET of R-vectors, stored in another order in the second system
        if same_rset:
            cen1 = s1["cen"]
            s1 = RND.rand_same_rs(rng, s0)
            s1["cen"] = cen1
            for R in s1["rs"]:
                s1["H"][R] = s1["H"][R] * den
            s0 = dict(s0, hasX=False, X={R: np.zeros_like(s0["H"][R]) for R in s0["rs"]})
            nsame[0] += len(s0["rs"]) > 1
        upg = (1, 0, -1)[var["h"] % 3]
        val = _try_record(rep, "SystemInterpolator.interpolate", dict(s0=W.sys_json(s0), s1=W.sys_json(s1), a=a, den=den, use_pointgroup=upg),
                          RND.rec_interp, rng, s0, s1, a, den, var=var, use_pointgroup=upg, reuse=bool((var["h"] >> 2) & 1), shuffle=same_rset)
        if val is None:
            continue
        rec, views, out = val
        dv = W.diff_views(out["cen"], views, only=("cen_red",))
        if dv:
            rep.violation("SystemInterpolator.interpolate:centres_not_propagated", dict(record=rec, differences=dv))
        recs.append(rec)
        rep.case(("rec", "interp", i, a, den))
    if not rep.violations and len(nsoc) < 4:
        raise MachineryError(f"vacuous: SystemInterpolatorSOC records do not cover the four pairs of spin-channel numbers ({nsoc})")
    if not rep.violations and nsame[0] == 0 and "shuffle_R" not in W.SKIPPED:
        raise MachineryError("vacuous: no record with the same R-vectors stored in different orders")
    rep.part("interp_soc_records", **{f"nspin_{k[0]}_{k[1]}": v for k, v in nsoc.items()}, records_same_R_set_other_order=nsame[0])
    _validate(rep, recs, "c26", lambda r: "SystemInterpolatorSOC.interpolate" if r["fn"] == "interp_soc" else "SystemInterpolator.interpolate")
    f0, f1 = _fixed_sys(11, nw=2, scale=2, cen_choices=(0, 4, 8)), _fixed_sys(12, nw=2, scale=2, cen_choices=(0, 4, 8))
    f1["cen"] = f0["cen"].copy()
    v0 = _try_record(rep, "SystemInterpolator.interpolate", dict(selftest=True), RND.rec_interp, rng, f0, f1, 0, 2)
    _selftest(rep, None if v0 is None else v0[0], lambda r: _flip(r["out"]["H"][0][0][0]), "c26", "equals_spec")

    # ---- numeric (deciding): random alpha (also outside [0, 1]), different centres: H(k), centres and the derivative of H(k)
    from wannierberri.system.interpolate import SystemInterpolator
    nprng = np.random.RandomState(seed() + 2626)
    nn, maxdev = (60 if thorough else 8), 0.0
    for it in range(nn):
        nw = rng.choice([2, 3])
        var = W.variant_of(("c26num", it))
        s0, s1 = pair(rng, 1, nw, it % 2 == 0)
        shuffled = it % 4 >= 2
        if shuffled:                                                # the same SET of R-vectors, stored in another order in the second system
            cen1 = s1["cen"]
            s1 = RND.rand_same_rs(rng, s0)
            s1["cen"] = cen1
        al = float(nprng.rand() * 1.6 - 0.3)
        bkw = dict(periodic=var["periodic"], lattice=var["lattice"])
        kq = [(1, 2, 0), (3, 3, 0)]
        detail = dict(alpha=al, s0=W.sys_json(s0), s1=W.sys_json(s1), lattice=var["lattice"].tolist())

        def one():
            with quiet(), warnings.catch_warnings():
                warnings.simplefilter("ignore")
                r0, r1 = W.build(s0, **bkw), W.build(s1, **bkw)
                if shuffled:
                    W.shuffle_R(r1)
                r = SystemInterpolator(r0, r1).interpolate(al)
            cen = np.asarray(r.wannier_centers_cart) @ np.linalg.inv(r.real_lattice) * W.CU
            return W.real_hk(r, kq), cen, W.shifts_consistent(r, kq, periodic=var["periodic"])
        ok, val = W.guarded(rep, "SystemInterpolator.interpolate:numeric", detail, one)
        if not ok:
            continue
        hk, cen, dsh = val
        dev = max(float(np.max(np.abs(hk[i] - ((1 - al) * W.abs_hk(s0, k) + al * W.abs_hk(s1, k))))) for i, k in enumerate(kq))
        dcen = float(np.max(np.abs(cen - ((1 - al) * s0["cen"] + al * s1["cen"]))))
        maxdev = max(maxdev, dev, dcen, dsh or 0.0)
        rep.case(("num", it))
        if dev > 1e-9:
            rep.violation("SystemInterpolator.interpolate:affine:numeric", dict(detail, deviation=dev))
        if dcen > 1e-9:
            rep.violation("SystemInterpolator.interpolate:centres_affine:numeric", dict(detail, deviation=dcen))
        if dsh is not None and dsh > 1e-8:
            rep.violation("SystemInterpolator.interpolate:centres_not_propagated:numeric", dict(detail, deviation=dsh,
                          note="derivative of H(k) of the result vs a system built from the result's matrices and centres"))
    rep.part("numeric_deciding", random_alpha_cases=nn, max_deviation=maxdev, tolerance=1e-9)
    _interp_soc_numeric(rep, rng, thorough)
    return rep.finish()


def _interp_soc_numeric(rep, rng, thorough):
    """deciding numeric part (1e-9, observed 1e-15): SystemInterpolatorSOC for every pair of numbers of spin channels (1,1), (1,2), (2,1), (2,2):
    H(k) of Data_K_soc of interpolate(a) is the affine mix of the H(k) of the two real end points (a = 0, 1/2, 1 and a random a), the end points
    are reproduced, and each spin channel (system_up / system_down of the result) is the affine mix of the channels, a system with one
    channel contributing it to both"""
    from wannierberri.system.interpolate import SystemInterpolatorSOC
    nprng = np.random.RandomState(seed() + 262626)
    kq = [(0, 0, 0), (1, 2, 0), tuple(4 * nprng.rand(3))]
    maxdev, n = 0.0, 0
    for rnd in range(3 if thorough else 1):
        for nspins in ((1, 2), (2, 1), (1, 1), (2, 2)):
            nw = rng.choice([1, 2])
            var = W.variant_of(("c26socnum", rnd, nspins))
            ends = []
            for nspin in nspins:
                up, dn = RND.rand_sys(rng, nw=nw, with_x=False), RND.rand_sys(rng, nw=nw, with_x=False)
                for x_, f in ((up, 0.37), (dn, 0.61)):
                    for R in x_["rs"]:
                        x_["H"][R] = x_["H"][R] * f
                ends.append((up, dn, RND.rand_soc_data(rng, nw), rng.randint(0, 3), rng.randint(0, 3), nspin))
            detail = dict(nspins=list(nspins), lattice=var["lattice"].tolist(), ups=[W.sys_json(e[0]) for e in ends], downs=[W.sys_json(e[1]) for e in ends])

            def setup():
                socs = [RND.make_real_soc(e[0], e[1], e[2], e[3], e[4], 1, nspin=e[5], var=var)[0] for e in ends]
                hks = [W.real_hk(x, kq) for x in socs]
                chan = [(W.real_hk(x.system_up, kq), W.real_hk(x.system_down, kq)) for x in socs]
                with quiet(), warnings.catch_warnings():
                    warnings.simplefilter("ignore")
                    itp = SystemInterpolatorSOC(socs[0], socs[1])
                return itp, hks, chan
            ok, val = W.guarded(rep, "SystemInterpolatorSOC", detail, setup)
            if not ok:
                continue
            itp, hks, chan = val
            for al in (0.0, 0.5, 1.0, float(nprng.rand())):
                def one():
                    with quiet(), warnings.catch_warnings():
                        warnings.simplefilter("ignore")
                        r = itp.interpolate(al)
                    ch = W.private("SystemSOC.system_up/system_down", lambda: (W.real_hk(r.system_up, kq), W.real_hk(r.system_down, kq)))
                    return W.real_hk(r, kq), ch
                ok, val = W.guarded(rep, "SystemInterpolatorSOC.interpolate:numeric", dict(detail, alpha=al), one)
                if not ok:
                    continue
                hk, ch = val
                n += 1
                rep.case(("socnum", rnd, nspins, al))
                dev = float(np.max(np.abs(hk - ((1 - al) * hks[0] + al * hks[1])))) if hk.shape == hks[0].shape else float("inf")
                if dev > 1e-9:
                    kind = "end_point" if al in (0.0, 1.0) else "affine"
                    rep.violation(f"SystemInterpolatorSOC.interpolate:{kind}:numeric", dict(detail, alpha=al, deviation=dev,
                                  note="H(k) of Data_K_soc of the interpolated system vs the mix of the H(k) of the two end points"))
                dch = 0.0
                if ch is not None:
                    for c in (0, 1):
                        exp = (1 - al) * chan[0][c] + al * chan[1][c]
                        dch = max(dch, float(np.max(np.abs(ch[c] - exp))) if ch[c].shape == exp.shape else float("inf"))
                    if dch > 1e-9:
                        rep.violation("SystemInterpolatorSOC.interpolate:spin_channels:numeric", dict(detail, alpha=al, deviation=dch,
                                      note="H(k) of system_up / system_down of the result vs the mix of the channels of the end points "
                                           "(a system with one channel contributes it to both)"))
                maxdev = max(maxdev, dev, dch)
    rep.part("numeric_deciding_interpolator_soc", cases=n, max_deviation=maxdev, tolerance=1e-9, pairs_of_spin_channel_numbers=[[1, 2], [2, 1], [1, 1], [2, 2]])


def _cap_violations(rep, cap=2):
    """Report.finish writes replay files for the keys among the first 20 violations only: keep at most `cap` per key, count the rest"""
    orig, counts = rep.violation, {}

    def violation(key, detail):
        counts[key] = counts.get(key, 0) + 1
        rep.part("violation_counts", **{key: counts[key]})
        return orig(key, detail) if counts[key] <= cap else False
    rep.violation = violation


def _dispatch(rep, pid, thorough):
    if pid == "C05":
        return check_c05(rep, thorough)
    if pid == "C25":
        return check_c25(rep, thorough)
    if pid == "C26":
        return check_c26(rep, thorough)
    if pid == "C32":
        from . import _sysalg_create as CR
        return CR.check_c32(rep, thorough)
    if pid == "C33":
        from . import _sysalg_corners as CO
        return CO.check_c33(rep, thorough)
    raise MachineryError(f"sysalg does not serve {pid}")


class _Finish:
    """rep.finish with the recorded skips attached"""

    def __init__(self, rep):
        self.rep, self.orig = rep, rep.finish

    def __call__(self):
        if W.SKIPPED:
            self.rep.part("skipped_private", **{k.replace(" ", "_"): v for k, v in W.SKIPPED.items()})
        t = os.times()
        self.rep.part("cpu_seconds", python=round(t.user + t.system, 1), children_tlc=round(t.children_user + t.children_system, 1))
        return self.orig()


def check(pid, tier):
    rep = Report(pid, tier, "model_checking")
    _cap_violations(rep)
    rep.finish = _Finish(rep)
    O.scratch(pid)
    W.SKIPPED.clear()
    rc = None
    try:
        rc = _dispatch(rep, pid, tier == "thorough")
        return rc
    except Exception:
        if rep.violations:                                        # never lose what was found before the harness stopped
            traceback.print_exc()
            print(f"NOTE property={pid}: the check stopped early (see the traceback); the violations collected so far are reported")
            rc = rep.finish()
            return rc
        raise
    finally:
        if rc == 0:
            O.scratch_cleanup()
