"""X01: decision tables and text formats around Wannier90 input (extension module, DESIGN.md 10.9).

 (a) system/needed_data.py  NeededData      - NeededData.tla, MC_NeededData.tla, NeededDataRec.tla
 (b) w90files/win.py        WIN             - WinFile.tla, MC_WinRead.tla, MC_WinObj.tla, WinFileRec.tla
 (c) utility.py             str2bool, alpha_A/beta_A, iterate_nd/iterate3dpm, one2three, get_head, find_degen, arr_to_string
                                            - UtilTables.tla, MC_UtilTables.tla, UtilTablesRec.tla

spec -> code : every "done" state of the four bounded models is executed on the real code (the flag assignment on the real
               NeededData, the token file rendered to text and read by the real WIN.from_w90_file, the behaviour of the
               WIN state machine on a real object with real files, the call on the real utility function).
code -> spec : seeded random calls of the real code are recorded as JSON and validated clause by clause by TLC against the
               *Rec modules, which evaluate the laws of the specifications on the recorded values.
"""
import os
import re
import copy
import random
import shutil
import concurrent.futures

from .. import tlc, ftable, tlaparse
from ..common import Report, MachineryError, seed, workdir, WORK
from . import _x01_nd as ND
from . import _x01_util as UT
from . import _x01_win as W
from . import _x01_winreplay as WR

PROPS = {
    "X01": dict(level="model_checking",
                technique="TLC exhaustive on four bounded models - MC_NeededData (all 2^12 flag assignments + get_parameters key sets), MC_WinRead (token-level .win "
                          "files x styles through the reader), MC_WinObj (WIN dictionary state machine: set / del / update / to_npz+from_npz / write+re-read, all action sequences up "
                          "to the bound), MC_UtilTables (function tables of utility.py) - with the documented laws as invariants and must-fail variants (4 in the quick tier, 8 in the thorough tier); replay "
                          "of every finished TLC state / behaviour on the real NeededData, WIN (real files in a scratch directory) and utility functions; TLC "
                          "validation of seeded random recorded calls (NeededDataRec, WinFileRec, UtilTablesRec)",
                text="(a) NeededData.__init__ / need_any / not_in_list / get_parameters are transcribed as a decision table; TLC checks on all 4096 flag "
                     "assignments: Ham always, every quantity flag gets the matrices it promises (FF standing in for OO/GG), force_internal_terms_only "
                     "restricts to Ham/SS, nothing is needed that no flag asked for, the files cover what system_w90.py builds each matrix from and nothing "
                     "else, chk iff chk, keepOOGG keeps, every matrix is known to System_w90, switching a flag on never removes a matrix or file, "
                     "get_parameters partitions the keys; every state is executed on the real class. (b) a .win file is a sequence of token lines (comment, "
                     "blank, keyword sep value, begin/end, units, rows, text), WIN.data a function key -> typed value (lengths carry the power of the Bohr "
                     "radius); TLC checks that reading does not depend on the style (case of keywords / begin / end / units, separator, comments, order), "
                     "parameters are found under their lower-case keyword, bohr/ang units of cell and atoms_cart are respected, k-points are the first three "
                     "columns and mp_grid their mesh (a contradicting mp_grid or off-mesh points are refused), and on the object state machine: get-after-"
                     "set, del, update, to_npz/from_npz keeps the dictionary (and the loaded object can be written), the written file is well formed and names "
                     "every non-None entry once, write then read gives the dictionary back, "
                     "the object read from <t>.win is called t, inconsistent dictionaries are not read back, what was read is a fixed point. Every file / "
                     "behaviour is executed on the real class with real files. (c) function tables with their laws (str2bool word lists; alpha_A/beta_A = "
                     "Levi-Civita for cross product and axial vector; iterate_nd/iterate3dpm: every point of the box exactly once, pm symmetric; one2three "
                     "defined exactly for None / positive int / three positive ints, idempotent; get_head = flattening order; find_degen: shells partition "
                     "and respect the threshold; arr_to_string: one line per row, one token per number), every state executed on the real function.",
                note="numbers are multiples of 1/8 (exactly printed by %16.12f and str()), k-points multiples of 1/24; lengths in bohr are compared as "
                     "(integer, power of a0) with absolute tolerance 1e-8 (2 x 10^4 x the half-ulp of the writer's format; observed deviation < 1e-12); "
                     "excluded by named predicates: Complete (files without cell / atoms / k-points), KpointsAreMesh (a mesh with a hole: get_mp_grid does "
                     "not count points, C23), AtomsDyadic, Writable, strings that start with t/f or contain blanks and trailing comments (wannier90io "
                     "quirks, reported under third_party_parser), non-finite floats, lists of one element; orders (of the written file, of iterate_nd), "
                     "exception classes, need_any returning None for False, shapes of empty results are information",
                ref="DESIGN.md 10.9"),
}

GOOD = dict(StrJoin="plain", KeyCase="fold", SeedParam="skip", BohrFactor="a0")
ND_INV = ["TypeOK", "Ham", "Promises", "Internal", "Minimal", "FilesCover", "FilesMinimal", "Chk", "Keep", "Known", "FilesExact", "MonotoneMatrices",
          "MonotoneStrict", "MonotoneFiles", "InternalRestricts", "RepresentationOnly", "Split"]
UT_INV = ["BoolWords", "TablesCyclic", "CrossIsLeviCivita", "AxialIsLeviCivita", "IterOnce", "IterLex", "IterPm", "Iter3", "OneToThree", "HeadLabels",
          "Degen", "ArrTable"]
WR_INV = ["InModel", "ReadDefined", "StyleInvariant", "ParamsRead", "CellUnits", "AtomsFrac", "KptsMesh", "Projections", "SeednameIsFile"]
WO_INV = ["TypeOK", "GetSet", "DelRemoves", "UpdateLaw", "NpzKeeps", "FileWellFormed", "RoundTrip", "MpGridDerived", "SeednameFollowsFile", "InconsistentRejected",
          "FileFixpoint"]
POOL = ["nw3", "froz", "spin0", "plot", "x", "excl", "projnone", "proj1", "kmesh", "mp112", "cell2", "winmax_none", "bulk"]
POOL_DEEP = ["nw3", "froz", "plot", "projnone", "proj1", "kmesh", "mp112", "cell2", "winmax_none"]      # thorough: fewer entries, one action more
INFO_PREFIX = "info_"


def cpu():
    t = os.times()
    return t.user + t.system + t.children_user + t.children_system


def cfg(spec, consts, invs):
    def lit(v):
        return v if isinstance(v, str) and (v.startswith("{") or v in ("TRUE", "FALSE")) else (f'"{v}"' if isinstance(v, str) else str(v))
    return (f"SPECIFICATION {spec}\nCONSTANTS\n" + "".join(f"  {k} = {lit(v)}\n" for k, v in consts.items())
            + "".join(f"INVARIANT {i}\n" for i in invs) + "CHECK_DEADLOCK FALSE\n")


class Capped:
    """passes at most `cap` violations per key to the Report, counts the rest"""

    def __init__(self, rep, cap=2):
        self.rep, self.cap, self.count = rep, cap, {}

    def violation(self, key, detail):
        self.count[key] = self.count.get(key, 0) + 1
        if self.count[key] <= self.cap:
            self.rep.violation(key, detail)


def iter_dump(st, drop=(), marker=None):
    """parsed states of a TLC dump in an order that does not depend on the worker scheduling; `drop`: variables not parsed"""
    p = st.get("dump_path")
    if not p or not os.path.exists(p):
        raise MachineryError(f"no state dump produced ({st.get('meta')})")
    with open(p) as f:
        text = f.read()
    chunks = sorted(ch for ch in re.split(r"(?m)^State \d+:\s*$", text)[1:] if marker is None or marker in ch)
    for body in chunks:
        keep = []
        for ch in re.split(r"(?m)^/\\ ", body):
            ch = ch.strip()
            if not ch:
                continue
            m = re.match(r"([A-Za-z_][A-Za-z0-9_]*)\s*=\s*", ch)
            if m and m.group(1) in drop:
                continue
            keep.append("/\\ " + ch)
        yield tlaparse.parse_state_body("\n".join(keep))


def check(pid, tier):
    rep = Report(pid, tier, "model_checking")
    try:
        return _check(rep, pid, tier)
    except Exception as ex:
        if rep.violations:
            print(f"[{pid}] the check stopped early ({type(ex).__name__}: {str(ex)[:300]}); reporting the violations collected so far")
            try:
                rep.part("aborted", note="the run stopped early; the violations collected so far are reported")
                return rep.finish()
            except Exception:
                pass
        raise
    finally:
        tidy(f"{pid.lower()}_{tier}_{os.getpid()}", keep_out=bool(rep.violations))


def tidy(tag, keep_out):
    """scratch of this process (every name carries the tag): the work directory, the record files and the TLC directories of the
    record / must-fail runs always go; of the four models the tlc.out stays when violations were reported"""
    import glob
    shutil.rmtree(os.path.join(WORK, tag), ignore_errors=True)
    for d in glob.glob(os.path.join(WORK, "records", f"{tag}_*")) + glob.glob(os.path.join(WORK, "tlc", f"rec_{tag}_*")) + glob.glob(os.path.join(WORK, "tlc", f"{tag}_v_*")):
        shutil.rmtree(d, ignore_errors=True)
    for d in glob.glob(os.path.join(WORK, "tlc", f"{tag}_*")):
        if not keep_out:
            shutil.rmtree(d, ignore_errors=True)
            continue
        for f in os.listdir(d):
            if f != "tlc.out":
                p = os.path.join(d, f)
                shutil.rmtree(p, ignore_errors=True) if os.path.isdir(p) else os.remove(p)


def _check(rep, pid, tier):
    from ..main import raised_by_code_under_test
    thorough = tier == "thorough"
    rng = random.Random(seed() * 7919 + 101)
    tag = f"{pid.lower()}_{tier}_{os.getpid()}"
    wd = workdir(tag)
    vio = Capped(rep)
    skipped = {}
    timing = {}
    t_last = [cpu()]
    names = []

    def lap(name):
        now = cpu()
        timing[name] = round(now - t_last[0], 1)
        t_last[0] = now

    def tname(n):
        names.append(f"{tag}_{n}")
        return names[-1]

    def guarded(site, detail, fn):
        """the public call under test: an exception raised inside the package is the violation raises:<site>:<Type>; one raised at
        the harness's call site is recorded under skipped_private; environment errors pass"""
        try:
            return fn()
        except (OSError, ImportError, MemoryError, MachineryError):
            raise
        except Exception as ex:
            if raised_by_code_under_test(ex) is not None:
                vio.violation(f"raises:{site}:{type(ex).__name__}", dict(detail, exception=repr(ex)[:300]))
            else:
                skipped[site] = f"{type(ex).__name__}: {str(ex)[:120]}"
            return None

    import wannierberri  # noqa: F401
    rep.rule("TLC enumerates (1) every assignment of the 12 NeededData flags and key sets for get_parameters, (2) .win token files = content slices "
             "(units of cell x atoms; k-point list x mp_grid x projections; parameter sets) x styles, (3) every sequence of WIN dictionary actions up to "
             "MAXLEN from two preset files, (4) every argument of the tabulated utility functions inside the constants; a case = one finished TLC state "
             "/ behaviour executed on the real code, or one seeded random recorded call validated by TLC; distinct by input")
    rep.assume("numbers in .win files and dictionaries are multiples of 1/8 (k-points: of 1/24), lengths possibly times the Bohr radius; string values do "
               "not start with t/f and hold no blanks (wannier90io would read them as booleans / the writer's defect is reported separately)")
    rep.assume("a .win file holds unit_cell_cart, atoms_frac or atoms_cart, and kpoints (what Wannier90 itself requires)")
    lap("start")

    # ------------------------------------------------------------------ TLC: main models and must-fail variants, 3 at a time
    ut_c = dict(SwapAlphaBeta="FALSE", PmOpenEnd="FALSE", SMAX=3 if thorough else 2, NHEAD=4 if thorough else 3, DLEN=5 if thorough else 4)
    nd_c = dict(FFIgnoresKeep="FALSE", SHFilesNoEig="FALSE")
    wr_c = dict(GOOD, StyleSet="many" if thorough else "few", Product="slices")
    wo_c = dict(GOOD, StyleSet="few", Product="slices", MAXLEN=3 if thorough else 2, PRESETS="{1, 2}",
                POOL="{" + ", ".join(f'"{p}"' for p in (POOL if not thorough else POOL_DEEP)) + "}")
    small_wo = dict(wo_c, MAXLEN=2)
    nw = 4 if thorough else 2          # the quick models are small: two workers cost less CPU and no wall time
    jobs = dict(
        nd=("MC_NeededData.tla", cfg("Spec", nd_c, ND_INV), True, nw),
        ut=("MC_UtilTables.tla", cfg("Spec", ut_c, UT_INV), True, nw),
        wr=("MC_WinRead.tla", cfg("Spec", wr_c, WR_INV), True, nw),
        wo=("MC_WinObj.tla", cfg("OSpec", wo_c, WO_INV), True, nw),
        v_nd_ffkeep=("MC_NeededData.tla", cfg("Spec", dict(nd_c, FFIgnoresKeep="TRUE"), ND_INV), False, 2),
        v_nd_shfiles=("MC_NeededData.tla", cfg("Spec", dict(nd_c, SHFilesNoEig="TRUE"), ND_INV), False, 2),
        v_ut_swap=("MC_UtilTables.tla", cfg("Spec", dict(ut_c, SwapAlphaBeta="TRUE", SMAX=1, NHEAD=1, DLEN=2), UT_INV), False, 2),
        v_ut_pm=("MC_UtilTables.tla", cfg("Spec", dict(ut_c, PmOpenEnd="TRUE", SMAX=1, NHEAD=1, DLEN=2), UT_INV), False, 2),
        v_wr_keycase=("MC_WinRead.tla", cfg("Spec", dict(wr_c, StyleSet="few", KeyCase="keep"), WR_INV), False, 2),
        v_wr_bohr=("MC_WinRead.tla", cfg("Spec", dict(wr_c, StyleSet="few", BohrFactor="one"), WR_INV), False, 2),
        v_wo_strjoin=("MC_WinObj.tla", cfg("OSpec", dict(small_wo, StrJoin="chars"), WO_INV), False, 2),
        v_wo_seed=("MC_WinObj.tla", cfg("OSpec", dict(small_wo, SeedParam="write"), WO_INV), False, 2),
    )
    if not thorough:
        for k in ("v_nd_ffkeep", "v_ut_swap", "v_wr_bohr", "v_wo_seed"):
            del jobs[k]
    if thorough:
        wr2_c = dict(GOOD, StyleSet="few", Product="full")
        jobs["wr_full"] = ("MC_WinRead.tla", cfg("Spec", wr2_c, WR_INV), True, 4)
    expect_fail = dict(v_nd_ffkeep={"Keep"}, v_nd_shfiles={"FilesCover"}, v_ut_swap={"TablesCyclic", "CrossIsLeviCivita", "AxialIsLeviCivita"},
                       v_ut_pm={"IterPm", "Iter3"}, v_wr_keycase={"ParamsRead", "StyleInvariant"}, v_wr_bohr={"CellUnits", "AtomsFrac"},
                       v_wo_strjoin={"RoundTrip", "FileFixpoint"}, v_wo_seed={"SeednameFollowsFile"})

    def run(name):
        module, c, dump, workers = jobs[name]
        return name, tlc.run_tlc(module, c, tname(name), workers=workers, dump=dump, coverage=False, timeout=3000 if thorough else 900)

    sts = {}
    with concurrent.futures.ThreadPoolExecutor(max_workers=3) as pool:
        for name, st in pool.map(run, list(jobs)):
            sts[name] = st
    for name, st in sts.items():
        if st.get("timeout"):
            raise MachineryError(f"TLC timed out on {name}")
        if st.get("error") and not st.get("violation"):
            raise MachineryError(f"TLC error on {name}: {st['error'][:600]}")
        if name.startswith("v_"):
            v = st.get("violation")
            if not v or v[1] not in expect_fail[name]:
                raise MachineryError(f"sensitivity self-test failed: the wrong variant {name} must violate one of {sorted(expect_fail[name])}, TLC says {v}")
            rep.part("sensitivity", **{name: v[1]})
        else:
            ftable.spec_violation(rep, st, f"x01_{name}")
            rep.add_tlc(f"x01_{name}", st)
    lap("tlc_models")
    if rep.violations:
        return rep.finish()

    # ------------------------------------------------------------------ (a) NeededData: replay
    counts = {}
    nd_done = 0
    for s in iter_dump(sts["nd"], marker='pc = "done"'):
        nd_done += 1
        if s["kind"] == "init":
            fl = {k: bool(v) for k, v in dict(s["fl"]).items()}
            rep.case(("nd", tuple(sorted(fl.items()))), nontrivial=any(fl[f] for f in ND.FLAGS[:7]))
            ND.replay_init(vio, guarded, fl, set(s["mats"]), set(s["files"]), counts)
            if nd_done <= 1:
                rep.sample(dict(flags={f: v for f, v in fl.items() if v != ND.DEFAULTS[f]}, matrices=sorted(s["mats"]), files=sorted(s["files"])))
        else:
            keys = set(s["keys"])
            rep.case(("nd_split", tuple(sorted(keys))), nontrivial=bool(keys))
            ND.replay_split(vio, guarded, keys, set(s["rest"]), set(s["sel"]), counts)
    if 2 * nd_done != sts["nd"]["distinct"]:
        raise MachineryError(f"NeededData dump incomplete: {nd_done} finished states for {sts['nd']['distinct']} TLC states")
    if not rep.violations:
        for need in (("init", 0), ("init", 1), ("init", 2), "split"):
            if not counts.get(need):
                raise MachineryError(f"NeededData: case class {need} never occurred ({counts})")
    rep.part("replay_needed_data", states=nd_done, **{("_".join(str(x) for x in k) if isinstance(k, tuple) else k): v for k, v in counts.items()})
    lap("replay_needed_data")

    # ------------------------------------------------------------------ (c) utility: replay
    ucounts, uinfo = {}, {}
    ut_done = 0
    for s in iter_dump(sts["ut"], marker='pc = "done"'):
        ut_done += 1
        fn = s["fn"]
        inp = {k: UT.L(v) for k, v in dict(s["inp"]).items()}
        got = UT.call(fn, inp)
        exp = UT.expected(fn, s["out"])
        kl = f"{fn}:{UT.klass(fn, inp)}"
        ucounts[kl] = ucounts.get(kl, 0) + 1
        rep.case(("ut", fn, repr(inp)))
        bad, info = UT.compare(fn, inp, exp, got)
        for suffix, text in bad:
            vio.violation(f"{kl}:{suffix}", dict(function=f"wannierberri.utility.{fn}", input=inp, expected=dict(err=exp[0], val=exp[1]),
                                                 got={k: v for k, v in got.items()}, what=text))
        for i_ in info:
            uinfo[i_] = uinfo.get(i_, 0) + 1
        if ucounts[kl] == 1 and kl in ("iterate_nd:start", "find_degen:values"):
            rep.sample(dict(function=fn, input=inp, result=got["val"] if got["err"] == "" else got["err"]))
    if 2 * ut_done != sts["ut"]["distinct"]:
        raise MachineryError(f"utility dump incomplete: {ut_done} finished states for {sts['ut']['distinct']} TLC states")
    need_ut = ["str2bool:true_word", "str2bool:false_word", "str2bool:other_word", "cross:all", "axial:all", "iterate_nd:pm", "iterate_nd:start", "iterate_nd:plain",
               "iterate_nd:plain:empty", "iterate3dpm:three", "iterate3dpm:not_three", "one2three:none", "one2three:int", "one2three:float", "one2three:seq",
               "one2three:seqf", "get_head:rank_le_0", "get_head:rank_pos", "find_degen:empty", "find_degen:values", "arr_to_string:real",
               "arr_to_string:complex", "arr_to_string:vector"]
    for need in need_ut:
        if not ucounts.get(need) and not rep.violations:
            raise MachineryError(f"utility: case class {need} never occurred ({sorted(ucounts)})")
    rep.part("replay_utility", states=ut_done, **{k.replace(":", "_"): v for k, v in ucounts.items()})
    lap("replay_utility")

    # ------------------------------------------------------------------ (b) WIN: the reader, file by file
    rr = WR.ReadReplay(vio, wd)
    for key in ["wr"] + (["wr_full"] if thorough else []):
        n0 = rr.n
        for s in iter_dump(sts[key], marker='pc = "done"'):
            rep.case(("win_read", s["cu"], s["at"], s["kp"], s["mpp"], s["pj"], s["pset"], tuple(sorted(dict(s["style"]).items()))))
            rr.one(s)
            if rr.n == 2:
                rep.sample(dict(win_file=W.render(W.canon_file(s["file"]))[:600]))
        if 2 * (rr.n - n0) != sts[key]["distinct"]:
            raise MachineryError(f"WinRead dump incomplete: {rr.n - n0} finished states for {sts[key]['distinct']} TLC states")
    if not rep.violations:
        for need in ("mesh:mp_ok", "mesh:mp_wrong", "offgrid:mp_ok", "hole:mp_ok", "units:bohr/cart_ang", "units:none/cart_bohr", "units:bohr/frac"):
            if not rr.counts.get(need):
                raise MachineryError(f"WinRead: case class {need} never occurred ({sorted(rr.counts)})")
        if len([k for k in rr.counts if k.startswith("style:")]) < 5:
            raise MachineryError(f"WinRead: fewer than 5 styles replayed ({sorted(rr.counts)})")
    rep.part("replay_win_read", files=rr.n, **{k.replace(":", "_").replace("/", "_").replace("+", "_").replace(" ", "blank").replace("=", "eq"): v for k, v in rr.counts.items()})
    lap("replay_win_read")

    # ------------------------------------------------------------------ (b) WIN: the object state machine
    states, leaves = {}, []
    maxlen = wo_c["MAXLEN"]
    for s in iter_dump(sts["wo"], drop=("prev", "rd", "cu", "at", "kp", "mpp", "pj", "pset", "style", "pc")):
        states[WR.ObjReplay.hkey(s["hist"])] = s
        if len(s["hist"]) - 1 == maxlen:
            leaves.append(s)
    if len(states) != sts["wo"]["distinct"]:
        raise MachineryError("WinObj dump: behaviours are not distinct states")
    pool = dict(key={}, val={}, upd={})
    for s in states.values():
        e = s["hist"][-1]
        ch = {k: W.canon_val(v) for k, v in dict(e["chg"]).items()} if isinstance(e["chg"], dict) else {}
        if e["op"] == "set":
            (k, v), = ch.items()
            pool["key"][e["id"]], pool["val"][e["id"]] = k, v
        elif e["op"] == "update":
            pool["upd"][e["id"]] = ch
    leaves.sort(key=lambda s: repr(WR.ObjReplay.hkey(s["hist"])))
    nleaves = len(leaves)
    nmax = 6000 if thorough else 1200
    if len(leaves) > nmax:
        # every behaviour that ends with a write, then a seeded sample of the others
        rng.shuffle(leaves)
        leaves.sort(key=lambda s: 0 if s["hist"][-1]["op"] == "write_read" else 1)
        must = sum(1 for s in leaves if s["hist"][-1]["op"] == "write_read")
        leaves = leaves[:max(nmax, must)]
    orp = WR.ObjReplay(vio, wd, states, pool)
    okb = 0
    for s in leaves:
        rep.case(("win_obj",) + WR.ObjReplay.hkey(s["hist"]))
        if orp.replay(s):
            okb += 1
    if not rep.violations:
        for op in ("set", "del", "update", "npz", "write_read"):
            if not orp.ops.get(op):
                raise MachineryError(f"WinObj: action never replayed: {op}")
        for need in ("write_read:consistent", "write_read:inconsistent"):
            if not orp.counts.get(need):
                raise MachineryError(f"WinObj: case class {need} never occurred ({orp.counts})")
    rep.part("replay_win_object", behaviours=len(leaves), of_leaf_behaviours=nleaves, completed=okb, actions=orp.ops,
             **{k.replace(":", "_"): v for k, v in orp.counts.items()})
    rep.sample(dict(win_behaviour=[(e["op"], e["id"]) for e in leaves[len(leaves) // 2]["hist"]]))
    lap("replay_win_object")

    # ------------------------------------------------------------------ code -> spec: recorded calls, validated by TLC (3 runs at a time)
    n_nd, n_ut, n_win = (1500, 2500, 600) if thorough else (150, 300, 90)
    nd_recs = []
    while len(nd_recs) < n_nd:
        r = (ND.record_init if len(nd_recs) % 3 else ND.record_split)(rng, guarded)
        if r is None:
            break
        nd_recs.append(r)
        rep.case(("nd_rec", len(nd_recs), repr(r)[:200]))
    ut_recs, ut_meta = [], []
    for j in range(n_ut):
        fn, inp = UT.random_call(rng)
        got = UT.call(fn, inp)
        out = dict(err=got["err"], val=got["val"])
        if fn == "one2three":
            out["is_none"] = bool(got.get("is_none", False))
        ut_recs.append(dict(fn=fn, inp=inp, out=out))
        ut_meta.append(got)
        rep.case(("ut_rec", fn, repr(inp)))
    win_recs, win_meta = WR.record_calls(rep, vio, rng, n_win, wd)
    lap("records_real")

    # binding self-tests: corrupted copies of accepted records must be rejected (validated in the same TLC runs)
    def nd_corrupt():
        for r in nd_recs:
            if r["kind"] == "init" and "AA" in r["matrices"]:
                b = copy.deepcopy(r)
                b["matrices"].remove("AA")
                return [(b, {"table_matrices", "law_promise"})]
        return []

    def ut_corrupt():
        out = []
        for r in ut_recs:
            if r["fn"] == "iterate_nd" and r["out"]["err"] == "" and len(r["out"]["val"]) > 1:
                b = copy.deepcopy(r)
                b["out"]["val"][0] = list(b["out"]["val"][1])
                out.append((b, {"every_point_once"}))
                break
        for r in ut_recs:
            if r["fn"] == "find_degen" and len(r["out"]["val"]) > 1:
                b = copy.deepcopy(r)
                b["out"]["val"][0][1] += 1
                out.append((b, {"partition", "threshold"}))
                break
        return out

    def win_corrupt():
        out = []
        for kind in ("roundtrip", "read", "write"):
            n = 0
            for j, r in enumerate(win_recs):
                if r["kind"] == kind and n < 6 and win_meta[j]["mesh"] == "right" and not win_meta[j]["exception"]:
                    b, clause = WR.corrupt(r)
                    if b is not None:
                        out.append((b, {clause}, j))
                        n += 1
        return out

    batches = dict(nd=("NeededDataRec.tla", ftable.REC_CFG, nd_recs, [(b, c, None) for b, c in nd_corrupt()]),
                   ut=("UtilTablesRec.tla", cfg("RecSpec", dict(SwapAlphaBeta="FALSE", PmOpenEnd="FALSE"), ["Report"]), ut_recs, [(b, c, None) for b, c in ut_corrupt()]),
                   win=("WinFileRec.tla", cfg("RecSpec", GOOD, ["Report"]), win_recs, win_corrupt()))
    nd_cfg = cfg("RecSpec", dict(FFIgnoresKeep="FALSE", SHFilesNoEig="FALSE"), ["Report"])
    batches["nd"] = (batches["nd"][0], nd_cfg) + batches["nd"][2:]

    def validate(name):
        module, c, recs, bads = batches[name]
        if not recs:
            return name, None, {}
        stv, bad = ftable.validate_records(module, c, recs + [b for b, _, _ in bads], tname("rec_" + name), chunk=3000, timeout=3000 if thorough else 900)
        return name, stv, bad

    results = {}
    with concurrent.futures.ThreadPoolExecutor(max_workers=3) as tp:
        for name, stv, bad in tp.map(validate, list(batches)):
            results[name] = (stv, bad)
    selftest = {}
    for name, (stv, bad) in results.items():
        module, c, recs, bads = batches[name]
        if stv is None:
            if not rep.violations:
                raise MachineryError(f"no records for {name}")
            continue
        caught = {}
        for j, (b, clauses, src) in enumerate(bads):
            got = set(bad.pop(len(recs) + j, []))
            src_bad = set(bad.get(src, [])) if src is not None else set()
            if src_bad - {c_ for c_ in src_bad if c_.startswith(INFO_PREFIX)} - {"seedname_follows_file"}:
                continue                 # TLC rejects the uncorrupted record itself (see the violations): not usable
            if not (got & (clauses - src_bad)):
                raise MachineryError(f"binding self-test failed ({name}): corrupted record accepted (expected one of {sorted(clauses)}, TLC says {sorted(got)})")
            caught[j] = sorted(got & clauses)
        if not caught and not rep.violations:
            raise MachineryError(f"binding self-test ({name}): no usable record to corrupt")
        selftest[name] = caught
        stv["distinct"] -= len(bads)
        stv["generated"] -= 2 * len(bads)
        rep.add_tlc(f"x01_records_{name}", stv)
        rep.add_traces(len(recs))
    rep.part("binding_selftest", **{k: {str(a): b for a, b in v.items()} for k, v in selftest.items()})

    rinfo = {}

    def note(k):
        rinfo[k] = rinfo.get(k, 0) + 1

    outside = []
    for i_, clauses in sorted(results["nd"][1].items()):
        r = nd_recs[i_]
        hard = [c_ for c_ in clauses if not c_.startswith(INFO_PREFIX)]
        for c_ in clauses:
            if c_.startswith(INFO_PREFIX):
                note("nd:" + c_)
        if "in_model" in hard:
            outside.append(("nd", i_, hard))
        elif hard:
            site = "NeededData.get_parameters" if r["kind"] == "split" else "NeededData.__init__"
            vio.violation(f"{site}:recorded:{hard[0]}", dict(record=r, failing_clauses=hard))
    for i_, clauses in sorted(results["ut"][1].items()):
        r = ut_recs[i_]
        hard = [c_ for c_ in clauses if not c_.startswith(INFO_PREFIX)]
        for c_ in clauses:
            if c_.startswith(INFO_PREFIX):
                note(f"{r['fn']}:{c_}")
        if hard:
            vio.violation(f"{r['fn']}:recorded:{hard[0]}", dict(function=f"wannierberri.utility.{r['fn']}", record=r, failing_clauses=hard,
                                                                message=ut_meta[i_].get("message")))
    for i_, clauses in sorted(results["win"][1].items()):
        r, m = win_recs[i_], win_meta[i_]
        hard = [c_ for c_ in clauses if not c_.startswith(INFO_PREFIX)]
        for c_ in clauses:
            if c_.startswith(INFO_PREFIX):
                note(f"win_{r['kind']}:{c_}")
        if "in_model" in hard:
            outside.append(("win", i_, hard))
            continue
        for c_ in hard:
            vio.violation(win_key(r, c_), dict(kind=r["kind"], failing_clause=c_, all_failing=hard, meta=m))
    if outside and not rep.violations:
        raise MachineryError(f"recorded call outside the model: {outside[:3]}")
    kinds = {r["kind"] for r in win_recs} | {r["kind"] for r in nd_recs} | {r["fn"] for r in ut_recs}
    want = {"read", "write", "roundtrip", "init", "split", "str2bool", "cross", "axial", "iterate_nd", "iterate3dpm", "one2three", "get_head", "find_degen", "arr_to_string"}
    if want - kinds and not rep.violations:
        raise MachineryError(f"record classes missing: {sorted(want - kinds)}")
    if win_recs:
        rep.sample(dict(recorded_win=dict(kind=win_recs[0]["kind"], file_text=win_meta[0].get("file_text", "")[:400])))
    lap("records_tlc")

    # ------------------------------------------------------------------ numeric only: non-dyadic numbers through write / read
    rep.part("numeric_only", **numeric_roundtrip(vio, rng, 40 if thorough else 12, wd))
    rep.part("third_party_parser", information_only=True, **third_party_observations(wd))
    lap("numeric")

    rep.part("information", information_only=True, needed_data={k: v for k, v in counts.items() if isinstance(k, str) and k != "split"}, utility=uinfo,
             win_read=rr.info, win_object=orp.info, records=rinfo,
             note="counts of agreements / differences nothing in the statement depends on: order of the written file and of iterate_nd, exception classes, "
                  "need_any returning None, shapes of empty results, what happens to a mesh with a hole, tokens of the written file vs the model")
    if skipped:
        rep.part("skipped_private", **{k.replace(".", "_"): v for k, v in skipped.items()})
    rep.part("violation_counts", **{k.replace(".", "_").replace(":", "_"): v for k, v in vio.count.items()})
    rep.part("cpu_seconds", **timing, total=round(sum(timing.values()), 1))
    return rep.finish()          # scratch is removed by tidy() in check()


def win_key(r, clause):
    """stable key for a clause of WinFileRec that failed on a recorded call"""
    if r["kind"] == "read":
        if clause == "data" and any(p[0].split(":")[0] in ("upper", "title", "other") for p in r["out"]["data"]):
            return "WIN.from_w90_file:keyword_case"
        if clause == "status" and r["out"]["err"] == "" and any(l["k"] == "param" and l["name"] == "mp_grid" and l["cs"] != "lower" for l in r["file"]):
            return "WIN.from_w90_file:keyword_case"          # a contradicting MP_GRID stored under its own spelling, never compared
        return f"WIN.from_w90_file:recorded:{clause}"
    if r["kind"] == "write":
        f = r["out"]["file"]
        if clause == "file_holds_data" and any(l["k"] == "param" and l["v"]["t"] == "str" and l["v"]["i"] == 1 and l["name"] != "seedname" for l in f):
            return "WIN.write:string_value"
        if clause == "every_entry_once" and any(l["k"] == "param" and l["name"] == "seedname" for l in f):
            return "WIN.write:seedname_parameter"
        return f"WIN.write:recorded:{clause}"
    if clause == "round_trip" and any(p[1]["t"] == "str" and p[1]["i"] == 1 and p[0] != "seedname" for p in r["out"]["data"]):
        return "WIN.write:string_value"
    if clause == "seedname_follows_file":
        return "WIN.write:seedname_parameter"
    return f"WIN.roundtrip:recorded:{clause}"


def numeric_roundtrip(vio, rng, n, wd):
    """arbitrary floats (cell, atoms, k-points of a mesh, float parameters) written and read back: equal at the precision of
    the format (%16.12f for the blocks, repr for parameters)"""
    import numpy as np
    from wannierberri.w90files.win import WIN
    obs = dict(cases=0, max_abs_block=0.0, max_abs_parameter=0.0, tolerance=W.TOL)
    for it in range(n):
        d = os.path.join(wd, f"num{it}")
        os.makedirs(d, exist_ok=True)
        try:
            cell = np.array([[rng.uniform(-6, 6) for _ in range(3)] for _ in range(3)]) + 8 * np.eye(3)
            nat = rng.randint(1, 4)
            frac = np.array([[rng.random() for _ in range(3)] for _ in range(nat)])
            nk = [rng.choice([1, 2, 3, 4, 5, 6, 7]) for _ in range(3)]
            kpts = np.array([[a / nk[0], b / nk[1], c / nk[2]] for a in range(nk[0]) for b in range(nk[1]) for c in range(nk[2])])
            par = dict(dis_froz_max=rng.uniform(-20, 20), kmesh_tol=10.0 ** rng.uniform(-9, -3), num_wann=rng.randint(1, 50))
            w = WIN(seedname=os.path.join(d, "seed"))
            w.update(dict(par, unit_cell_cart=cell, atoms_frac=frac, atoms_names=["X"] * nat, kpoints=kpts))
            text, ex = W.write_win(w, os.path.join(d, "seed"))
            if ex is not None:
                vio.violation(f"raises:WIN.write:{ex.split(':')[0]}", dict(exception=ex, numbers="arbitrary floats"))
                continue
            w2, ex = W.read_win(os.path.join(d, "seed"))
            if ex is not None:
                vio.violation(f"raises:WIN.from_w90_file:{ex.split(':')[0]}", dict(exception=ex, numbers="arbitrary floats", file_text=text[:800]))
                continue
            obs["cases"] += 1
            dev = 0.0
            for k, a in (("unit_cell_cart", cell), ("atoms_frac", frac), ("kpoints", kpts)):
                b = np.asarray(w2[k]) if k in w2 else None
                dev = max(dev, float(np.max(np.abs(b - a))) if b is not None and b.shape == a.shape else float("inf"))
            obs["max_abs_block"] = max(obs["max_abs_block"], dev)
            if dev > W.TOL:
                vio.violation("WIN.roundtrip:precision", dict(deviation=dev, tolerance=W.TOL, what="cell / atoms / k-points after write and read", seed=seed(), case=it))
            if tuple(int(x) for x in w2["mp_grid"]) != tuple(nk):
                vio.violation("WIN.roundtrip:mp_grid", dict(mesh=nk, read_back=[int(x) for x in w2["mp_grid"]], what="mesh of the k-points after write and read"))
            pdev = max(abs(float(w2[k]) - par[k]) / max(abs(par[k]), 1e-300) for k in ("dis_froz_max", "kmesh_tol") if k in w2 and isinstance(w2[k], float)) \
                if all(k in w2 and isinstance(w2[k], float) for k in ("dis_froz_max", "kmesh_tol")) else float("inf")
            obs["max_abs_parameter"] = max(obs["max_abs_parameter"], pdev)
            if pdev > 1e-12 or w2["num_wann"] != par["num_wann"]:
                vio.violation("WIN.roundtrip:parameter:float", dict(parameters=par, read_back={k: repr(w2[k]) if k in w2 else None for k in par}))
        finally:
            shutil.rmtree(d, ignore_errors=True)
    return obs


def third_party_observations(wd):
    """what wannier90io (the parser win.py delegates to) makes of input the specification excludes - information only"""
    d = os.path.join(wd, "tp")
    os.makedirs(d, exist_ok=True)
    base = ("begin unit_cell_cart\n2 0 0\n0 2 0\n0 0 4\nend unit_cell_cart\nbegin atoms_frac\nFe 0 0 0\nend atoms_frac\n"
            "begin kpoints\n0 0 0\n0.5 0 0\nend kpoints\n")
    obs = {}

    def rd(text, what, look):
        with open(os.path.join(d, "seed.win"), "w") as f:
            f.write(text)
        w, ex = W.read_win(os.path.join(d, "seed"))
        try:
            obs[what] = ("raises " + ex) if ex is not None else look(w)
        except Exception as e2:
            obs[what] = f"observation failed: {type(e2).__name__}"

    rd(base + "num_wann = 2 ! trailing comment\nnum_bands = 3\n", "trailing_comment_swallows_next_line", lambda w: dict(num_wann=repr(w.data.get("num_wann")), num_bands=repr(w.data.get("num_bands"))))
    rd(base + "dist_cutoff_mode = three_dim\nfermi_surface_plot_format = full\n", "strings_starting_with_t_or_f_become_booleans",
       lambda w: dict(dist_cutoff_mode=repr(w.data.get("dist_cutoff_mode")), fermi_surface_plot_format=repr(w.data.get("fermi_surface_plot_format"))))
    rd(base.replace("0 0 0\n0.5", "0 0 0 ! gamma\n0.5"), "comment_after_a_kpoint_joins_two_lines", lambda w: dict(kpoints=w["kpoints"].tolist(), mp_grid=[int(x) for x in w["mp_grid"]]))
    rd(base + "exclude_bands = 1, 2, 3, 5\n", "list_separated_by_comma_and_blank", lambda w: dict(exclude_bands=repr(w.data.get("exclude_bands"))))
    rd(base.replace("0 0 0\n0.5", "0 0 0\n\n0.5"), "blank_line_inside_kpoints", lambda w: dict(kpoints=w["kpoints"].tolist()))
    rd("begin unit_cell_cart\n2 0 0\n0 2 0\n0 0 4\nend unit_cell_cart\nnum_wann = 1\n", "file_without_kpoints", lambda w: "read")
    rd(base.replace("begin atoms_frac\nFe 0 0 0\nend atoms_frac\n", "").replace("begin unit_cell_cart\n2 0 0\n0 2 0\n0 0 4\nend unit_cell_cart\n", ""),
       "file_without_cell_and_atoms", lambda w: dict(unit_cell_cart=repr(w.data.get("unit_cell_cart")), atoms_frac=repr(w.data.get("atoms_frac"))))
    shutil.rmtree(d, ignore_errors=True)
    return obs
