"""C17: energy smoothing applies every axis smoother.

spec  : ResultAlg.tla (SmoothAxis = AbstractSmoother.__call__ in exact rationals: kernel cut at the array ends and
        re-normalised row by row; SmoothAll = composition over the energy axes), MC_ResultAlgAxis.tla (one smoother along
        one axis: linear, constant preserving, along the axis only), MC_ResultAlgSmooth.tla (EnergyResult.dataSmooth as the
        loop of the code with its cached_property cache, add() and set_smoother(), against SmoothAll, order independence,
        Void identity)
bind  : spec -> code: TLC states are replayed: the real AbstractSmoother.__call__ (through a subclass whose _broaden
        returns the integer kernel of the spec) and the real EnergyResult.dataSmooth / add() / set_smoother() sequences,
        with real and with complex data, compared with the rational values of the specification (tolerance 1e-9 on values
        of magnitude <= 30, observed deviation <= 1e-15)
        code -> spec: recorded real smoothing results on random integer data (scaled to integers by the common
        denominator, integrality verified) and the way the smoothers returned by get_smoother ACT, every clause
        evaluated by TLC (ResultAlgRec.tla)
        numeric_only: the real FermiDiracSmoother / GaussianSmoother as black boxes: response matrix M[:, j] = sm(e_j),
        then rows sum to one, sm(A) = M applied along the axis (linear, along the axis only, complex data), dataSmooth of
        a two-axis result = both response matrices applied

Private names of the package are used through one adapter (_resultalg.int_kernel_smoother); when they are gone the
exact-kernel sub-checks are skipped (parts.skipped_private), the black-box part remains.
"""
import os
import copy
import math
import glob
import random
import shutil
from fractions import Fraction
from concurrent.futures import ThreadPoolExecutor

import numpy as np

from .. import tlc, ftable
from ..common import Report, MachineryError, seed, WORK
from . import _resultalg as RA

PROPS = {
    "C17": dict(level="model_checking",
                technique="TLC exhaustive on ResultAlg.tla smoothing operators (MC_ResultAlgAxis: every kernel / shape / axis / unit and dense "
                          "integer array; MC_ResultAlgSmooth: dataSmooth loop + cache + add() + set_smoother() for every shape, rank, smoother "
                          "assignment of the constants) + replay of the TLC states on the real AbstractSmoother.__call__ and "
                          "EnergyResult.dataSmooth (real and complex data) + TLC validation of recorded smoothing results",
                text="TLC checks in exact rationals that the loop of dataSmooth yields the composition of all axis smoothers, independent of "
                     "the order, identity without smoothers, still true after add() (also of the void result: nothing changes) and after set_smoother(), and that each smoother is "
                     "linear, constant preserving and acts along its axis only; every state of the axis model and every idle state of the "
                     "dataSmooth model whose last event is a read is executed on the real classes (integer-kernel subclass of "
                     "AbstractSmoother, real EnergyResult) and compared to 1e-9; random real results (built directly or through +, -, *, /, "
                     "mul_array, transform; real or complex) are validated clause by clause by TLC; the real Fermi-Dirac and Gaussian "
                     "smoothers are examined as black boxes through their response matrices (numeric_only).",
                note="kernels are symmetric positive integer arrays (the weight of A[j] in res[i] is smt[NE1 + j - i], as in the code); energy "
                     "grids are equidistant and ascending (named predicate AscendingGrid; descending grids: observation); data are float / "
                     "complex arrays (integer-typed arrays: observation); the shape of the Fermi-Dirac / Gaussian kernels is NOT checked (any "
                     "kernel passes), that part is numeric_only; get_smoother is checked for how its result acts, not for class names",
                ref="DESIGN.md 3.6"),
}

BASE = "  InitStores <- SNone\n  Scalars <- SNone\n  Divisors <- SNone\n  Syms <- SNone\n  ActSyms <- SNone\n  MaxOps = 0\n"
REC_CFG = ("SPECIFICATION RecSpec\nCONSTANTS\n  Wrong = {}\n  InitStores <- RecSeq\n  Scalars <- RecNone\n  Divisors <- RecNone\n"
           "  Syms <- RecSeq\n  ActSyms <- RecNone\n  MaxOps = 0\nINVARIANT Report\nCHECK_DEADLOCK FALSE\n")
TOL = 1e-9
TLC_TIMEOUT = 3000
REC_CHUNK = 250
SMOOTH_INVS = ["SmoothObserved", "CacheFresh", "OrderIndependent", "VoidIdentity", "SmoothLinear"]
AXIS_INVS = ["Linear", "ConstantPreserved", "AlongAxisOnly", "UnitKernelIdentity", "RowsNormalised"]
BOLTZMANN_EV = 8.617333262e-5


def scfg(wrong=(), shapes="ShapesA", ranks=(0, 1), kernels="KernelsA", maxadds=1, maxsets=1, maxmut=2):
    return ("SPECIFICATION Spec17\nCONSTANTS\n" + "  Wrong = {" + ", ".join(f'"{w}"' for w in wrong) + "}\n" + BASE +
            f"  Shapes <- {shapes}\n  Ranks = {{{', '.join(map(str, ranks))}}}\n  Kernels <- {kernels}\n  MaxAdds = {maxadds}\n"
            f"  MaxSets = {maxsets}\n  MaxMut = {maxmut}\n" + "".join(f"INVARIANT {i}\n" for i in SMOOTH_INVS) + "CHECK_DEADLOCK FALSE\n")


def acfg(shapes="FullShapesA", kernels="KernelsA"):
    return ("SPECIFICATION Spec17\nCONSTANTS\n  Wrong = {}\n" + BASE + f"  FullShapes <- {shapes}\n  Kernels <- {kernels}\n"
            + "".join(f"INVARIANT {i}\n" for i in AXIS_INVS) + "CHECK_DEADLOCK FALSE\n")


def rat_to_float(seq):
    return np.array([x[0] / x[1] for x in seq], dtype=float)


def rat_to_frac(seq):
    return [Fraction(x[0], x[1]) for x in seq]


def make_result(shape, rank, data, smo, dtype=float):
    """raises RA.PrivateGone when the integer kernels cannot be injected any more"""
    EnergyResult, KBandResult, ResultDict, VoidResult, ps = RA.wb()
    fs = tuple(shape) + (3,) * rank
    sm = [RA.int_kernel_smoother(k, n) for k, n in zip(smo, shape)]
    ident = ps.Transform()
    return EnergyResult([np.arange(n, dtype=float) for n in shape], np.array(data, dtype=dtype).reshape(fs), smoothers=sm,
                        transformTR=ident, transformInv=ident, rank=rank)


def row_sums(kernel, ne):
    h = (len(kernel) - 1) // 2
    return [sum(kernel[h + j - i] for j in range(max(0, i - h), min(ne, i + h + 1))) for i in range(ne)]


def common_den(smo, shape):
    D = 1
    for k, n in zip(smo, shape):
        if len(k):
            D *= math.lcm(*row_sums(k, n))
    return D


def scaled_ints(arr, D):
    """value * D as integers; the values themselves have to be multiples of 1/D within 1e-9 (relative to D: the float
    error of value * D grows with D)"""
    v = np.asarray(arr, dtype=float).reshape(-1) * D
    r = np.rint(v)
    if v.size and np.abs(v - r).max() > TOL * max(1, D):
        raise RA.NonIntegral(f"value * {D} is not integral: {v[:6]}")
    return [int(x) for x in r]


def apply_matrix(M, A, axis):
    """the linear map M applied along one axis of A"""
    return np.moveaxis(np.tensordot(M, A, axes=(1, axis)), 0, axis)


class Runs:
    """names of TLC runs, unique per property and process (several checks may run at once)"""

    def __init__(self, pid):
        self.tag = f"{pid.lower()}p{os.getpid()}"
        self.used = []

    def name(self, part):
        n = f"{part}_{self.tag}"
        self.used.append(n)
        return n

    def cleanup(self):
        for n in self.used:
            for d in (os.path.join(WORK, "tlc", n), os.path.join(WORK, "records", n)):
                shutil.rmtree(d, ignore_errors=True)
            for d in glob.glob(os.path.join(WORK, "tlc", f"rec_{n}_*")):
                shutil.rmtree(d, ignore_errors=True)


class Found:
    def __init__(self):
        self.found = {}

    def add(self, key, detail):
        if key in self.found:
            self.found[key][0] += 1
        else:
            self.found[key] = [1, detail]

    def flush(self, rep):
        for key, (n, det) in sorted(self.found.items()):
            rep.violation(key, dict(det, occurrences=n))
        self.found = {}

    def call(self, site, detail, f):
        """a call of the package on an input of the specified domain: an exception of the package is a violation, the check
        goes on with the next input.  Exceptions raised by the harness's own frames are not swallowed."""
        try:
            return True, f()
        except (MachineryError, RA.PrivateGone):
            raise
        except Exception as ex:
            where = RA.where_raised(ex)
            if where == "harness":
                raise
            self.add(f"raises:{where}:{type(ex).__name__}", dict(detail, call=site, got=f"{type(ex).__name__}: {ex}"))
            return False, None


def classify_smooth(real, shape, rank, data, smo):
    """which wrong implementation explains a wrong dataSmooth (only used to name the violation)"""
    try:
        fs = tuple(shape) + (3,) * rank
        raw = np.array(data, dtype=float).reshape(fs)
        only0 = RA.smooth_axis_py(list(smo[0]), fs, raw, 0) if len(smo[0]) else raw
        if np.abs(np.real(np.asarray(real)) - only0).max() <= TOL:
            return "only_the_axis0_smoother_applied"
    except Exception:
        pass
    return "wrong_values"


def dev_of(got, exp):
    got = np.asarray(got)
    if got.shape != np.asarray(exp).shape:
        return float("inf")
    d = np.abs(got - exp)
    return float(d.max()) if d.size and np.all(np.isfinite(d)) else (0.0 if not d.size else float("inf"))


def check(pid, tier):
    rep = Report(pid, tier, "model_checking")
    runs = Runs(pid)
    found = Found()
    try:
        rc = _check(rep, found, runs, tier)
    except Exception:
        found.flush(rep)
        if rep.violations:
            try:
                rep.finish()
            except Exception:
                pass
        raise
    if rc == 0:
        runs.cleanup()
    return rc


def _check(rep, found, runs, tier):
    global TLC_TIMEOUT
    thorough = tier == "thorough"
    TLC_TIMEOUT = 7200 if thorough else 3000          # a timeout is a MachineryError (exit 2), never a violation
    rng = random.Random(seed() * 7919 + 17)
    nprng = np.random.default_rng(seed() * 7919 + 17)
    workers = int(os.environ.get("VERIF_TLC_WORKERS", "4"))
    skipped = {}
    rep.rule("a case = one TLC state replayed on the real code: (kernel, array shape, axis, integer array) on AbstractSmoother.__call__, or "
             "(energy shape, rank, smoother per axis, integer data, read/add/set_smoother sequence) on EnergyResult.dataSmooth, each with real "
             "and with complex data; plus seeded random recorded results validated by TLC; distinct by input")
    rep.assume("kernels are positive symmetric integer arrays on equidistant ascending energy grids with at least two points (one-point "
               "axes get the VoidSmoother, as get_smoother does); data are small integers in float / complex arrays: float results are exact "
               "to ~1e-15, compared with 1e-9")
    RA.wb()
    from wannierberri.smoother import FermiDiracSmoother, GaussianSmoother, get_smoother
    VoidResult = RA.wb()[3]

    # is the private protocol through which the integer kernels are injected still there?
    exact = True
    try:
        RA.int_kernel_smoother([1, 2, 1], 3)
    except RA.PrivateGone as ex:
        exact = False
        skipped["integer_kernel_injection"] = f"{ex} -> the replay of the TLC states and the smooth / axis records are skipped"

    # ---------------- one smoother along one axis
    st = ftable.enumerate_states("MC_ResultAlgAxis.tla", acfg("FullShapesB", "KernelsB") if thorough else acfg(), runs.name("c17_axis"), workers=workers,
                                 timeout=TLC_TIMEOUT)
    ftable.spec_violation(rep, st, "c17_axis")
    rep.add_tlc("c17_axis", st)
    states = RA.fast_parse_dump(st["dump_path"])
    if len(states) != st["distinct"] or not states:
        raise MachineryError(f"c17_axis: dump has {len(states)} states, TLC reported {st['distinct']}")
    states.sort(key=lambda s: (tuple(s["fs"]), tuple(s["k"]), s["a"], tuple(s["x"])))
    maxdev = 0.0
    naxis = 0
    for s in states:
        fs, k, a, x, y = tuple(s["fs"]), list(s["k"]), s["a"] - 1, s["x"], s["y"]
        exp = rat_to_float(s["sx"]).reshape(fs)
        # the Python transcription of the specification must agree exactly with TLC
        mirror = RA.smooth_axis_py(k, fs, RA.frac_array(x, fs), a)
        if [Fraction(v) for v in mirror.reshape(-1)] != rat_to_frac(s["sx"]):
            raise MachineryError(f"Python transcription of SmoothAxis disagrees with TLC for {fs, k, a}")
        if not exact:
            continue
        sm = RA.int_kernel_smoother(k, fs[a])
        arr = np.array(x, dtype=float).reshape(fs)
        yarr = np.array(y, dtype=float).reshape(fs)
        det = dict(full_shape=fs, kernel=k, axis=a, x=list(x))
        rep.case(("axis", fs, tuple(k), a, tuple(x)), nontrivial=len(k) > 1)
        naxis += 1
        ok, got = found.call("AbstractSmoother.__call__(A, axis)", det, lambda: sm(arr, axis=a))
        if ok:
            dev = dev_of(got, exp)
            maxdev = max(maxdev, dev if dev < 1 else 0.0)
            if dev > TOL:
                found.add("AbstractSmoother.__call__:wrong_values", dict(det, expected=exp.reshape(-1).tolist(), got=np.asarray(got).reshape(-1).tolist()))
        # complex data: real and imaginary part are smoothed alike
        expc = exp + 1j * np.array(RA.smooth_axis_py(k, fs, yarr, a), dtype=float)
        ok, gotc = found.call("AbstractSmoother.__call__(complex A, axis)", det, lambda: sm(arr + 1j * yarr, axis=a))
        if ok:
            dev = dev_of(gotc, expc)
            maxdev = max(maxdev, dev if dev < 1 else 0.0)
            if dev > TOL:
                found.add("AbstractSmoother.__call__:wrong_values_complex_data",
                          dict(det, y=list(y), expected_imag=expc.imag.reshape(-1).tolist(), got=[str(v) for v in np.asarray(gotc).reshape(-1)]))
        if naxis <= 2:
            rep.sample(dict(fn="AbstractSmoother.__call__", full_shape=fs, kernel=k, axis=a, x=list(x), expected=[list(v) for v in s["sx"]]))
    os.remove(st["dump_path"])
    found.flush(rep)

    # ---------------- dataSmooth: loop, cache, add(), set_smoother()
    # quick: one add() or one set_smoother() per behaviour; thorough: both, in either order
    cfg = scfg(shapes="ShapesA", ranks=(0, 1), kernels="KernelsQ", maxmut=2) if thorough else scfg(shapes="ShapesQ", kernels="KernelsQ", maxmut=1)
    st = ftable.enumerate_states("MC_ResultAlgSmooth.tla", cfg, runs.name("c17_smooth"), workers=workers, timeout=TLC_TIMEOUT)
    ftable.spec_violation(rep, st, "c17_smooth")
    tlc.check_not_vacuous(st, ["ReadCached", "ReadStart", "LoopStep", "LoopEnd", "AddInPlaceData", "SetSmoother", "AddVoidInPlace"], "c17_smooth")
    rep.add_tlc("c17_smooth", st)
    states = RA.fast_parse_dump(st["dump_path"])
    if len(states) != st["distinct"]:
        raise MachineryError(f"c17_smooth: dump has {len(states)} states, TLC reported {st['distinct']}")
    states.sort(key=lambda s: (tuple(s["shape"]), s["rank"], tuple(map(tuple, s["smo0"])), tuple(s["data"]), tuple(s["log"]), s["pc"], s["ax"]))
    classes = {}
    nreplayed = 0
    for s in states:
        if s["pc"] != "idle" or s["obs"] == () or not s["log"] or s["log"][-1] != "read":
            continue
        nreplayed += 1
        shape, rank, log = tuple(s["shape"]), s["rank"], list(s["log"])
        smo0, smo_now = [list(k) for k in s["smo0"]], [list(k) for k in s["smo"]]
        fs = shape + (3,) * rank
        # data at the start of the behaviour = current data minus the added array for every add in the log
        nadd = log.count("add")
        data0 = [d - nadd * bb for d, bb in zip(s["data"], s["b"])]
        exp = rat_to_float(s["obs"][0]).reshape(fs)
        has_set = "set" in log
        cls = ("two_axes" if sum(1 for k in smo0 if len(k)) >= 2 else "one_axis" if any(len(k) for k in smo0) else "void") + \
              ("+add_after_read" if "add" in log and "read" in log[:log.index("add")] else "+add" if "add" in log else "") + \
              ("+set_after_read" if has_set and "read" in log[:log.index("set")] else "+set" if has_set else "") + \
              ("+addvoid_after_read" if "addvoid" in log and "read" in log[:log.index("addvoid")] else "+addvoid" if "addvoid" in log else "")
        classes[cls] = classes.get(cls, 0) + 1
        if not exact:
            continue
        for factor, tag in ((1.0, "real"), (1 + 2j, "complex")):
            rep.case(("smooth", tag, shape, rank, tuple(map(tuple, smo0)), tuple(data0), tuple(log)), nontrivial=any(len(k) > 1 for k in smo0 + smo_now))
            det = dict(energy_shape=shape, rank=rank, smoothers=smo0, smoothers_set=smo_now if has_set else None, data=data0,
                       added=list(s["b"]) if nadd else None, sequence=log, data_factor=str(factor),
                       how="EnergyResult(Energies=[arange(n)..], data * data_factor, smoothers=[integer-kernel AbstractSmoother subclass per axis]); "
                           "'read' = .dataSmooth, 'add' = .add(other), 'addvoid' = .add(VoidResult()), 'set' = .set_smoother(smoothers_set)")

            def run_log():
                dt = float if factor == 1.0 else complex
                r = make_result(shape, rank, [d * factor for d in data0], smo0, dtype=dt)
                other = make_result(shape, rank, [d * factor for d in s["b"]], smo0, dtype=dt)
                reads = []
                for op in log:
                    if op == "read":
                        reads.append(np.array(r.dataSmooth, copy=True))
                    elif op == "add":
                        r.add(other)
                    elif op == "addvoid":
                        r.add(VoidResult())
                    else:
                        r.set_smoother([RA.int_kernel_smoother(k, n) for k, n in zip(smo_now, shape)])
                return reads
            ok, reads = found.call("EnergyResult.dataSmooth / add / set_smoother", det, run_log)
            if not ok:
                continue
            got = reads[-1]
            dev = dev_of(got, exp * factor)
            if dev <= TOL * 3:
                maxdev = max(maxdev, dev)
                continue
            det.update(expected=[str(v) for v in (exp * factor).reshape(-1)], got=[str(v) for v in np.asarray(got).reshape(-1)], max_deviation=dev)
            last_mut = max((i for i, op in enumerate(log) if op in ("add", "set")), default=-1)
            nbefore = log[:last_mut].count("read") if last_mut >= 0 else 0          # reads made before the last add() / set_smoother()
            if nbefore and any(g.shape == got.shape and np.array_equal(got, g) for g in reads[:nbefore]):
                found.add("EnergyResult.dataSmooth:stale_after_" + ("add" if log[last_mut] == "add" else "set_smoother"), det)
            else:
                found.add("EnergyResult.dataSmooth:" + classify_smooth(np.asarray(got) / factor, shape, rank, s["data"], smo_now), det)
    need = ("two_axes", "one_axis", "void", "two_axes+add_after_read", "one_axis+add", "two_axes+set_after_read", "one_axis+set", "void+set_after_read",
            "two_axes+addvoid_after_read", "one_axis+addvoid") + \
           (("two_axes+add_after_read+set_after_read", "one_axis+add+set") if thorough else ())
    for n_ in need:
        if not classes.get(n_):
            raise MachineryError(f"c17_smooth: no replayed case of class {n_}: {classes}")
    rep.part("c17_smooth", replayed_states=nreplayed if exact else 0, replayed_per_class=classes if exact else {}, data="real and complex (x (1+2j))")
    rep.part("c17_axis", replayed=naxis, max_deviation_observed=maxdev)
    os.remove(st["dump_path"])
    found.flush(rep)

    # ---------------- sensitivity: the plausible wrong implementations must be rejected by TLC
    def one(wrong):
        return wrong, tlc.run_tlc("MC_ResultAlgSmooth.tla", scfg(wrong=(wrong,), shapes="ShapesW", ranks=(0,), kernels="KernelsQ", maxmut=1),
                                  runs.name(f"c17_wrong_{wrong}"), workers=1, timeout=TLC_TIMEOUT, coverage=False)
    with ThreadPoolExecutor(max_workers=3) as ex:
        res = list(ex.map(one, ("selfdata", "stalecache", "stalesmoother")))
    sens = {}
    for wrong, st0 in res:
        if st0.get("timeout"):
            raise MachineryError(f"sensitivity run Wrong={{{wrong}}} timed out")
        if not st0.get("violation"):
            raise MachineryError(f"sensitivity self-test failed: MC_ResultAlgSmooth with Wrong={{{wrong}}} should violate an invariant "
                                 f"({st0.get('error') or 'no violation'})")
        sens[wrong] = st0["violation"][1]
    rep.part("sensitivity", rejected=sens)

    # ---------------- code -> spec : recorded results
    KCAT = [[], [1], [1, 2, 1], [1, 1, 1], [1, 2, 4, 2, 1], [1, 3, 1], [2, 3, 5, 3, 2], [1, 1, 2, 3, 2, 1, 1]]
    syms = RA.real_syms()
    recs = []
    aux = {}                  # record index -> call details that TLC does not need (floats, None)
    nrec = 500 if thorough else 120
    attempts = 0
    while len(recs) < nrec:
        attempts += 1
        if attempts > 40 * nrec:
            raise MachineryError("record generation does not terminate")
        r_ = rng.random()
        if r_ < 0.45:
            if not exact:
                r_ = 0.9
            else:
                nax = rng.choice([1, 2, 2, 2, 3])
                shape = tuple(rng.randint(1, 5) for _ in range(nax))
                rank = rng.choice([0, 0, 1, 2]) if nax < 3 else 0
                smo = [rng.choice(KCAT) if n >= 2 else [] for n in shape]
                D = common_den(smo, shape)
                size = int(np.prod(shape)) * 3 ** rank
                cplx = rng.random() < 0.35
                how = rng.choice(["plain", "plain", "sum", "diff", "scaled", "div", "transformed", "mul_array"])
                ints = lambda: [rng.randint(-9, 9) for _ in range(size)]
                re_, im_, re2, im2 = ints(), ints(), ints(), ints()
                if D * 64 >= 2 ** 31 or size > 80:
                    continue
                dt = complex if cplx else float
                val = lambda a, b: [x + 1j * y for x, y in zip(a, b)] if cplx else list(a)
                det = dict(energy_shape=shape, rank=rank, smoothers=smo, built=how, complex_data=cplx, data_re=re_, data_im=im_ if cplx else None)

                def build():
                    # the result is built directly or comes out of an operator (which has to carry the smoothers along)
                    if how == "sum":
                        return make_result(shape, rank, val(re_, im_), smo, dt) + make_result(shape, rank, val(re2, im2), smo, dt)
                    if how == "diff":
                        return make_result(shape, rank, val(re_, im_), smo, dt) - make_result(shape, rank, val(re2, im2), smo, dt)
                    if how == "scaled":
                        return make_result(shape, rank, val(re_, im_), smo, dt) * 2
                    if how == "div":
                        return make_result(shape, rank, val([2 * v for v in re_], [2 * v for v in im_]), smo, dt) / 2
                    if how == "transformed":
                        return make_result(shape, rank, val(re_, im_), smo, dt).transform(syms["C4z" if rank > 0 else "Identity"])
                    if how == "mul_array":
                        return make_result(shape, rank, val(re_, im_), smo, dt).mul_array(np.array([float((q % 3) - 1) for q in range(shape[0])]), axes=0)
                    return make_result(shape, rank, val(re_, im_), smo, dt)
                ok, res = found.call(f"EnergyResult built by `{how}`", det, build)
                if not ok:
                    continue
                ok, pair = found.call("EnergyResult.data / dataSmooth", det, lambda: (np.array(res.data, copy=True), np.array(res.dataSmooth, copy=True)))
                if not ok:
                    continue
                raw, sm_out = pair
                try:
                    # the raw data of the result as it is (whether the operator computed them correctly is C16's business)
                    data = scaled_ints(np.real(raw), 1)
                    datai = scaled_ints(np.imag(raw), 1)
                    if raw.shape != tuple(shape) + (3,) * rank or sm_out.shape != raw.shape:
                        raise RA.NonIntegral(f"shape of data {raw.shape} / dataSmooth {sm_out.shape}")
                    out = scaled_ints(np.real(sm_out), D)
                    outi = scaled_ints(np.imag(sm_out), D)
                except RA.NonIntegral as ex:
                    found.add("EnergyResult.dataSmooth:non-integral projection", dict(det, got=str(ex)))
                    continue
                if D * (max(map(abs, data + datai)) + 1) >= 2 ** 31:
                    continue
                rec = dict(fn="smooth", shape=list(shape), rank=rank, smo=smo, data=data, D=D, out=out, built=how)
                if cplx:
                    rec.update(datai=datai, outi=outi)
                elif any(outi) or any(datai):
                    found.add("EnergyResult.dataSmooth:imaginary part from real data", dict(det))
                    continue
                recs.append(rec)
        if 0.45 <= r_ < 0.85:
            if not exact:
                r_ = 0.9
            else:
                fs = tuple(rng.randint(1, 5) for _ in range(rng.randint(1, 3)))
                cand = [a for a in range(len(fs)) if fs[a] >= 2]
                if not cand or int(np.prod(fs)) > 60:
                    continue
                a = rng.choice(cand)
                k = rng.choice(KCAT[1:])
                D = math.lcm(*row_sums(k, fs[a]))
                n = int(np.prod(fs))
                x = [rng.randint(-9, 9) for _ in range(n)]
                y = [rng.randint(-9, 9) for _ in range(n)]
                c = rng.choice([-5, 1, 7])
                sm = RA.int_kernel_smoother(k, fs[a])
                ax = np.array(x, dtype=float).reshape(fs)
                ay = np.array(y, dtype=float).reshape(fs)
                det = dict(full_shape=fs, kernel=k, axis=a, x=x)
                ok, outs = found.call("AbstractSmoother.__call__", det, lambda: [sm(ax, axis=a), sm(ay, axis=a), sm(ax + ay, axis=a), sm(2 * ax, axis=a),
                                                                                 sm(np.full(fs, float(c)), axis=a)])
                if not ok:
                    continue
                try:
                    if any(np.asarray(o).shape != fs for o in outs):
                        raise RA.NonIntegral(f"shapes {[np.asarray(o).shape for o in outs]} for input {fs}")
                    sx, sy, sxy, s2x, sc = [scaled_ints(o, D) for o in outs]
                except RA.NonIntegral as ex:
                    found.add("AbstractSmoother.__call__:non-integral projection", dict(det, got=str(ex)))
                    continue
                recs.append(dict(fn="axis", fs=list(fs), a=a + 1, k=k, D=D, x=x, y=y, c=c, sx=sx, sy=sy, sxy=sxy, s2x=s2x, sc=sc))
        if r_ >= 0.85:
            # how does the smoother that get_smoother returns act?  (documented modes only; no class names)
            hasE = rng.random() < 0.85
            ne = rng.choice([0, 1, 2, 3, 7])
            smear = rng.choice(["none", "nonpos", "pos", "pos"])
            mode = rng.choice(["Fermi-Dirac", "Gaussian"])
            wide = rng.random() < 0.6
            desc = ne >= 2 and rng.random() < 0.1
            energy = np.linspace(-1., 1., ne) if hasE else None
            if desc and hasE:
                energy = energy[::-1].copy()
            dE = 2.0 / (ne - 1) if ne >= 2 else 1.0
            if smear == "none":
                sval = None
            elif smear == "nonpos":
                sval = rng.choice([0., -3.])
            elif wide:
                sval = 4 * dE if mode == "Gaussian" else 4 * dE / BOLTZMANN_EV          # kernel half-width of ~32 grid steps
            else:
                sval = rng.choice([50., 300., 0.2])
            nn = ne if hasE else 3
            det = dict(energy=None if energy is None else energy.tolist(), smear=sval, mode=mode)

            def acts():
                sm = get_smoother(energy, sval, mode)
                M = np.asarray(RA.response_matrix(sm, nn))
                if M.shape != (nn, nn) or not np.all(np.isfinite(M)):
                    return "not finite" if M.shape == (nn, nn) else f"shape {M.shape}"
                return "identity" if np.array_equal(M, np.eye(nn)) else "smoothing"
            try:
                got = acts()
            except MachineryError:
                raise
            except Exception as ex:
                if RA.where_raised(ex) == "harness":
                    raise
                got = "raises"
                det["exception"] = f"{type(ex).__name__}: {ex}"
            aux[len(recs)] = det
            recs.append(dict(fn="getsm", hasE=hasE, ne=ne, smear=smear, mode=mode, wide=bool(wide and smear == "pos"), dEsign=-1 if (desc and hasE) else 1,
                             got=got))
        rep.case(("rec", len(recs), recs[-1]["fn"]))
    found.flush(rep)
    stv, bad = ftable.validate_records("ResultAlgRec.tla", REC_CFG, recs, runs.name("c17"), chunk=REC_CHUNK, timeout=TLC_TIMEOUT)
    rep.add_tlc("c17_records", stv)
    per = {}
    for r_ in recs:
        per[r_["fn"]] = per.get(r_["fn"], 0) + 1
    # records that bind the stated property (smooth / axis); the get_smoother records are counted apart
    rep.add_traces(per.get("smooth", 0) + per.get("axis", 0))
    if exact and min(per.get(f, 0) for f in ("smooth", "axis", "getsm")) == 0:
        raise MachineryError(f"record classes missing: {per}")
    if exact and not any(r_["fn"] == "smooth" and "outi" in r_ for r_ in recs):
        raise MachineryError("no smooth record with complex data")
    rep.part("records", per_class=per, built_by={h: sum(1 for r_ in recs if r_.get("built") == h) for h in sorted({r_.get("built") for r_ in recs if r_.get("built")})},
             complex_smooth_records=sum(1 for r_ in recs if "outi" in r_),
             get_smoother_records_not_counted_as_traces=per.get("getsm", 0))
    for idx, clauses in bad.items():
        r_ = recs[idx]
        if r_["fn"] == "smooth":
            real = np.array(r_["out"], dtype=float) / r_["D"]
            fs = tuple(r_["shape"]) + (3,) * r_["rank"]
            key = "EnergyResult.dataSmooth:" + classify_smooth(real.reshape(fs), tuple(r_["shape"]), r_["rank"], r_["data"], r_["smo"])
        elif r_["fn"] == "axis":
            key = "AbstractSmoother.__call__:" + "+".join(sorted(clauses))
        else:
            key = "get_smoother:returned_smoother_acts_wrongly"
        found.add(key, dict(record=r_, call=aux.get(idx), failing_clauses=clauses, how="recorded real outputs (out = value * D) evaluated by TLC with ResultAlgRec.tla"))
    rep.sample(recs[0])
    found.flush(rep)
    # binding self-test
    if exact:
        cor = copy.deepcopy([r_ for r_ in recs if r_["fn"] == "axis"][:1] + [r_ for r_ in recs if r_["fn"] == "smooth"][:1])
        cor[0]["sx"][0] += 1
        cor[1]["out"][0] += 1
        _, b2 = ftable.validate_records("ResultAlgRec.tla", REC_CFG, cor, runs.name("c17_selftest"), timeout=TLC_TIMEOUT)
        if "axis_equals_spec" not in b2.get(0, []) or "smooth_equals_spec" not in b2.get(1, []):
            raise MachineryError("binding self-test failed: corrupted smoother record accepted")
        rep.part("binding_selftest", corrupted_records_rejected={"axis": b2[0], "smooth": b2[1]})

    # ---------------- numeric_only: the real Fermi-Dirac / Gaussian smoothers as black boxes (response matrix)
    nnum, numdev, smtdev, smt_seen = 0, 0.0, 0.0, 0
    NTOL = TOL * 10
    for trial in range(300 if thorough else 60):
        ne = rng.choice([2, 3, 5, 11, 30])
        e0, de = rng.uniform(-2, 2), rng.choice([0.01, 0.05, 0.1, 0.25])
        energy = e0 + de * np.arange(ne)
        fd = rng.random() < 0.5
        par = rng.choice([30., 100., 300., 1000., 3000.]) if fd else rng.choice([0.004, 0.02, 0.06, 0.2, 1.0])
        other = rng.choice([(), (2,), (3,), (2, 3)])
        pos = rng.randint(0, len(other))
        fs = other[:pos] + (ne,) + other[pos:]
        A = nprng.integers(-8, 9, size=fs).astype(float)
        B = nprng.integers(-8, 9, size=fs).astype(float)
        det = dict(numeric_only=True, smoother="FermiDiracSmoother" if fd else "GaussianSmoother", energy=energy.tolist(), parameter=par, full_shape=fs,
                   axis=pos, A=A.reshape(-1).tolist())
        ok, sm = found.call("smoother constructor", det, lambda: (FermiDiracSmoother if fd else GaussianSmoother)(energy, par))
        if not ok:
            continue
        ok, M = found.call("smoother(one-hot arrays)", det, lambda: np.asarray(RA.response_matrix(sm, ne)))
        if not ok:
            continue
        nnum += 1
        rep.case(("numeric", trial), nontrivial=not np.array_equal(M, np.eye(ne)))
        if M.shape != (ne, ne) or not np.all(np.isfinite(M)):
            found.add(f"{det['smoother']}.__call__:response_not_finite", dict(det, response=str(M)[:300]))
            continue
        ok, outs = found.call("smoother(A, axis)", det, lambda: [np.asarray(sm(A, axis=pos)), np.asarray(sm(A + 1j * B, axis=pos)),
                                                                  np.asarray(sm(np.full(fs, 3.0), axis=pos))])
        if not ok:
            continue
        devs = dict(constant_rows=float(np.abs(M.sum(axis=1) - 1).max()),
                    constant=dev_of(outs[2], np.full(fs, 3.0)),
                    linear_along_axis=dev_of(outs[0], apply_matrix(M, A, pos)),
                    complex_data=dev_of(outs[1], apply_matrix(M, A, pos) + 1j * apply_matrix(M, B, pos)))
        for name, d in devs.items():
            numdev = max(numdev, float(d) if d < 1 else 0.0)
            if d > NTOL:
                found.add(f"{det['smoother']}.__call__:{name}", dict(det, deviation=float(d)))
        # information only: the cut-and-renormalise formula of the specification with the smoother's own kernel array (private)
        try:
            smt = np.asarray(sm.smt, dtype=float)
            if len(smt) == 2 * int(sm.NE1) + 1:
                smt_seen += 1
                smtdev = max(smtdev, dev_of(outs[0], RA.smooth_axis_py(list(smt), fs, A, pos)))
        except Exception:
            skipped["smoother.smt/NE1"] = "not readable: the comparison with the specified formula fed with the smoother's own kernel is skipped"
    # a real two-axis result with a Fermi-Dirac and a Gaussian smoother
    EnergyResult, _, _, _, ps = RA.wb()
    for trial in range(20 if thorough else 6):
        n1, n2 = rng.randint(2, 6), rng.randint(2, 6)
        E1, E2 = 0.1 * np.arange(n1), 0.05 * np.arange(n2)
        p1, p2 = rng.choice([300., 1200.]), rng.choice([0.03, 0.08])
        rank = rng.choice([0, 1])
        fs = (n1, n2) + (3,) * rank
        A = nprng.integers(-8, 9, size=fs).astype(float)
        if trial % 2:
            A = A + 1j * nprng.integers(-8, 9, size=fs)
        det = dict(numeric_only=True, E1=E1.tolist(), E2=E2.tolist(), smoothers=[f"get_smoother(E1, {p1}, 'Fermi-Dirac')", f"get_smoother(E2, {p2}, 'Gaussian')"],
                   rank=rank, data=[str(v) for v in A.reshape(-1)])

        def two_axes():
            s1, s2 = get_smoother(E1, p1, "Fermi-Dirac"), get_smoother(E2, p2, "Gaussian")
            M1, M2 = np.asarray(RA.response_matrix(s1, n1)), np.asarray(RA.response_matrix(s2, n2))
            res = EnergyResult([E1, E2], A.copy(), smoothers=[s1, s2], transformTR=ps.Transform(), transformInv=ps.Transform(), rank=rank)
            return M1, M2, np.asarray(res.dataSmooth)
        ok, trip = found.call("EnergyResult.dataSmooth with get_smoother smoothers", det, two_axes)
        if not ok:
            continue
        M1, M2, got = trip
        nnum += 1
        rep.case(("numeric2", trial))
        exp = apply_matrix(M1, apply_matrix(M2, A, 1), 0)
        d = dev_of(got, exp)
        if d > NTOL:
            key = "only_the_axis0_smoother_applied" if dev_of(got, apply_matrix(M1, A, 0)) <= NTOL else "wrong_values"
            found.add("EnergyResult.dataSmooth:" + key, dict(det, deviation=d))
        else:
            numdev = max(numdev, d)
    rep.part("numeric_only", cases=nnum, tolerance=NTOL, max_deviation_observed=numdev,
             what="FermiDiracSmoother / GaussianSmoother as black boxes: response matrix M[:, j] = sm(e_j); rows of M sum to 1, constants preserved, "
                  "sm(A, axis) = M along the axis (real and complex A), two-axis dataSmooth = M1, M2 applied. The kernels themselves are not checked.",
             information_only=dict(cases_with_readable_smt=smt_seen, max_deviation_from_specified_formula_with_own_smt=smtdev))

    # ---------------- observations, outside the specified domain
    def tell(name, f):
        try:
            rep.part("observations", **{name: f()})
        except Exception as ex:
            rep.part("observations", **{name: f"raises {type(ex).__name__}: {ex}"})
    if exact:
        # float / complex data only: integer-typed arrays are truncated by res = zeros(dtype=A.dtype)
        tell("smoother_on_integer_dtype_array", lambda: (lambda o: f"returns {o.tolist()} (dtype {o.dtype}); exact value [1/2, 1/3, 1/2]")(
            RA.int_kernel_smoother([1, 1, 1], 3)(np.array([0, 1, 0]), axis=0)))
    # AscendingGrid: a descending equidistant grid
    with np.errstate(all="ignore"):
      tell("descending_energy_grid", lambda: (lambda o: f"get_smoother(E[::-1], 0.1, 'Gaussian')([0,1,0,0]) returns {np.asarray(o).tolist()}")(
        get_smoother((0.1 * np.arange(4))[::-1].copy(), 0.1, "Gaussian")(np.array([0., 1., 0., 0.]))))
    desc_recs = [r_ for r_ in recs if r_["fn"] == "getsm" and r_["dEsign"] < 0]
    if desc_recs:
        rep.part("observations", descending_grid_records={g: sum(1 for r_ in desc_recs if r_["got"] == g) for g in sorted({r_["got"] for r_ in desc_recs})})
    if skipped:
        rep.part("skipped_private", **skipped)
    found.flush(rep)
    return rep.finish()
