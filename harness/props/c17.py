"""C17: energy smoothing applies every axis smoother.

spec  : ResultAlg.tla (SmoothAxis = AbstractSmoother.__call__ in exact rationals: kernel cut at the array ends and
        re-normalised row by row; SmoothAll = composition over the energy axes), MC_ResultAlgAxis.tla (one smoother along
        one axis: linear, constant preserving, along the axis only), MC_ResultAlgSmooth.tla (EnergyResult.dataSmooth as the
        loop of the code with its cached_property cache and add(), against SmoothAll, order independence, Void identity)
bind  : spec -> code: every TLC state is replayed: the real AbstractSmoother.__call__ (through a subclass whose _broaden
        returns the integer kernel of the spec) and the real EnergyResult.dataSmooth / add() sequences, compared with the
        rational values of the specification (tolerance 1e-9 on values of magnitude <= 10, observed deviation <= 1e-15)
        code -> spec: recorded real smoothing results on random integer data (scaled to integers by the common
        denominator, integrality verified) and get_smoother answers, every clause evaluated by TLC (ResultAlgRec.tla)
        numeric_only: real FermiDiracSmoother / GaussianSmoother against the Python transcription of SmoothAxis (itself
        checked exactly against TLC on every replayed state) fed with their own kernel arrays
"""
import os
import copy
import math
import random
from fractions import Fraction

import numpy as np

from .. import tlc, ftable
from ..common import Report, MachineryError, seed
from . import _resultalg as RA

PROPS = {
    "C17": dict(level="model_checking",
                technique="TLC exhaustive on ResultAlg.tla smoothing operators (MC_ResultAlgAxis: every kernel / shape / axis / unit and dense "
                          "integer array; MC_ResultAlgSmooth: dataSmooth loop + cache + add() for every shape, rank, smoother assignment) + "
                          "replay of every TLC state on the real AbstractSmoother.__call__ and EnergyResult.dataSmooth + TLC validation of "
                          "recorded smoothing results",
                text="TLC checks in exact rationals that the loop of dataSmooth yields the composition of all axis smoothers, independent of "
                     "the order, identity without smoothers, still true after add(), and that each smoother is linear, constant preserving and "
                     "acts along its axis only; every state is executed on the real classes (integer-kernel subclass of AbstractSmoother, real "
                     "EnergyResult) and compared to 1e-9; random real results are validated clause by clause by TLC; the real Fermi-Dirac and "
                     "Gaussian smoothers are compared numerically with the specified operator fed with their own kernels.",
                note="kernels are symmetric positive integer arrays (the weight of A[j] in res[i] is smt[NE1 + j - i], as in the code); energy "
                     "grids are equidistant; the Fermi-Dirac / Gaussian part is numeric_only",
                ref="DESIGN.md 3.6"),
}

BASE = "  InitStores <- SNone\n  Scalars <- SNone\n  Divisors <- SNone\n  Syms <- SNone\n  ActSyms <- SNone\n  MaxOps = 0\n"
REC_CFG = ("SPECIFICATION RecSpec\nCONSTANTS\n  Wrong = {}\n  InitStores <- RecSeq\n  Scalars <- RecNone\n  Divisors <- RecNone\n"
           "  Syms <- RecSeq\n  ActSyms <- RecNone\n  MaxOps = 0\nINVARIANT Report\nCHECK_DEADLOCK FALSE\n")
TOL = 1e-9
SMOOTH_INVS = ["SmoothObserved", "CacheFresh", "OrderIndependent", "VoidIdentity", "SmoothLinear"]
AXIS_INVS = ["Linear", "ConstantPreserved", "AlongAxisOnly", "UnitKernelIdentity", "RowsNormalised"]


def scfg(wrong=(), shapes="ShapesA", ranks=(0, 1), kernels="KernelsA", maxadds=1):
    return ("SPECIFICATION Spec17\nCONSTANTS\n" + "  Wrong = {" + ", ".join(f'"{w}"' for w in wrong) + "}\n" + BASE +
            f"  Shapes <- {shapes}\n  Ranks = {{{', '.join(map(str, ranks))}}}\n  Kernels <- {kernels}\n  MaxAdds = {maxadds}\n"
            + "".join(f"INVARIANT {i}\n" for i in SMOOTH_INVS) + "CHECK_DEADLOCK FALSE\n")


def acfg(shapes="FullShapesA", kernels="KernelsA"):
    return ("SPECIFICATION Spec17\nCONSTANTS\n  Wrong = {}\n" + BASE + f"  FullShapes <- {shapes}\n  Kernels <- {kernels}\n"
            + "".join(f"INVARIANT {i}\n" for i in AXIS_INVS) + "CHECK_DEADLOCK FALSE\n")


def rat_to_float(seq):
    return np.array([x[0] / x[1] for x in seq], dtype=float)


def rat_to_frac(seq):
    return [Fraction(x[0], x[1]) for x in seq]


def make_result(shape, rank, data, smo, energies=None):
    EnergyResult, KBandResult, ResultDict, VoidResult, ps = RA.wb()
    fs = tuple(shape) + (3,) * rank
    sm = [RA.int_kernel_smoother(k, n) for k, n in zip(smo, shape)]
    ident = ps.Transform()
    return EnergyResult([np.arange(n, dtype=float) for n in shape], np.array(data, dtype=float).reshape(fs), smoothers=sm,
                        transformTR=ident, transformInv=ident, rank=rank)


def row_sums(kernel, ne):
    h = (len(kernel) - 1) // 2
    return [sum(kernel[h + j - i] for j in range(max(0, i - h), min(ne, i + h + 1))) for i in range(ne)]


def common_den(smo, shape):
    D = 1
    for k, n in zip(smo, shape):
        if len(k):
            D *= math.lcm(*row_sums(k, n))
    return D


def scaled_ints(arr, D):
    v = np.asarray(arr, dtype=float).reshape(-1) * D
    r = np.rint(v)
    if v.size and np.abs(v - r).max() > 1e-6:
        raise RA.NonIntegral(f"value * {D} is not integral: {v[:6]}")
    return [int(x) for x in r]


class Found:
    def __init__(self):
        self.found = {}

    def add(self, key, detail):
        if key in self.found:
            self.found[key][0] += 1
        else:
            self.found[key] = [1, detail]

    def flush(self, rep):
        for key, (n, det) in sorted(self.found.items()):
            rep.violation(key, dict(det, occurrences=n))


def classify_smooth(real, shape, rank, data, smo):
    """which wrong implementation explains a wrong dataSmooth (only used to name the violation)"""
    fs = tuple(shape) + (3,) * rank
    raw = np.array(data, dtype=float).reshape(fs)
    only0 = RA.smooth_axis_py(list(smo[0]), fs, raw, 0) if len(smo[0]) else raw
    if np.abs(np.asarray(real) - only0).max() <= TOL:
        return "only_the_axis0_smoother_applied"
    return "wrong_values"


def check(pid, tier):
    rep = Report(pid, tier, "model_checking")
    thorough = tier == "thorough"
    rng = random.Random(seed() * 7919 + 17)
    nprng = np.random.default_rng(seed() * 7919 + 17)
    workers = int(os.environ.get("VERIF_TLC_WORKERS", "16"))
    found = Found()
    rep.rule("a case = one TLC state replayed on the real code: (kernel, array shape, axis, integer array) on AbstractSmoother.__call__, or "
             "(energy shape, rank, smoother per axis, integer data, read/add sequence) on EnergyResult.dataSmooth; plus seeded random "
             "recorded results validated by TLC; distinct by input")
    rep.assume("kernels are positive symmetric integer arrays on equidistant energy grids with at least two points (one-point axes get the "
               "VoidSmoother, as get_smoother does); data are small integers: float results are exact to ~1e-15, compared with 1e-9")
    RA.wb()
    from wannierberri.smoother import VoidSmoother, FermiDiracSmoother, GaussianSmoother, get_smoother

    # ---------------- one smoother along one axis
    st = ftable.enumerate_states("MC_ResultAlgAxis.tla", acfg("FullShapesB", "KernelsB") if thorough else acfg(), "c17_axis", workers=workers, timeout=3000)
    ftable.spec_violation(rep, st, "c17_axis")
    rep.add_tlc("c17_axis", st)
    states = RA.fast_parse_dump(st["dump_path"])
    if len(states) != st["distinct"] or not states:
        raise MachineryError(f"c17_axis: dump has {len(states)} states, TLC reported {st['distinct']}")
    maxdev = 0.0
    naxis = 0
    for s in states:
        fs, k, a, x = tuple(s["fs"]), list(s["k"]), s["a"] - 1, s["x"]
        exp = rat_to_float(s["sx"]).reshape(fs)
        # the Python transcription of the specification must agree exactly with TLC
        mirror = RA.smooth_axis_py(k, fs, RA.frac_array(x, fs), a)
        if [Fraction(v) for v in mirror.reshape(-1)] != rat_to_frac(s["sx"]):
            raise MachineryError(f"Python transcription of SmoothAxis disagrees with TLC for {fs, k, a}")
        sm = RA.int_kernel_smoother(k, fs[a])
        arr = np.array(x, dtype=float).reshape(fs)
        got = sm(arr, axis=a)
        rep.case(("axis", fs, tuple(k), a, tuple(x)), nontrivial=len(k) > 1)
        naxis += 1
        dev = float(np.abs(got - exp).max()) if got.shape == exp.shape else float("inf")
        maxdev = max(maxdev, dev if dev < 1 else 0.0)
        if dev > TOL:
            found.add("AbstractSmoother.__call__:wrong_values", dict(full_shape=fs, kernel=k, axis=a, x=list(x), expected=exp.reshape(-1).tolist(),
                                                                     got=np.asarray(got).reshape(-1).tolist()))
        if naxis <= 2:
            rep.sample(dict(fn="AbstractSmoother.__call__", full_shape=fs, kernel=k, axis=a, x=list(x), expected=[list(v) for v in s["sx"]]))
    os.remove(st["dump_path"])

    # ---------------- dataSmooth: loop, cache, add()
    cfg = scfg(shapes="ShapesB", ranks=(0, 1), kernels="KernelsA", maxadds=1) if thorough else scfg(kernels="KernelsQ")
    st = ftable.enumerate_states("MC_ResultAlgSmooth.tla", cfg, "c17_smooth", workers=workers, timeout=3000)
    ftable.spec_violation(rep, st, "c17_smooth")
    tlc.check_not_vacuous(st, ["ReadCached", "ReadStart", "LoopStep", "LoopEnd", "AddInPlaceData"], "c17_smooth")
    rep.add_tlc("c17_smooth", st)
    states = RA.fast_parse_dump(st["dump_path"])
    if len(states) != st["distinct"]:
        raise MachineryError(f"c17_smooth: dump has {len(states)} states, TLC reported {st['distinct']}")
    classes = {}
    for s in states:
        if s["pc"] != "idle" or s["obs"] == () or not s["log"] or s["log"][-1] != "read":
            continue
        shape, rank, smo, log = tuple(s["shape"]), s["rank"], [list(k) for k in s["smo"]], list(s["log"])
        fs = shape + (3,) * rank
        # data at the start of the behaviour = current data minus the added array for every add in the log
        nadd = log.count("add")
        data0 = [d - nadd * bb for d, bb in zip(s["data"], s["b"])]
        r = make_result(shape, rank, data0, smo)
        other = make_result(shape, rank, s["b"], smo)
        reads = []
        for op in log:
            if op == "read":
                reads.append(np.array(r.dataSmooth, dtype=float, copy=True))
            else:
                r.add(other)
        exp = rat_to_float(s["obs"][0]).reshape(fs)
        got = reads[-1]
        cls = ("two_axes" if sum(1 for k in smo if len(k)) >= 2 else "one_axis" if any(len(k) for k in smo) else "void") + \
              ("+add_after_read" if "add" in log and log.index("add") > 0 else "+add" if "add" in log else "")
        classes[cls] = classes.get(cls, 0) + 1
        rep.case(("smooth", shape, rank, tuple(map(tuple, smo)), tuple(data0), tuple(log)), nontrivial=any(len(k) > 1 for k in smo))
        dev = float(np.abs(got - exp).max()) if got.shape == exp.shape else float("inf")
        if dev <= TOL:
            maxdev = max(maxdev, dev)
            continue
        det = dict(energy_shape=shape, rank=rank, smoothers=smo, data=data0, added=list(s["b"]) if nadd else None, sequence=log,
                   expected=exp.reshape(-1).tolist(), got=got.reshape(-1).tolist(), max_deviation=dev,
                   how="EnergyResult(Energies=[arange(n)..], data, smoothers=[integer-kernel AbstractSmoother subclass per axis]); 'read' = .dataSmooth, 'add' = .add(other)")
        last_add = max((i for i, op in enumerate(log) if op == "add"), default=-1)
        nbefore = log[:last_add].count("read") if last_add >= 0 else 0          # reads made before the last add()
        if nbefore and any(s["b"]) and any(np.array_equal(reads[-1], r0) for r0 in reads[:nbefore]):
            found.add("EnergyResult.dataSmooth:stale_after_add", det)
        else:
            found.add("EnergyResult.dataSmooth:" + classify_smooth(got, shape, rank, s["data"], smo), det)
    for need in ("two_axes", "one_axis", "void", "two_axes+add_after_read", "one_axis+add"):
        if not classes.get(need):
            raise MachineryError(f"c17_smooth: no replayed case of class {need}: {classes}")
    rep.part("c17_smooth", replayed_per_class=classes)
    rep.part("c17_axis", replayed=naxis, max_deviation_observed=maxdev)
    os.remove(st["dump_path"])

    # ---------------- sensitivity: the plausible wrong implementations must be rejected by TLC
    sens = {}
    for wrong in ("selfdata", "stalecache"):
        st0 = tlc.run_tlc("MC_ResultAlgSmooth.tla", scfg(wrong=(wrong,), shapes="ShapesW", ranks=(0,)), f"c17_wrong_{wrong}", workers=4, timeout=900)
        if not st0.get("violation"):
            raise MachineryError(f"sensitivity self-test failed: MC_ResultAlgSmooth with Wrong={{{wrong}}} should violate an invariant")
        sens[wrong] = st0["violation"][1]
    rep.part("sensitivity", rejected=sens)

    # ---------------- code -> spec : recorded results
    KCAT = [[], [1], [1, 2, 1], [1, 1, 1], [1, 2, 4, 2, 1], [1, 3, 1], [2, 3, 5, 3, 2], [1, 1, 2, 3, 2, 1, 1]]
    recs = []
    nrec = 500 if thorough else 120
    while len(recs) < nrec:
        r_ = rng.random()
        if r_ < 0.45:
            nax = rng.choice([1, 2, 2, 2, 3])
            shape = tuple(rng.randint(1, 5) for _ in range(nax))
            rank = rng.choice([0, 0, 1, 2]) if nax < 3 else 0
            smo = [rng.choice(KCAT) if n >= 2 else [] for n in shape]
            D = common_den(smo, shape)
            if D * 20 >= 2 ** 31 or int(np.prod(shape)) * 3 ** rank > 80:
                continue
            data = [rng.randint(-9, 9) for _ in range(int(np.prod(shape)) * 3 ** rank)]
            # the result is built directly or comes out of +, * or transform (which have to carry the smoothers along)
            how = rng.choice(["plain", "plain", "sum", "scaled", "transformed"])
            if how == "sum":
                part = [rng.randint(-9, 9) for _ in data]
                res = make_result(shape, rank, part, smo) + make_result(shape, rank, [d - q for d, q in zip(data, part)], smo)
            elif how == "scaled":
                data = [2 * d for d in data]
                res = make_result(shape, rank, [d // 2 for d in data], smo) * 2
            elif how == "transformed":
                res = make_result(shape, rank, data, smo).transform(RA.real_syms()["Identity"])
            else:
                res = make_result(shape, rank, data, smo)
            try:
                out = scaled_ints(res.dataSmooth, D)
            except RA.NonIntegral as ex:
                found.add("EnergyResult.dataSmooth:non-integral projection", dict(energy_shape=shape, rank=rank, smoothers=smo, data=data, got=str(ex)))
                continue
            recs.append(dict(fn="smooth", shape=list(shape), rank=rank, smo=smo, data=data, D=D, out=out, built=how))
        elif r_ < 0.85:
            fs = tuple(rng.randint(1, 5) for _ in range(rng.randint(1, 3)))
            cand = [a for a in range(len(fs)) if fs[a] >= 2]
            if not cand or int(np.prod(fs)) > 60:
                continue
            a = rng.choice(cand)
            k = rng.choice(KCAT[1:])
            D = math.lcm(*row_sums(k, fs[a]))
            n = int(np.prod(fs))
            x = [rng.randint(-9, 9) for _ in range(n)]
            y = [rng.randint(-9, 9) for _ in range(n)]
            c = rng.choice([-5, 1, 7])
            sm = RA.int_kernel_smoother(k, fs[a])
            ax = np.array(x, dtype=float).reshape(fs)
            ay = np.array(y, dtype=float).reshape(fs)
            try:
                recs.append(dict(fn="axis", fs=list(fs), a=a + 1, k=k, D=D, x=x, y=y, c=c, sx=scaled_ints(sm(ax, axis=a), D),
                                 sy=scaled_ints(sm(ay, axis=a), D), sxy=scaled_ints(sm(ax + ay, axis=a), D),
                                 s2x=scaled_ints(sm(2 * ax, axis=a), D), sc=scaled_ints(sm(np.full(fs, float(c)), axis=a), D)))
            except RA.NonIntegral as ex:
                found.add("AbstractSmoother.__call__:non-integral projection", dict(full_shape=fs, kernel=k, axis=a, x=x, got=str(ex)))
                continue
        else:
            hasE = rng.random() < 0.85
            ne = rng.choice([0, 1, 2, 3, 7])
            smear = rng.choice(["none", "nonpos", "pos"])
            mode = rng.choice(["None", "Fermi-Dirac", "Gaussian", "Lorentzian"])
            energy = np.linspace(-1., 1., ne) if hasE else None
            sval = None if smear == "none" else rng.choice([0., -3.]) if smear == "nonpos" else rng.choice([50., 300., 0.2])
            try:
                got = type(get_smoother(energy, sval, None if mode == "None" else mode)).__name__
            except ValueError:
                got = "ValueError"
            except Exception as ex:
                got = type(ex).__name__
            recs.append(dict(fn="getsm", hasE=hasE, ne=ne, smear=smear, mode=mode, got=got))
        rep.case(("rec", len(recs), recs[-1]["fn"]))
    stv, bad = ftable.validate_records("ResultAlgRec.tla", REC_CFG, recs, "c17")
    rep.add_tlc("c17_records", stv)
    rep.add_traces(len(recs))
    per = {}
    for r_ in recs:
        per[r_["fn"]] = per.get(r_["fn"], 0) + 1
    if min(per.get(f, 0) for f in ("smooth", "axis", "getsm")) == 0:
        raise MachineryError(f"record classes missing: {per}")
    rep.part("records", per_class=per)
    for idx, clauses in bad.items():
        r_ = recs[idx]
        if r_["fn"] == "smooth":
            real = np.array(r_["out"], dtype=float) / r_["D"]
            fs = tuple(r_["shape"]) + (3,) * r_["rank"]
            key = "EnergyResult.dataSmooth:" + classify_smooth(real.reshape(fs), tuple(r_["shape"]), r_["rank"], r_["data"], r_["smo"])
        elif r_["fn"] == "axis":
            key = "AbstractSmoother.__call__:" + "+".join(sorted(clauses))
        else:
            key = "get_smoother:wrong_class"
        found.add(key, dict(record=r_, failing_clauses=clauses, how="recorded real outputs (out = value * D) evaluated by TLC with ResultAlgRec.tla"))
    rep.sample(recs[0])
    # binding self-test
    cor = copy.deepcopy([r_ for r_ in recs if r_["fn"] == "axis"][:1])
    cor[0]["sx"][0] += 1
    _, b2 = ftable.validate_records("ResultAlgRec.tla", REC_CFG, cor, "c17_selftest")
    if 0 not in b2 or "axis_equals_spec" not in b2[0]:
        raise MachineryError("binding self-test failed: corrupted smoother record accepted")
    rep.part("binding_selftest", corrupted_record_rejected=b2[0])

    # ---------------- numeric_only: the real Fermi-Dirac / Gaussian smoothers against the specified operator with their own kernels
    nnum, numdev = 0, 0.0
    for trial in range(300 if thorough else 60):
        ne = rng.choice([2, 3, 5, 11, 30])
        e0, de = rng.uniform(-2, 2), rng.choice([0.01, 0.05, 0.1, 0.25])
        energy = e0 + de * np.arange(ne)
        if rng.random() < 0.5:
            sm = FermiDiracSmoother(energy, rng.choice([30., 100., 300., 1000., 3000.]))
        else:
            sm = GaussianSmoother(energy, rng.choice([0.004, 0.02, 0.06, 0.2, 1.0]))
        if len(sm.smt) != 2 * sm.NE1 + 1:
            found.add(type(sm).__name__ + ":kernel_length", dict(NE1=int(sm.NE1), len_smt=len(sm.smt)))
            continue
        other = rng.choice([(), (2,), (3,), (2, 3)])
        pos = rng.randint(0, len(other))
        fs = other[:pos] + (ne,) + other[pos:]
        A = nprng.integers(-8, 9, size=fs).astype(float)
        B = nprng.integers(-8, 9, size=fs).astype(float)
        exp = RA.smooth_axis_py(list(sm.smt), fs, A, pos)
        got = sm(A, axis=pos)
        devs = dict(equals_spec=np.abs(got - exp).max(),
                    linear=np.abs(sm(A + 2 * B, axis=pos) - (got + 2 * sm(B, axis=pos))).max(),
                    constant=np.abs(sm(np.full(fs, 3.0), axis=pos) - 3.0).max())
        if len(fs) > 1:    # along the axis only: each line on its own
            idx = tuple(rng.randrange(n) if ax_ != pos else slice(None) for ax_, n in enumerate(fs))
            devs["along_axis"] = np.abs(got[idx] - sm(A[idx], axis=0)).max()
        nnum += 1
        rep.case(("numeric", trial), nontrivial=sm.NE1 > 0)
        for name, d in devs.items():
            numdev = max(numdev, float(d) if d < 1 else 0.0)
            if d > TOL * 10:
                found.add(f"{type(sm).__name__}.__call__:{name}", dict(energy=energy.tolist(), smear=float(sm.smear), NE1=int(sm.NE1), full_shape=fs, axis=pos,
                                                                        A=A.reshape(-1).tolist(), deviation=float(d)))
    # a real two-axis result with a Fermi-Dirac and a Gaussian smoother
    EnergyResult, _, _, _, ps = RA.wb()
    for trial in range(20 if thorough else 6):
        n1, n2 = rng.randint(2, 6), rng.randint(2, 6)
        E1, E2 = 0.1 * np.arange(n1), 0.05 * np.arange(n2)
        s1, s2 = get_smoother(E1, rng.choice([300., 1200.]), "Fermi-Dirac"), get_smoother(E2, rng.choice([0.03, 0.08]), "Gaussian")
        rank = rng.choice([0, 1])
        fs = (n1, n2) + (3,) * rank
        A = nprng.integers(-8, 9, size=fs).astype(float)
        res = EnergyResult([E1, E2], A, smoothers=[s1, s2], transformTR=ps.Transform(), transformInv=ps.Transform(), rank=rank)
        exp = RA.smooth_axis_py(list(s1.smt), fs, RA.smooth_axis_py(list(s2.smt), fs, A, 1), 0)
        got = np.asarray(res.dataSmooth)
        nnum += 1
        rep.case(("numeric2", trial))
        d = float(np.abs(got - exp).max())
        if d > TOL * 10:
            only0 = RA.smooth_axis_py(list(s1.smt), fs, A, 0)
            key = "only_the_axis0_smoother_applied" if np.abs(got - only0).max() <= TOL * 10 else "wrong_values"
            found.add("EnergyResult.dataSmooth:" + key, dict(numeric_only=True, E1=E1.tolist(), E2=E2.tolist(), smoothers=[str(s1), str(s2)], rank=rank,
                                                             data=A.reshape(-1).tolist(), deviation=d))
        else:
            numdev = max(numdev, d)
    rep.part("numeric_only", cases=nnum, tolerance=TOL * 10, max_deviation_observed=numdev,
             what="FermiDiracSmoother / GaussianSmoother __call__ vs SmoothAxis with their own smt; linear, constant, along-axis; two-axis dataSmooth")
    # observation, outside the specified domain (float data): integer-typed arrays are truncated by res = zeros(dtype=A.dtype)
    try:
        o = RA.int_kernel_smoother([1, 1, 1], 3)(np.array([0, 1, 0]), axis=0)
        rep.part("observations", smoother_on_integer_dtype_array=f"returns {o.tolist()} (dtype {o.dtype}); exact value [1/2, 1/3, 1/2]")
    except Exception as ex:
        rep.part("observations", smoother_on_integer_dtype_array=f"raises {type(ex).__name__}")

    found.flush(rep)
    return rep.finish()
