"""X02 helpers: real System_R / Rvectors objects from the records of SysOrder.tla and back, the real operations named like
the actions of MC_SysOrder, seeded random exact systems (no property registered here)."""
import io
import math
import os
import shutil
import warnings
import contextlib

import numpy as np

from ..common import MachineryError, WORK

ENVIRONMENT_ERRORS = (OSError, MemoryError, TimeoutError, ImportError, RecursionError, KeyboardInterrupt, MachineryError)
CU = 4                                  # centres / shifts in quarters
LATTICES = [np.eye(3), np.array([[1.0, 0, 0], [0.5, 1.5, 0], [0, 0.25, 2.0]]), np.array([[2.0, 0, 0], [0, 1.0, 0], [0, 0, 0.5]])]
KS = [(0, 0, 0), (1, 2, 0), (2, 1, 3)]  # MC_SysOrder.KS (quarters)
AXES = {"z": (0, 0, 1), "x2": (2, 0, 0), "my3": (0, -3, 0)}
MINVALS = {"h1": {"Ham": 1}, "h3": {"Ham": 3}, "h9": {"Ham": 9}, "hs": {"Ham": 1, "SS": 1}}
NCOMP = {"Ham": 1, "SS": 3}


class NotExact(Exception):
    """a number of the real object is not the integer / quarter the exact model needs"""


class Scratch:
    """names of the TLC runs / record batches of one check run (property id + process id); removed by cleanup()"""

    def __init__(self, pid, tier):
        self.tag = f"{pid.lower()}_{tier}_{os.getpid()}"
        self.tlc_names, self.rec_names = [], []

    def tlc(self, name):
        n = f"{self.tag}_{name}"
        self.tlc_names.append(n)
        return n

    def rec(self, name):
        n = f"{self.tag}_{name}"
        self.rec_names.append(n)
        return n

    def cleanup(self):
        import glob
        for n in self.tlc_names:
            shutil.rmtree(os.path.join(WORK, "tlc", n), ignore_errors=True)
        for n in self.rec_names:
            shutil.rmtree(os.path.join(WORK, "records", n), ignore_errors=True)
            for d in glob.glob(os.path.join(WORK, "tlc", f"rec_{n}_*")):
                shutil.rmtree(d, ignore_errors=True)


def library_site(ex):
    """"module.function" if the exception was raised inside the wannierberri package, None if at the harness's call site"""
    if isinstance(ex, ENVIRONMENT_ERRORS):
        raise ex
    from ..main import raised_by_code_under_test
    return raised_by_code_under_test(ex)


class Guard:
    """wraps the public calls under test: an exception raised inside the package becomes the violation raises:<site>:<Type>
    (once per key with the first input, the rest counted), one raised at the harness's own call site a recorded skip"""

    def __init__(self, rep, cap=2):
        self.rep, self.cap = rep, cap
        self.count = {}
        self.skipped = {}

    def violation(self, key, detail):
        self.count[key] = self.count.get(key, 0) + 1
        if self.count[key] <= self.cap:
            self.rep.violation(key, detail)

    def call(self, site, detail, fn, *a, **kw):
        """-> (True, value, warnings) or (False, None, [])"""
        try:
            with warnings.catch_warnings(record=True) as w, contextlib.redirect_stdout(io.StringIO()):
                warnings.simplefilter("always")
                v = fn(*a, **kw)
            return True, v, [str(x.message) for x in w]
        except NotExact as ex:
            # the real object holds a number the exact model cannot hold (not a Gaussian integer / quarter): an exact input went in
            self.violation(f"{site}:not_exact", dict(detail, problem=str(ex)))
            return False, None, []
        except Exception as ex:
            where = library_site(ex)
            if where is None:
                ent = self.skipped.setdefault(site, dict(count=0, error=f"{type(ex).__name__}: {ex}"[:300]))
                ent["count"] += 1
            else:
                self.violation(f"raises:{site}:{type(ex).__name__}", dict(detail, raised_in=where, error=f"{type(ex).__name__}: {ex}"[:400]))
            return False, None, []

    def refusal(self, fn, *a, **kw):
        """a call that is expected to be refused: -> exception class name or '' (any class is an answer)"""
        try:
            with warnings.catch_warnings(), contextlib.redirect_stdout(io.StringIO()):
                warnings.simplefilter("ignore")
                fn(*a, **kw)
            return ""
        except ENVIRONMENT_ERRORS:
            raise
        except Exception as ex:
            return type(ex).__name__


# --------------------------------------------------------------------------- numbers
def gint(z, what):
    z = complex(z)
    re, im = round(z.real), round(z.imag)
    if abs(z.real - re) > 1e-9 or abs(z.imag - im) > 1e-9:
        raise NotExact(f"{what}: {z} is not a Gaussian integer")
    return [int(re), int(im)]


def quarters(a, what):
    a = np.asarray(a, dtype=float) * CU
    r = np.rint(a)
    if a.size and np.max(np.abs(a - r)) > 1e-9:
        raise NotExact(f"{what}: not a multiple of 1/{CU}: {a.tolist()}")
    return r.astype(int).tolist()


def tensor_json(X, nc, what):
    """array (nR, nw, nw[, 3]) -> [r][a][b] = [[re, im], ..]"""
    X = np.asarray(X)
    if X.ndim == 3:
        X = X[..., None]
    if X.shape[3] != nc:
        raise NotExact(f"{what}: {X.shape[3]} Cartesian components instead of {nc}")
    R = np.rint(X.real)
    Im = np.rint(X.imag)
    if X.size and (np.max(np.abs(X.real - R)) > 1e-9 or np.max(np.abs(X.imag - Im)) > 1e-9):
        raise NotExact(f"{what}: not Gaussian integers")
    out = np.stack([R, Im], axis=-1).astype(int)
    return out.tolist()


def tensor_array(T, nc):
    """[r][a][b][c] = (re, im)  -> complex array (nR, nw, nw) for nc = 1, (nR, nw, nw, 3) otherwise"""
    A = np.array(T, dtype=float)
    Z = A[..., 0] + 1j * A[..., 1]
    return Z[..., 0] if nc == 1 else Z


def tup(x):
    if isinstance(x, (list, tuple)):
        return tuple(tup(y) for y in x)
    return x


def canon_sys(s):
    """parsed TLA+ system -> plain dict with lists"""
    mats = {k: lst(v) for k, v in dict(s["mats"]).items()}
    return dict(nw=int(s["nw"]), rv=lst(s["rv"]), cen=lst(s["cen"]), sl=lst(s["sl"]), sr=lst(s["sr"]), mats=mats)


def lst(x):
    if isinstance(x, (list, tuple)):
        return [lst(y) for y in x]
    return x


# --------------------------------------------------------------------------- real objects
def classes():
    from wannierberri.system.system_R import System_R
    from wannierberri.fourier.rvectors import Rvectors, merge_Rvectors
    return System_R, Rvectors, merge_Rvectors


def build(s, lattice, diag_path=False):
    """the real System_R of a specification system, built the way get_system_sparse does it but with the R-list in the
    specification's order.  diag_path: the on-site terms are set through set_R_mat(diag=True, add=True) (the documented way
    for model calculations) instead of being part of the full array."""
    System_R, Rvectors, _ = classes()
    with contextlib.redirect_stdout(io.StringIO()), warnings.catch_warnings():
        warnings.simplefilter("ignore")
        x = System_R()
        x.real_lattice = np.array(lattice, dtype=float)
        x.num_wann = s["nw"]
        x.set_wannier_centers(wannier_centers_red=np.array(s["cen"], dtype=float) / CU)
        x.rvec = Rvectors(lattice=x.real_lattice, iRvec=np.array(s["rv"], dtype=int).reshape(-1, 3), shifts_left_red=np.array(s["sl"], dtype=float) / CU)
        for k, T in s["mats"].items():
            A = tensor_array(T, NCOMP[k])
            if diag_path and k == "Ham" and [0, 0, 0] in s["rv"]:
                r0 = s["rv"].index([0, 0, 0])
                d = np.array([A[r0, a, a] for a in range(s["nw"])])
                A = A.copy()
                A[r0, range(s["nw"]), range(s["nw"])] = 0
                x.set_R_mat(k, A)
                x.set_R_mat(k, d, diag=True, add=True)
            else:
                x.set_R_mat(k, A)
        x.do_at_end_of_init()
    return x


def project(x):
    """real System_R -> specification system (public accessors only)"""
    nw = int(x.num_wann)
    rv = [[int(c) for c in R] for R in np.asarray(x.rvec.iRvec).reshape(-1, 3)]
    mats = {}
    for k in ("Ham", "SS"):
        if x.has_R_mat(k):
            mats[k] = tensor_json(x.get_R_mat(k), NCOMP[k], k)
    return dict(nw=nw, rv=rv, cen=quarters(x.wannier_centers_red, "wannier_centers_red"),
                sl=quarters(x.rvec.shifts_left_red, "shifts_left_red"), sr=quarters(x.rvec.shifts_right_red, "shifts_right_red"), mats=mats)


def as_function(s, key):
    """{(R, a, b): components} of the non-zero elements"""
    out = {}
    T = s["mats"][key]
    for r, R in enumerate(s["rv"]):
        for a in range(s["nw"]):
            for b in range(s["nw"]):
                e = T[r][a][b]
                if any(c != [0, 0] for c in e):
                    out[(tuple(R), a, b)] = tup(e)
    return out


def differences(got, exp):
    """hard differences between two specification systems as functions R -> matrix (the order of the R-list and R-vectors
    stored with zero matrices are not looked at), and the informational ones"""
    hard, info = [], []
    for f in ("nw", "cen", "sl", "sr"):
        if got[f] != exp[f]:
            hard.append(f)
    if set(got["mats"]) != set(exp["mats"]):
        hard.append("matrix_keys")
    else:
        for k in got["mats"]:
            if got["nw"] == exp["nw"] and as_function(got, k) != as_function(exp, k):
                hard.append(f"matrix_{k}")
    if sorted(map(tuple, got["rv"])) != sorted(map(tuple, exp["rv"])):
        info.append("rset")
    elif got["rv"] != exp["rv"]:
        info.append("rlist_order")
    return hard, info


def minval(T2):
    """|x| >= minval  <=>  2 |x|^2 >= T2 for Gaussian integers x (T2 odd: no tie)"""
    return math.sqrt(T2 / 2.0)


def tolerance(T2):
    return 1e-8 if T2 == 0 else math.sqrt(T2 / 2.0)


def pairs_of(kind, nw):
    if kind == "interlaced":
        return [(2 * i, 2 * i + 1) for i in range(nw // 2)]
    if kind == "block":
        return [(i, i + nw // 2) for i in range(nw // 2)]
    return [(1, 0)]


def apply_op(x, op, arg):
    """the real call of one action of MC_SysOrder; returns the (possibly new) system object"""
    System_R, _, _ = classes()
    nw = int(x.num_wann)
    if op == "b2i":
        x.spin_block2interlace(backward=(arg == "T"))
    elif op == "i2b":
        x.spin_interlace2block(backward=(arg == "T"))
    elif op == "reorder":
        x.reorder(list(range(nw))[::-1])
    elif op == "double_spin":
        x.double_spin()
    elif op == "spin_pairs":
        if arg == "interlaced":
            x.set_spin_interlaced()
        else:
            x.set_spin_pairs(pairs_of(arg, nw))
    elif op == "spin_eigen":
        x.set_spin_eigenstates([1 if a % 2 == 0 else -1 for a in range(nw)], axis=AXES[arg], reset=True)
    elif op == "sparse":
        d = x.get_sparse(min_values={k: minval(t) for k, t in MINVALS[arg].items()})
        x = System_R.from_sparse(**d)
    elif op == "exclude_zeros":
        keys = [k for k in ("Ham", "SS") if x.has_R_mat(k)]
        XX, rv = x.rvec.exclude_zeros({k: x.get_R_mat(k) for k in keys}, tolerance=tolerance(int(arg)))
        x.rvec = rv
        for k in keys:
            x.set_R_mat(k, XX[k], reset=True)
    elif op == "conj":
        for k in [k for k in ("Ham", "SS") if x.has_R_mat(k)]:
            x.set_R_mat(k, x.rvec.conj_XX_R(x.get_R_mat(k)), reset=True)
    else:
        raise MachineryError(f"unknown action {op}")
    return x


def charpolys(x):
    """coefficients c_1..c_n of det(t - H(k)) = t^n + c_1 t^(n-1) + .. at the k-points KS, H(k) by the package's own
    R -> k transform (Rvectors.R_to_k on the k-list), the polynomial by Faddeev-LeVerrier in floating point"""
    rv = x.rvec.copy()
    nw = int(x.num_wann)
    with contextlib.redirect_stdout(io.StringIO()):
        rv.set_fft_R_to_k(NK=None, num_wann=nw, k_list=np.array(KS, dtype=float) / 4.0)
        H = rv.R_to_k(np.array(x.get_R_mat("Ham"), dtype=complex).copy(), hermitian=False)
    out = []
    for h in np.asarray(H).reshape(len(KS), nw, nw):
        M = np.eye(nw, dtype=complex)
        cs = []
        for k in range(1, nw + 1):
            AM = h @ M
            c = -np.trace(AM) / k
            cs.append(c)
            M = AM + c * np.eye(nw)
        out.append(cs)
    return out


# --------------------------------------------------------------------------- seeded random exact systems
def random_system(rng, nw=None, hermitian=None, with_zero_block=False):
    nw = nw or rng.choice([1, 2, 3, 4, 6])
    box = [(a, b, c) for a in (-1, 0, 1) for b in (-1, 0, 1) for c in (-1, 0, 1) if (a, b, c) != (0, 0, 0)]
    hermitian = rng.random() < 0.6 if hermitian is None else hermitian
    half = rng.sample(box, rng.randint(0, 3))
    rset = {(0, 0, 0)}
    for R in half:
        rset.add(R)
        if hermitian or rng.random() < 0.5:
            rset.add(tuple(-c for c in R))
    rv = [list(R) for R in rset]
    rng.shuffle(rv)
    H = {}
    nel = rng.randint(1, 3 + 2 * nw)
    for _ in range(nel):
        R = tuple(rng.choice(rv))
        a, b = rng.randrange(nw), rng.randrange(nw)
        z = (rng.randint(-3, 3), rng.randint(-3, 3))
        if R == (0, 0, 0) and a == b and hermitian:
            z = (z[0], 0)
        H[(R, a, b)] = z
        if hermitian:
            H[(tuple(-c for c in R), b, a)] = (z[0], -z[1])
    if with_zero_block and len(rv) > 1:
        Rz = tuple(rng.choice([R for R in rv if R != [0, 0, 0]]))
        for key in [k for k in H if k[0] == Rz or (hermitian and k[0] == tuple(-c for c in Rz))]:
            del H[key]
    T = [[[[list(H.get((tuple(R), a, b), (0, 0)))] for b in range(nw)] for a in range(nw)] for R in rv]
    if nw % 2 == 0 and rng.random() < 0.5:      # spinful layout: the two functions of an orbital share the centre
        c0 = [[rng.randint(-2, 3) for _ in range(3)] for _ in range(nw // 2)]
        cen = c0 + c0 if rng.random() < 0.5 else [c for c in c0 for _ in (0, 1)]
    else:
        cen = [[rng.randint(-2, 3) for _ in range(3)] for _ in range(nw)]
    return dict(nw=nw, rv=rv, cen=cen, sl=[list(c) for c in cen], sr=[list(c) for c in cen], mats={"Ham": T})


def random_tensor(rng, nr, nw, nc=1, density=0.5):
    return [[[[[rng.randint(-3, 3), rng.randint(-3, 3)] if rng.random() < density else [0, 0] for _ in range(nc)]
              for _ in range(nw)] for _ in range(nw)] for _ in range(nr)]


def random_rlist(rng, nmax=5, symmetric=None):
    box = [(a, b, c) for a in (-1, 0, 1) for b in (-1, 0, 1) for c in (-1, 0, 1)]
    n = rng.randint(1, nmax)
    pick = rng.sample(box, n)
    if symmetric or (symmetric is None and rng.random() < 0.4):
        pick = list({p for R in pick for p in (R, tuple(-c for c in R))})
    rng.shuffle(pick)
    return [list(R) for R in pick]
