"""Z[zeta12] <-> complex numbers (Python side of spec/Cyclo12.tla): 4-tuples (a0, a1, a2, a3) = a0 + a1 z + a2 z^2 + a3 z^3,
z = exp(i pi / 6)."""
import cmath
import math

import numpy as np

ZETA = cmath.exp(1j * math.pi / 6)
_POW = [ZETA ** n for n in range(4)]
S3 = math.sqrt(3.0)


def to_complex(t):
    return t[0] + t[1] * _POW[1] + t[2] * _POW[2] + t[3] * _POW[3]


def arr_to_complex(a):
    """array-like [..., 4] of ints -> complex array [...]"""
    a = np.asarray(a, dtype=float)
    return a[..., 0] + a[..., 1] * _POW[1] + a[..., 2] * _POW[2] + a[..., 3] * _POW[3]


def from_complex(z, bound=4000, tol=1e-6):
    """the unique (a0..a3) with |a_i| <= bound and |value - z| < tol, or None if z is not (numerically) a cyclotomic
    integer.  Re z = (a0 + a2/2) + (a1/2) sqrt3 ;  Im z = (a1/2 + a3) + (a2/2) sqrt3."""
    re, im = z.real, z.imag
    found = []
    # a1 from the real part: re - a1 sqrt3/2 must be a half-integer u = a0 + a2/2
    for a1 in _candidates(re, bound, tol):
        u2 = round(2 * (re - a1 * S3 / 2))           # = 2 a0 + a2
        for a2 in _candidates(im, bound, tol):
            w2 = round(2 * (im - a2 * S3 / 2))       # = a1 + 2 a3
            if (u2 - a2) % 2 or (w2 - a1) % 2:
                continue
            a0, a3 = (u2 - a2) // 2, (w2 - a1) // 2
            t = (a0, a1, a2, a3)
            if max(abs(x) for x in t) <= bound and abs(to_complex(t) - z) < tol:
                found.append(t)
    if len(found) != 1:
        return None
    return found[0]


_MCACHE = {}


def _candidates(x, bound, tol):
    """integers m (|m| <= bound) with x - m sqrt3/2 within tol/2 of a half-integer"""
    m = _MCACHE.get(bound)
    if m is None:
        m = _MCACHE[bound] = np.arange(-bound, bound + 1)
    r = 2 * x - m * S3
    return [int(v) for v in m[np.abs(r - np.round(r)) < tol]]


def from_complex_fast(z, bound=64, tol=1e-6):
    return from_complex(z, bound=bound, tol=tol)


def mat_from_complex(A, bound=64, tol=1e-6):
    """complex array -> nested lists of 4-lists; raises ValueError if an entry is not a cyclotomic integer"""
    A = np.asarray(A)
    if A.ndim == 0:
        t = from_complex(complex(A), bound, tol)
        if t is None:
            raise ValueError(f"non-integral projection: {complex(A)!r}")
        return list(t)
    return [mat_from_complex(x, bound, tol) for x in A]
