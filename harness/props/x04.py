"""X04: Wyckoff positions, orbits under a space group, projections and projection sets, local frames.

spec  : WyckProj.tla (EXTENDS SymOrbits: transcription of UniqueListMod1, get_orbit, orbit_and_rottrans,
        WyckoffPositionNumeric, orbit_from_positions, split_into_orbits, the shell table / num_orbitals, the counting
        properties of Projection / ProjectionsSet, the tables of Wannier functions (blocks of the symmetriser, centres / amn
        order, Wannier90 lines), read_xzaxis) + property clauses; MC_WyckProj.tla (three bounded models: orbit, proj,
        frame; five wrong variants as switches); WyckProjRec.tla (record validation)
bind  : spec -> code: every finished TLC state is executed on the real functions / classes with irrep space groups built
        from the state's structure, results compared representation-free (sets modulo lattice vectors, every point once,
        given positions first, operations map the generating point onto the listed points, partitions as sets of sets,
        counts, site sequences up to the numbering of points, frames as directions);
        code -> spec: seeded random calls are recorded (exact numerators / integer directions) and validated clause by
        clause by TLC."""
import copy
import os
import random
import shutil
import glob
import zlib
from concurrent.futures import ThreadPoolExecutor

import numpy as np

from .. import tlc, ftable
from ..common import Report, MachineryError, seed, WORK
from . import _x04_world as W

PROPS = {
    "X04": dict(level="model_checking",
                technique="TLC exhaustive on MC_WyckProj.tla (orbits of catalogue points under the space groups of catalogue structures on cubic / "
                          "tetragonal / hexagonal cells; projection sets over orbital strings x split / do_not_split x spinor; read_xzaxis over all "
                          "pairs of small integer vectors) + replay of every (quick: a seeded sample of the) finished state on the real "
                          "wyckoff_position / projections / Dwann / sawf code with irrep space groups + TLC validation of recorded random calls "
                          "(WyckProjRec) + five must-fail variants",
                text="Orbits: get_orbit / orbit_and_rottrans / WyckoffPositionNumeric / orbit_from_positions list every image of a point exactly "
                     "once modulo lattice vectors, the list is closed under every operation, stabiliser x orbit size = group order, the listed "
                     "operation (W|t) maps the generating point onto the listed point, given positions come first as given, a position from "
                     "another orbit is refused by WyckoffPositionNumeric and united by orbit_from_positions, split_into_orbits is the partition "
                     "by orbit, Dwann.atommap is a permutation with integer T = p_image - g p. Projections: orbital strings split at ';' (or "
                     "kept with do_not_split_projections), Wannier functions per site = sum of the shell sizes (x2 for spinors), per projection x "
                     "orbit size, per set the sum; the symmetriser's blocks, the initial centres, the amn order and the written Wannier90 block "
                     "name every function once and put the i-th function on the same site. Frames: read_xzaxis returns a right-handed "
                     "orthonormal frame that keeps the given axes and completes the missing one from the default axis, or refuses (zero, "
                     "collinear with the default, non-orthogonal pair); rotate_basis rotates the frame with the listed operation.",
                note="positions are multiples of 1/12, frame vectors have integer components |c| <= 3 (named exclusion SmallVec: never within the "
                     "code's 1e-3 / 1e-5 margins); exception classes, orders of orbits, which operation is listed for a point, block layout and "
                     "handedness of rotated frames are information (parts conformance_info / records_info); float comparisons only for unit "
                     "length / direction of frame rows (1e-9, observed 2e-16) and for the fixed-point test of symmetrised centres (numeric_only)",
                ref="DESIGN.md 10.9"),
}

DEN = W.DEN
WORKERS = 4
DWANN_MAX = 1300        # orbit size x group order up to which Dwann is built in the orbit replays / records


def cfg(mode, lats=("cubic", "tetra", "hex"), structs="quick", pts="quick", toks="quick", uniq=False, byrank=False, amn="entry", ds=True, rh=True):
    b = lambda x: "TRUE" if x else "FALSE"
    return ("SPECIFICATION Spec\nCONSTANTS\n  DEN = %d\n  MODE = \"%s\"\n  LATS = {%s}\n  STRUCTS = \"%s\"\n  PTSCAT = \"%s\"\n  TOKCAT = \"%s\"\n"
            "  UNIQEXACT = %s\n  BYRANK = %s\n  AMNORDER = \"%s\"\n  DOUBLESPIN = %s\n  RIGHTHANDED = %s\nINVARIANT NoFailedLaw\nINVARIANT FramesSmall\n"
            "CHECK_DEADLOCK FALSE\n" % (DEN, mode, ", ".join('"%s"' % l for l in lats), structs, pts, toks, b(uniq), b(byrank), amn, b(ds), b(rh)))


REC_CFG = "SPECIFICATION RecSpec\nCONSTANTS\n  DEN = %d\nINVARIANT Report\nCHECK_DEADLOCK FALSE\n" % DEN

# wrong variants: (name, mode, cfg arguments, laws one of which TLC must report as failed)
VARIANTS = [
    ("uniq_exact", "orbit", dict(lats=("tetra",), structs="tiny", uniq=True), {"ofp_union", "ofp_given_first"}),
    ("wyck_by_rank", "orbit", dict(lats=("tetra",), structs="tiny", byrank=True), {"wyck_rottrans"}),
    ("amn_site_major_asis", "proj", dict(lats=("tetra",), structs="tiny", pts="proj", amn="site"), {"centres_match_blocks"}),
    ("spinor_not_doubled", "proj", dict(lats=("tetra",), structs="tiny", pts="proj", ds=False), {"count", "total"}),
    ("left_handed", "frame", dict(rh=False), {"frame_ok"}),
]


def stable(obj, m):
    return zlib.crc32(repr(obj).encode()) % m


def library_exc(ex):
    from ..main import raised_by_code_under_test
    return raised_by_code_under_test(ex)


class Ctx:
    def __init__(self, rep):
        self.rep = rep
        self.info = {}
        self.counts = {}

    def inc(self, d, k, n=1):
        d[k] = d.get(k, 0) + n

    def call(self, site, detail, fn, *a, refusal=False, **kw):
        """-> (status, value): status "ok" | "refused" (library exception where a refusal is a legitimate answer) | "raised"
        (library exception on a valid input: violation raises:<site>:<Type>) ; harness-side exceptions propagate"""
        try:
            with W.hush():
                return "ok", fn(*a, **kw)
        except (MachineryError, OSError, ImportError):
            raise
        except Exception as ex:
            where = library_exc(ex)
            if where is None:
                raise
            if refusal:
                self.inc(self.info, f"refusal_class:{site}:{type(ex).__name__}")
                return "refused", None
            self.rep.violation(f"raises:{site}:{type(ex).__name__}", dict(detail, error=f"{type(ex).__name__}: {ex}"[:300], raised_in=where))
            return "raised", None


# ============================================================================= orbits
def fl(given):
    return np.array(given, dtype=float) / DEN


def orbit_calls(cx, sg, given, detail):
    """calls the real functions on `given` (list of numerator triples, unreduced) -> out dict (numerators) or None"""
    from wannierberri.symmetry.wyckoff_position import WyckoffPositionNumeric, get_orbit, orbit_and_rottrans, split_into_orbits
    from wannierberri.symmetry.Dwann import orbit_from_positions, Dwann
    g = fl(given)
    out = {}
    try:
        s, v = cx.call("get_orbit", detail, get_orbit, sg, g[0])
        if s != "ok":
            return None
        out["orbit"] = W.nums(list(v)) if len(v) else []
        s, v = cx.call("orbit_and_rottrans", detail, orbit_and_rottrans, sg, g[0])
        if s != "ok":
            return None
        out["ort"] = dict(orbit=W.nums(v[0]), rot=W.ints(v[1]), trans=W.nums(v[2]))
        arg = g if stable(("fmt", given), 2) else [list(x) for x in g]          # array or list of lists
        if len(given) == 1 and stable(("one", given), 2):
            arg = g[0]                                                             # "or only first position"
        s, v = cx.call("WyckoffPositionNumeric", detail, WyckoffPositionNumeric, arg, sg, refusal=True)
        if s == "ok":
            pos = W.nums(v.positions)
            out["wy"] = dict(ok=True, pos=pos, rot=W.ints(np.array(v.rotations)), trans=W.nums(np.array(v.translations)), num_points=int(v.num_points))
        else:
            out["wy"] = dict(ok=False, pos=[], rot=[], trans=[], num_points=0)
        s, v = cx.call("orbit_from_positions", detail, orbit_from_positions, sg, arg)
        if s != "ok":
            return None
        out["ofp"] = W.nums(list(v))
        s, v = cx.call("split_into_orbits", detail, split_into_orbits, g, sg)
        if s != "ok":
            return None
        out["split"] = [[int(x) for x in c] for c in v]
        out.update(amap=[], T=[], dwann_orbit=[], has_amap=False)
        if len(out["ofp"]) * len(sg.symmetries) <= DWANN_MAX:          # cost only: Dwann on large orbits x large groups takes seconds
            s, v = cx.call("Dwann", detail, Dwann, sg, g)
            if s != "ok":
                return None
            out["amap"] = np.asarray(v.atommap).T.astype(int).tolist()
            out["T"] = np.transpose(np.asarray(v.T), (1, 0, 2)).astype(int).tolist()
            out["dwann_orbit"] = W.nums(list(v.orbit))
            out["has_amap"] = out["dwann_orbit"] == out["ofp"]
            cx.inc(cx.counts, "dwann:atommap")
    except W.NotOnGrid as ex:
        cx.rep.violation("orbit:position_off_grid", dict(detail, error=str(ex)))
        return None
    return out


def uniq_mod(seq):
    out = []
    for p in seq:
        if all(W.mod(p) != W.mod(q) for q in out):
            out.append(list(p))
    return out


def maps_onto(pos, rot, trans, p):
    if not (len(pos) == len(rot) == len(trans)):
        return False
    for q, Wm, t in zip(pos, rot, trans):
        img = tuple(sum(Wm[r][c] * p[c] for c in range(3)) + t[r] for r in range(3))
        if W.mod(img) != W.mod(q):
            return False
    return True


def closed_under(seq, ops):
    S = {W.mod(p) for p in seq}
    return all(W.mod(W.apply_op(o, p)) in S for o in ops for p in seq)


def replay_orbit(cx, s, groups):
    rep = cx.rep
    lat, sites = s["lat"], [(x["type"], tuple(x["pos"])) for x in s["sites"]]
    given = [list(p) for p in s["inp"]["given"]]
    r = s["res"]
    tr = bool(stable(("tr", lat, sites, given), 2))
    sg = W.real_group(lat, sites, include_TR=tr)
    gk = (lat, tuple(sites), tr)
    if gk not in groups["checked"]:
        W.check_same_group(sg, groups["ops"][(lat, tuple(sites))], (lat, sites))
        groups["checked"].add(gk)
    ops = W.ops_of(sg)
    detail = dict(lattice=lat, sites=sites, include_TR=tr, given_over_12=given)
    rep.case(("orbit", lat, tuple(sites), tuple(map(tuple, given))), nontrivial=len(r["orbit"]) > 1)
    out = orbit_calls(cx, sg, given, detail)
    if out is None:
        return
    p = given[0]
    exp_orbit = sorted(W.mod(q) for q in r["orbit"])

    def bad(key, **kw):
        rep.violation(key, dict(detail, **kw))
    # classes
    cx.inc(cx.counts, "orbit:size1" if len(exp_orbit) == 1 else ("orbit:general" if len(exp_orbit) == r["nops"] else "orbit:special"))
    cx.inc(cx.counts, "wyck:accepted" if r["wy"]["ok"] else "wyck:refused")
    if len(uniq_mod(given)) < len(given):
        cx.inc(cx.counts, "given:repeated")
    if any(not 0 <= x < DEN for q in given for x in q):
        cx.inc(cx.counts, "given:unreduced")
    if any(any(o["t"]) for o in ops):
        cx.inc(cx.counts, "group:with_translations")
    cx.inc(cx.counts, "lattice:" + lat)
    # get_orbit
    if sorted(W.mod(q) for q in out["orbit"]) != exp_orbit:
        bad("get_orbit:not_every_image_once", expected_orbit=exp_orbit, got=out["orbit"])
    if not closed_under(out["orbit"], ops):
        bad("get_orbit:not_closed", got=out["orbit"])
    nstab = sum(1 for o in ops if W.mod(W.apply_op(o, p)) == W.mod(p))
    if nstab * len(out["orbit"]) != len(ops) or len(ops) != r["nops"] * (2 if tr else 1) or nstab != r["nstab"] * (2 if tr else 1):
        bad("get_orbit:orbit_stabiliser", stabiliser=nstab, orbit=len(out["orbit"]), group_order=len(ops), spec_stabiliser=r["nstab"], spec_order=r["nops"])
    # orbit_and_rottrans
    o = out["ort"]
    if sorted(W.mod(q) for q in o["orbit"]) != exp_orbit:
        bad("orbit_and_rottrans:not_every_image_once", expected_orbit=exp_orbit, got=o["orbit"])
    elif not maps_onto(o["orbit"], o["rot"], o["trans"], p):
        bad("orbit_and_rottrans:operation_does_not_map", got=o)
    # WyckoffPositionNumeric
    w = out["wy"]
    if w["ok"] != r["wy"]["ok"]:
        bad("WyckoffPositionNumeric:" + ("accepted_foreign_position" if w["ok"] else "refused_orbit_members"), spec_accepts=r["wy"]["ok"])
    elif w["ok"]:
        k = len(uniq_mod(given))
        if sorted(W.mod(q) for q in w["pos"]) != exp_orbit or w["num_points"] != len(exp_orbit):
            bad("WyckoffPositionNumeric:not_every_image_once", expected_orbit=exp_orbit, got=w["pos"], num_points=w["num_points"])
        elif w["pos"][:k] != uniq_mod(given):
            bad("WyckoffPositionNumeric:given_not_first", got=w["pos"])
        elif not maps_onto(w["pos"], w["rot"], w["trans"], p):
            bad("WyckoffPositionNumeric:operation_does_not_map", got=w)
        elif w["pos"] != [list(q) for q in r["wy"]["pos"]]:
            cx.inc(cx.info, "wyck_order_differs_from_transcription")
    # orbit_from_positions
    exp_ofp = sorted(W.mod(q) for q in r["ofp"])
    k = len(uniq_mod(given))
    if sorted(W.mod(q) for q in out["ofp"]) != exp_ofp:
        bad("orbit_from_positions:not_union_of_orbits_once", expected=exp_ofp, got=out["ofp"])
    elif out["ofp"][:k] != uniq_mod(given):
        bad("orbit_from_positions:given_not_first", got=out["ofp"])
    elif not closed_under(out["ofp"], ops):
        bad("orbit_from_positions:not_closed", got=out["ofp"])
    # split_into_orbits
    exp_split = {frozenset(x - 1 for x in c) for c in r["split"]}
    got_split = [frozenset(c) for c in out["split"]]
    if set(got_split) != exp_split or sum(len(c) for c in out["split"]) != len(given):
        bad("split_into_orbits:not_the_partition_by_orbit", expected=sorted(sorted(c) for c in exp_split), got=out["split"])
    elif out["split"] != [sorted(x - 1 for x in c) for c in r["split"]]:
        cx.inc(cx.info, "split_order_differs_from_transcription")
    # Dwann.atommap / T on the orbit Dwann built
    orb = out["dwann_orbit"]
    okmap = True
    n = 0
    for n, op in enumerate(ops if out["has_amap"] else []):
        if sorted(out["amap"][n]) != list(range(len(orb))):
            okmap = False
            break
        for a, q in enumerate(orb):
            img = W.apply_op(op, q)
            tgt = orb[out["amap"][n][a]]
            if any(tgt[c] != img[c] + DEN * out["T"][n][a][c] for c in range(3)):
                okmap = False
                break
        if not okmap:
            break
    if not okmap and out["has_amap"]:
        bad("Dwann:atommap_T", orbit=orb, operation=ops[n], atommap=out["amap"][n], T=out["T"][n])
    # string positions (constants): the same orbit
    if len(given) == 1 and stable(("str", lat, sites, given), 3) == 0:
        replay_string(cx, sg, given[0], exp_orbit, detail)
    return out, ops


def replay_string(cx, sg, p, exp_orbit, detail):
    from wannierberri.symmetry.wyckoff_position import WyckoffPosition
    string = ",".join(f"{x}/{DEN}" if x else "0" for x in p)
    s, v = cx.call("WyckoffPosition(str)", dict(detail, string=string), lambda: (lambda w: (w.num_points, np.array(w.positions)))(WyckoffPosition(string, sg)))
    cx.inc(cx.counts, "string:constant")
    if s != "ok":
        return
    try:
        pos = W.nums(v[1])
    except W.NotOnGrid as ex:
        cx.rep.violation("WyckoffPosition(str):off_grid", dict(detail, string=string, error=str(ex)))
        return
    if sorted(W.mod(q) for q in pos) != exp_orbit or v[0] != len(exp_orbit):
        cx.rep.violation("WyckoffPosition(str):not_every_image_once", dict(detail, string=string, expected_orbit=exp_orbit, got=pos, num_points=v[0]))


# ============================================================================= projection sets
def build_set(cx, sg, cs, spinor, variant, detail):
    """cs: list of dict(pt, tokens, nosplit) -> (projections, set) or None"""
    from wannierberri.symmetry.projections import Projection, ProjectionsSet
    projs = []
    for j, c in enumerate(cs):
        kw = dict(orbital=";".join(c["tokens"]), spacegroup=sg, do_not_split_projections=bool(c["nosplit"]), rotate_basis=bool((variant >> 1) & 1))
        if (variant >> 2) & 1:
            kw["spinor"] = bool(spinor)                # explicit, equal to the group's
        if (variant >> 3) & 1 and j == 0:
            kw["position_sym"] = ",".join(f"{x}/{DEN}" if x else "0" for x in c["pt"])
        else:
            kw["position_num"] = [x / DEN for x in c["pt"]]
        s, P = cx.call("Projection", dict(detail, kwargs={k: str(v) for k, v in kw.items() if k != "spacegroup"}), Projection, **kw)
        if s != "ok":
            return None
        projs.append(P)
    if variant & 1 and len(projs) > 1:
        s, pset = cx.call("ProjectionsSet", detail, ProjectionsSet, projs[0])
        if s == "ok":
            for P in projs[1:]:
                s, _ = cx.call("ProjectionsSet.add", detail, pset.add, P)
    else:
        s, pset = cx.call("ProjectionsSet", detail, ProjectionsSet, list(projs))
    if s != "ok":
        return None
    return projs, pset


def proj_tables(cx, sg, projs, pset, detail):
    """reads the counting properties and the tables off the real objects -> out dict or None"""
    from wannierberri.symmetry.sawf import SymmetrizerSAWF
    from wannierberri.symmetry.Dwann import orbit_from_positions
    rep = cx.rep
    out = {}
    try:
        s, v = cx.call("Projection.properties", detail, lambda: [dict(per_site_scalar=int(P.num_wann_per_site_scalar), per_site=int(P.num_wann_per_site),
                                                                  num_wann=int(P.num_wann), num_wann_scalar=int(P.num_wann_scalar), npts=int(P.num_points),
                                                                  orbitals=[o.split(";") for o in P.orbitals], spinor=bool(P.spinor)) for P in projs])
        if s != "ok":
            return None
        out["nums"] = v
        s, v = cx.call("ProjectionsSet.properties", detail, lambda: (int(pset.num_wann), int(pset.num_wann_scalar), len(pset), [int(x) for x in pset.num_wann_per_site_list],
                                                                      np.array(pset.wannier_centers_red)))
        if s != "ok":
            return None
        out["num_wann"], out["num_wann_scalar"], out["len"], out["per_site_list"], centres = v
        keys = [[W.mod(q) for q in W.nums(np.array(P.positions))] for P in projs]
        # centres: rows of the set are the rows of its projections one after the other
        cs, row = [], 0
        for i, P in enumerate(projs):
            n = out["nums"][i]["num_wann"]
            for q in W.nums(centres[row:row + n]) if n else []:
                cs.append((i, W.mod(q)))
            row += n
        if row != len(centres):
            rep.violation("tables:centres_row_count", dict(detail, rows=len(centres), sum_of_num_wann=row))
            return None
        # blocks of the symmetriser (adapter around the layout: one block per (projection, entry), Dwann numbers point by point)
        s, sym = cx.call("SymmetrizerSAWF.from_spacegroup_and_projections", detail, SymmetrizerSAWF.from_spacegroup_and_projections, sg, pset)
        out["has_blocks"] = False
        out["blocks"], bs = [], []
        out["sym_num_wann"] = 0
        if s == "ok":
            try:
                blocks = [[int(a), int(b)] for a, b in np.asarray(sym.D_wann_block_indices)]
                out["sym_num_wann"] = int(sym.num_wann)
                nb = 0
                ok = True
                for i, P in enumerate(projs):
                    with W.hush():
                        orb = [W.mod(q) for q in W.nums(list(orbit_from_positions(sg, P.positions)))]
                    for _e in P.orbitals:
                        if nb >= len(blocks) or (blocks[nb][1] - blocks[nb][0]) % len(orb):
                            ok = False
                            break
                        per = (blocks[nb][1] - blocks[nb][0]) // len(orb)
                        for q in orb:
                            bs += [(i, q)] * per
                        nb += 1
                if ok and nb == len(blocks):
                    out["has_blocks"], out["blocks"] = True, blocks
                else:
                    rep.part("skipped_private", block_layout="blocks are not one per (projection, entry) with whole points")
            except (AttributeError, TypeError, IndexError, ValueError) as ex:
                if library_exc(ex) is not None:
                    raise
                rep.part("skipped_private", block_layout=f"{type(ex).__name__}: {ex}"[:200])
            # numeric: the initial centres are a fixed point of the symmetriser (they sit on the sites of a symmetric set)
            if out["has_blocks"]:
                s2, c2 = cx.call("symmetrize_wannier_property", detail, sym.symmetrize_wannier_property, np.array(pset.wannier_centers_cart))
                if s2 == "ok" and np.shape(c2) == np.shape(centres):
                    dev = np.asarray(c2) @ np.linalg.inv(sg.lattice) - centres
                    dev = float(np.abs(dev - np.round(dev)).max()) if dev.size else 0.0
                    out["centres_fixed_point_dev"] = dev
        # amn order
        asites, has_amn = [], True
        for i, P in enumerate(projs):
            try:
                with W.hush():
                    pos, orbs = P.get_positions_and_orbitals()
            except KeyError as ex:
                if library_exc(ex) is None:
                    raise
                has_amn = False           # composite entries (do_not_split_projections) are not in the shell table: information
                cx.inc(cx.info, "get_positions_and_orbitals_refuses_composite_entry")
                break
            if len(pos) != len(orbs):
                rep.violation("get_positions_and_orbitals:lengths", dict(detail, positions=len(pos), orbitals=len(orbs)))
                return None
            for q in W.nums(np.array(pos)) if len(pos) else []:
                asites += [(i, W.mod(q))] * (2 if out["nums"][i]["spinor"] else 1)
        out["has_amn"] = has_amn
        # Wannier90 block
        s, text = cx.call("ProjectionsSet.write_wannier90", detail, pset.write_wannier90)
        if s != "ok":
            return None
        nw, alllines, be = W.parse_w90_block(text)
        out["w90_num_wann"] = -1 if nw is None else nw
        lines = []
        nl = 0
        for i, P in enumerate(projs):
            s, t = cx.call("Projection.write_wannier90", detail, P.write_wannier90)
            if s != "ok":
                return None
            _, pl, _ = W.parse_w90_block(t)
            used = {}
            for l in pl:
                k = W.mod(l["pos"])
                cand = [e for e, o in enumerate(P.orbitals) if o == l["orbital"] and e not in used.setdefault(k, set())]
                if not cand or k not in keys[i]:
                    rep.violation("write_wannier90:line_names_no_entry_of_the_projection", dict(detail, line=l, orbitals=list(P.orbitals)))
                    return None
                used[k].add(cand[0])
                lines.append((i, k, cand[0]))
            if [(l["pos"], l["orbital"]) for l in alllines[nl:nl + len(pl)]] != [(l["pos"], l["orbital"]) for l in pl]:
                cx.inc(cx.info, "set_block_is_not_the_concatenation_of_projection_blocks")
            nl += len(pl)
        if nl != len(alllines) or not be:
            rep.violation("write_wannier90:block_structure", dict(detail, lines_in_set_block=len(alllines), lines_of_projections=nl, begin_end=be))
            return None
        out["w90_axes_lines"] = sum(1 for l in alllines if "z" in l["opts"] or "x" in l["opts"])
    except W.NotOnGrid as ex:
        rep.violation("tables:position_off_grid", dict(detail, error=str(ex)))
        return None
    # number the points by first appearance in the blocks (else in the centres)
    base = bs if out["has_blocks"] else cs
    canon, rank = W.canon_sites(base)
    out["bsites"] = canon if out["has_blocks"] else []
    out["csites"] = W.relabel(cs, rank)
    out["asites"] = W.relabel(asites, rank) if has_amn else []
    ln = W.relabel([(i, k) for i, k, _ in lines], rank)
    if out["csites"] is None or out["asites"] is None or ln is None:
        rep.violation("tables:site_outside_the_orbit", dict(detail, centres=cs[:8]))
        return None
    out["lines"] = [[a, b, e + 1] for (a, b), (_, _, e) in zip(ln, lines)]
    return out


def canon_spec_sites(sites):
    return W.canon_sites([(i - 1, a) for i, a in sites])[0]


def replay_proj(cx, s):
    rep = cx.rep
    lat, sites = s["lat"], [(x["type"], tuple(x["pos"])) for x in s["sites"]]
    inp, r = s["inp"], s["res"]
    cs = [dict(pt=list(c["pt"]), tokens=list(c["tokens"]), nosplit=bool(c["nosplit"])) for c in inp["cs"]]
    S = [dict(npts=x["npts"], entries=[list(e) for e in x["entries"]], spinor=bool(x["spinor"])) for x in inp["set"]]
    spinor = bool(inp["spinor"])
    variant = stable(("variant", lat, sites, cs, spinor), 16)
    sg = W.real_group(lat, sites, include_TR=False, spinor=spinor)
    detail = dict(lattice=lat, sites=sites, spinor=spinor, projections=cs, variant=variant)
    rep.case(("proj", lat, tuple(sites), repr(cs), spinor), nontrivial=True)
    built = build_set(cx, sg, cs, spinor, variant, detail)
    if built is None:
        return
    projs, pset = built
    out = proj_tables(cx, sg, projs, pset, detail)
    if out is None:
        return
    multi = any(len(x["entries"]) > 1 and x["npts"] > 1 for x in S)
    cx.inc(cx.counts, "set:multi_entry_multi_point" if multi else "set:single_entry_or_point")
    if any(c["nosplit"] for c in cs):
        cx.inc(cx.counts, "set:do_not_split")
    cx.inc(cx.counts, "set:spinor" if spinor else "set:scalar")
    cx.inc(cx.counts, "set:two_projections" if len(cs) > 1 else "set:one_projection")
    if variant & 8:
        cx.inc(cx.counts, "set:string_position")
    if variant & 1 and len(cs) > 1:
        cx.inc(cx.counts, "set:built_with_add")

    def bad(key, **kw):
        rep.violation(key, dict(detail, **kw))
    for i, (x, n, e) in enumerate(zip(S, out["nums"], r["nums"])):
        if n["orbitals"] != x["entries"]:
            bad("Projection:orbitals", index=i, expected=x["entries"], got=n["orbitals"])
        if n["npts"] != x["npts"]:
            bad("Projection:num_points", index=i, expected=x["npts"], got=n["npts"])
        for k in ("per_site_scalar", "per_site", "num_wann", "num_wann_scalar"):
            if n[k] != e[k]:
                bad("Projection:" + k, index=i, expected=e[k], got=n[k])
    if out["num_wann"] != r["num_wann"] or out["len"] != len(S):
        bad("ProjectionsSet:num_wann", expected=r["num_wann"], got=out["num_wann"], length=out["len"])
    exp_list = [e["per_site"] for x, e in zip(S, r["nums"]) for _ in range(x["npts"])]
    if out["per_site_list"] != exp_list:
        bad("ProjectionsSet:num_wann_per_site_list", expected=exp_list, got=out["per_site_list"])
    spec_b = canon_spec_sites([(l[0], l[1]) for l in r["tdwann"]])
    if out["has_blocks"]:
        if out["sym_num_wann"] != r["num_wann"] or len(out["bsites"]) != r["num_wann"]:
            bad("symmetrizer:num_wann", expected=r["num_wann"], got=out["sym_num_wann"])
        if out["bsites"] != spec_b or out["blocks"] != [list(b) for b in r["blocks"]]:
            cx.inc(cx.info, "block_layout_differs_from_transcription")
        if out["csites"] != out["bsites"]:
            bad("tables:centres_vs_symmetrizer_blocks", centre_sites=out["csites"][:24], block_sites=out["bsites"][:24],
                what="the i-th row of ProjectionsSet.wannier_centers_red (and the i-th function of AMN.from_bandstructure) is not on the site the "
                     "symmetriser's D_wann blocks give to the i-th Wannier function", symmetrised_centres_move_by=out.get("centres_fixed_point_dev"))
        dev = out.get("centres_fixed_point_dev")
        if dev is not None and full_shells_only(cs):
            cx.numeric["max_dev_agree" if out["csites"] == out["bsites"] else "max_dev_disagree"].append(dev)
        lsites = [[a, b] for a, b, e in out["lines"] for _ in range(sum(W_NUMORB[t] for t in S[a - 1]["entries"][e - 1]) * (2 if spinor else 1))]
        if lsites != out["bsites"]:
            bad("tables:w90_lines_vs_symmetrizer_blocks", line_sites=lsites[:24], block_sites=out["bsites"][:24])
    if out["has_amn"] and out["asites"] != out["csites"]:
        bad("tables:amn_vs_centres", amn_sites=out["asites"][:24], centre_sites=out["csites"][:24])
    if out["w90_num_wann"] != r["num_wann"]:
        bad("write_wannier90:num_wann_line", expected=r["num_wann"], got=out["w90_num_wann"])
    exp_lines = sorted([l[0], l[1], l[2]] for l in r["lines"])
    if sorted(out["lines"]) != exp_lines and sorted(out["lines"]) != sorted(canon_lines(r["lines"])):
        bad("write_wannier90:every_entry_and_point_once", expected=exp_lines[:24], got=sorted(out["lines"])[:24])
    if (out["csites"] == out["bsites"]) != bool(r["agree_site"]) and out["has_blocks"]:
        cx.inc(cx.info, "agreement_differs_from_transcription")
    # copy keeps the block (information: copy() resets radial_nodes / spread_factor)
    return out, S


def full_shells_only(cs):
    """named exclusion of the numeric fixed-point sub-check: sub-shells and hybrids (pz, sp3, t2g, ...) need a site symmetry that
    keeps their span (SymOrbits!ShellAllowed, property C20); s, p, d, f are invariant under every operation"""
    return all(t in ("s", "p", "d", "f") for c in cs for t in c["tokens"])


def canon_lines(lines):
    c = W.canon_sites([(l[0] - 1, l[1]) for l in lines])[0]
    return [[a, b, l[2]] for (a, b), l in zip(c, lines)]


W_NUMORB = {"s": 1, "p": 3, "d": 5, "f": 7, "sp": 2, "p2": 2, "pxy": 2, "sp2": 3, "pz": 1, "sp3": 4, "sp3d2": 6, "t2g": 3, "eg": 2}      # = WyckProj!NumOrb


# ============================================================================= frames
def frame_call(cx, x, z, detail):
    from wannierberri.symmetry.projections import read_xzaxis
    h = stable(("ffmt", x, z), 3)
    conv = (lambda v: v) if h == 0 else ((lambda v: np.array(v)) if h == 1 else (lambda v: np.array(v, dtype=float) * 1.5))
    s, v = cx.call("read_xzaxis", detail, read_xzaxis, None if x is None else conv(list(x)), None if z is None else conv(list(z)), refusal=True)
    if s != "ok":
        return dict(ok=False, X=[0, 0, 0], Y=[0, 0, 0], Z=[0, 0, 0], unit=False), None
    d = W.frame_dirs(v)
    if d is None:
        cx.rep.violation("read_xzaxis:not_a_frame_of_small_integer_directions", dict(detail, got=np.asarray(v).tolist()))
        return None, None
    return dict(ok=True, **d), np.asarray(v, dtype=float)


def same_sense(u, v):
    c = np.cross(u, v)
    return not c.any() and int(np.dot(u, v)) > 0


def replay_frame(cx, s):
    rep = cx.rep
    x = list(s["inp"]["x"]) or None
    z = list(s["inp"]["z"]) or None
    f = s["res"]
    detail = dict(xaxis=x, zaxis=z)
    rep.case(("frame", tuple(x or ()), tuple(z or ())), nontrivial=bool(x or z))
    out, M = frame_call(cx, x, z, detail)
    if out is None:
        return
    cls = ("refuse:" + f["why"]) if not f["ok"] else ("frame:" + ("default" if not x and not z else "z_only" if not x else "x_only" if not z else "both"))
    cx.inc(cx.counts, cls)
    if out["ok"] != f["ok"]:
        rep.violation("read_xzaxis:" + ("accepted_what_must_be_refused" if out["ok"] else "refused_valid_axes"), dict(detail, spec=f["why"] or "frame"))
        return
    if not f["ok"]:
        return
    if not out["unit"] or not all(same_sense(out[k], list(f[k])) for k in "XYZ"):
        rep.violation("read_xzaxis:frame", dict(detail, expected_directions={k: list(f[k]) for k in "XYZ"}, got=M.tolist()))
        return
    cx.numeric["frame_row_dev"].append(float(np.abs(M - np.array([np.array(f[k]) / np.linalg.norm(f[k]) for k in "XYZ"])).max()))
    if abs(np.linalg.det(M) - 1.0) > 1e-9:
        rep.violation("read_xzaxis:not_right_handed", dict(detail, got=M.tolist()))


# ============================================================================= records (code -> spec)
def random_structure(rng):
    lat = rng.choice(["cubic", "tetra", "hex", "ortho"])
    cat = [[(1, (0, 0, 0))], [(1, (0, 0, 0)), (2, (6, 6, 3))], [(1, (0, 0, 0)), (2, (4, 8, 6))], [(1, (4, 8, 3)), (1, (8, 4, 9))],
           [(1, (0, 0, 0)), (2, (6, 6, 6))], [(1, (0, 0, 0)), (2, (3, 3, 3))], [(1, (0, 0, 0)), (1, (3, 3, 3))], [(1, (0, 0, 0)), (2, (6, 0, 3))],
           [(1, (0, 0, 2)), (1, (6, 6, 8))], [(1, (0, 0, 0)), (2, (6, 6, 0)), (3, (0, 0, 5))], [(1, (1, 2, 5))]]
    return lat, rng.choice(cat)


def rnd_point(rng):
    r = rng.random()
    if r < 0.5:
        return [rng.choice([0, 3, 4, 6, 8, 9]) for _ in range(3)]
    return [rng.randint(-DEN, 2 * DEN) for _ in range(3)]


def make_records(cx, rng, n_orbit, n_proj, n_frame, n_rot):
    rep = cx.rep
    recs = []
    # ---- orbits
    tries = 0
    while sum(1 for r in recs if r["kind"] == "orbit") < n_orbit and tries < 10 * n_orbit:
        tries += 1
        lat, sites = random_structure(rng)
        tr = rng.random() < 0.4
        sg = W.real_group(lat, sites, include_TR=tr)
        ops = W.ops_of(sg)
        p = rnd_point(rng)
        given = [p]
        for _ in range(rng.choice([0, 0, 1, 1, 2, 3])):
            c = rng.random()
            if c < 0.6:
                q = list(W.apply_op(rng.choice(ops), rng.choice(given)))
                q = [x % DEN + DEN * rng.randint(-1, 1) for x in q]
            elif c < 0.8:
                q = [x + DEN * rng.randint(-1, 1) for x in rng.choice(given)]
            else:
                q = rnd_point(rng)
            given.append(q)
        detail = dict(lattice=lat, sites=sites, include_TR=tr, given_over_12=given, recorded=True)
        out = orbit_calls(cx, sg, given, detail)
        if out is None:
            continue
        rep.case(("rec_orbit", lat, repr(sites), repr(given), tr))
        o = {k: out[k] for k in ("orbit", "ort", "ofp", "split", "amap", "T", "has_amap")}
        o["wy"] = {k: out["wy"][k] for k in ("ok", "pos", "rot", "trans")}
        recs.append(dict(kind="orbit", lat=lat, ops=ops, given=given, out=o))
    # ---- projection sets
    shells = sorted(W_NUMORB)
    tries = 0
    while sum(1 for r in recs if r["kind"] == "proj") < n_proj and tries < 10 * n_proj:
        tries += 1
        lat, sites = random_structure(rng)
        spinor = rng.random() < 0.4
        sg = W.real_group(lat, sites, include_TR=rng.random() < 0.3, spinor=spinor)
        cs = []
        for _ in range(rng.choice([1, 1, 2, 3])):
            toks = [rng.choice(shells if rng.random() < 0.5 else ["s", "p", "d", "sp3", "pz"]) for _ in range(rng.choice([1, 1, 2, 2, 3]))]
            pt = [rng.choice([0, 3, 4, 6, 8]) for _ in range(3)] if rng.random() < 0.8 else [rng.randint(0, DEN - 1) for _ in range(3)]
            cs.append(dict(pt=pt, tokens=toks, nosplit=len(toks) > 1 and rng.random() < 0.3))
        ops_ = W.ops_of(sg)
        if sum(len({W.mod(W.apply_op(o, c["pt"])) for o in ops_}) * (1 if c["nosplit"] else len(c["tokens"])) for c in cs) * len(ops_) > 700:
            continue           # cost only (rot_orb for every point x operation x entry)
        variant = rng.randrange(16)
        detail = dict(lattice=lat, sites=sites, spinor=spinor, projections=cs, variant=variant, recorded=True)
        built = build_set(cx, sg, cs, spinor, variant, detail)
        if built is None:
            continue
        projs, pset = built
        out = proj_tables(cx, sg, projs, pset, detail)
        if out is None:
            continue
        rep.case(("rec_proj", lat, repr(sites), repr(cs), spinor, variant))
        S = [dict(npts=n["npts"], entries=[list(t["tokens"])] if t["nosplit"] else [[x] for x in t["tokens"]], spinor=spinor) for n, t in zip(out["nums"], cs)]
        o = {k: out[k] for k in ("num_wann", "num_wann_scalar", "sym_num_wann", "w90_num_wann", "has_blocks", "has_amn", "bsites", "csites", "asites", "blocks", "lines")}
        o["nums"] = [{k: n[k] for k in ("per_site_scalar", "per_site", "num_wann", "num_wann_scalar", "orbitals")} for n in out["nums"]]
        recs.append(dict(kind="proj", lat=lat, cs=[dict(c) for c in cs], set=S, out=o, dev=out.get("centres_fixed_point_dev")))
    # ---- frames
    for _ in range(n_frame):
        def vec():
            c = rng.random()
            if c < 0.3:
                return None
            if c < 0.4:
                return rng.choice([[0, 0, 0], [1, 0, 0], [0, 0, 1], [-2, 0, 0], [0, 0, -3]])
            return [rng.randint(-3, 3) for _ in range(3)]
        x, z = vec(), vec()
        if x is not None and z is not None and rng.random() < 0.5 and any(z):        # make orthogonal pairs likely
            x = list(np.cross(z, [rng.randint(-1, 1), rng.randint(-1, 1), 1]))
            x = [int(v) for v in x]
            if max(abs(v) for v in x) > 3:
                x = [1, 0, 0]
        out, _ = frame_call(cx, x, z, dict(xaxis=x, zaxis=z, recorded=True))
        if out is None:
            continue
        rep.case(("rec_frame", repr(x), repr(z)))
        recs.append(dict(kind="frame", x=x or [], z=z or [], out=out))
    # ---- rotated frames
    from wannierberri.symmetry.projections import Projection
    tries = 0
    while sum(1 for r in recs if r["kind"] == "rotframe") < n_rot and tries < 10 * n_rot + 10:
        tries += 1
        lat = rng.choice(["cubic", "tetra", "ortho"])           # W is also the Cartesian matrix
        _, sites = random_structure(rng)
        sg = W.real_group(lat, sites)
        z = rng.choice([None, [0, 0, 1], [1, 1, 0], [1, 1, 1], [0, 1, 0]])
        x = None if z is None or rng.random() < 0.5 else [int(v) for v in np.cross([0, 0, 1] if z != [0, 0, 1] else [0, 1, 0], z)]
        pt = rnd_point(rng)
        detail = dict(lattice=lat, sites=sites, point=pt, xaxis=x, zaxis=z, recorded=True)
        s, P = cx.call("Projection(rotate_basis)", detail, Projection, position_num=[v / DEN for v in pt], orbital="p", spacegroup=sg, rotate_basis=True, xaxis=x, zaxis=z)
        if s != "ok":
            continue
        from wannierberri.symmetry.projections import read_xzaxis
        f0 = W.frame_dirs(read_xzaxis(x, z))
        rots = W.ints(np.array(P.wyckoff_position.rotations))
        m = rng.randrange(len(rots))
        f = W.frame_dirs(np.asarray(P.basis_list)[m])
        if f is None or f0 is None or len(P.basis_list) != P.num_points:
            rep.violation("Projection:basis_list", dict(detail, basis=np.asarray(P.basis_list)[m].tolist(), points=int(P.num_points), frames=len(P.basis_list)))
            continue
        rep.case(("rec_rot", lat, repr(sites), repr(pt), repr(x), repr(z), m))
        recs.append(dict(kind="rotframe", W=rots[m], f0=dict(ok=True, X=f0["X"], Y=f0["Y"], Z=f0["Z"]), f=dict(ok=True, X=f["X"], Y=f["Y"], Z=f["Z"]),
                         unit=bool(f["unit"] and f0["unit"])))
    return recs


SEND = dict(orbit=("kind", "ops", "given", "out"), proj=("kind", "set", "out"), frame=("kind", "x", "z", "out"), rotframe=("kind", "W", "f0", "f", "unit"))
REC_KEYS = {   # failing property clause -> violation key (same keys as the replay)
    "orbit": "get_orbit:not_every_image_once", "closed": "get_orbit:not_closed", "orbit_stabiliser": "get_orbit:orbit_stabiliser",
    "rottrans": "orbit_and_rottrans:operation_does_not_map", "wyck_status": "WyckoffPositionNumeric:status",
    "wyck_orbit": "WyckoffPositionNumeric:not_every_image_once", "wyck_given_first": "WyckoffPositionNumeric:given_not_first",
    "wyck_rottrans": "WyckoffPositionNumeric:operation_does_not_map", "ofp_union": "orbit_from_positions:not_union_of_orbits_once",
    "ofp_given_first": "orbit_from_positions:given_not_first", "ofp_closed": "orbit_from_positions:not_closed",
    "split": "split_into_orbits:not_the_partition_by_orbit", "atommap": "Dwann:atommap_T",
    "count": "Projection:counting", "total": "ProjectionsSet:num_wann", "symmetrizer_total": "symmetrizer:num_wann",
    "w90_num_wann": "write_wannier90:num_wann_line", "w90_every_line_once": "write_wannier90:every_entry_and_point_once",
    "centres_match_blocks": "tables:centres_vs_symmetrizer_blocks", "amn_matches_centres": "tables:amn_vs_centres",
    "lines_match_blocks": "tables:w90_lines_vs_symmetrizer_blocks",
    "refuse_iff": "read_xzaxis:status", "unit_rows": "frame:rows_not_unit", "frame_ok": "read_xzaxis:frame", "keeps_given": "read_xzaxis:frame",
    "towards_default": "read_xzaxis:frame", "orthogonal": "Projection:basis_list", "rows_rotated": "Projection:basis_list",
}


def corrupt(recs, rep):
    """binding self-test: corrupted copies of real records with the clause TLC must report"""
    bad = []

    def pick(pred, what):
        for r in recs:
            if pred(r):
                return copy.deepcopy(r)
        if rep.violations:
            return None
        raise MachineryError(f"binding self-test: no record with {what}")
    r = pick(lambda r: r["kind"] == "orbit" and len(r["out"]["orbit"]) > 1, "an orbit of several points")
    if r:
        r["out"]["orbit"] = r["out"]["orbit"][:-1]
        bad.append((r, "orbit"))
    r = pick(lambda r: r["kind"] == "orbit" and r["out"]["wy"]["ok"] and len({repr(x) for x in r["out"]["wy"]["pos"]}) > 1, "an accepted Wyckoff position of several points")
    if r:
        r["out"]["wy"]["pos"] = r["out"]["wy"]["pos"][1:] + r["out"]["wy"]["pos"][:1]
        bad.append((r, "wyck_rottrans"))
    r = pick(lambda r: r["kind"] == "orbit" and len(r["out"]["split"]) > 1, "positions from two orbits")
    if r:
        r["out"]["split"] = [r["out"]["split"][0] + r["out"]["split"][1]] + r["out"]["split"][2:]
        bad.append((r, "split"))
    r = pick(lambda r: r["kind"] == "orbit" and not r["out"]["wy"]["ok"], "a refused Wyckoff position")
    if r:
        r["out"]["wy"] = dict(ok=True, pos=r["out"]["ort"]["orbit"], rot=r["out"]["ort"]["rot"], trans=r["out"]["ort"]["trans"])
        bad.append((r, "wyck_status"))
    r = pick(lambda r: r["kind"] == "proj", "a projection set")
    if r:
        r["out"]["num_wann"] += 1
        bad.append((r, "total"))
    r = pick(lambda r: r["kind"] == "proj" and r["out"]["has_blocks"] and r["out"]["csites"] == r["out"]["bsites"] and len({repr(x) for x in r["out"]["csites"]}) > 1,
             "a consistent set on several sites")
    if r:
        c = r["out"]["csites"]
        j = next(k for k in range(1, len(c)) if c[k] != c[0])
        c[0], c[j] = c[j], c[0]
        bad.append((r, "centres_match_blocks"))
    r = pick(lambda r: r["kind"] == "frame" and r["out"]["ok"], "a returned frame")
    if r:
        r["out"]["Y"] = [-v for v in r["out"]["Y"]]
        bad.append((r, "frame_ok"))
    r = pick(lambda r: r["kind"] == "frame" and not r["out"]["ok"], "a refused pair of axes")
    if r:
        r["out"] = dict(ok=True, X=[1, 0, 0], Y=[0, 1, 0], Z=[0, 0, 1], unit=True)
        bad.append((r, "refuse_iff"))
    return bad


# ============================================================================= check
def check(pid, tier):
    rep = Report(pid, tier, "model_checking")
    tag = f"x04_{os.getpid()}"
    try:
        rc = _check(rep, tier, tag)
    except Exception as ex:
        if rep.violations:
            print(f"[{pid}] the check stopped early ({type(ex).__name__}: {str(ex)[:300]}); reporting the violations collected so far")
            try:
                return rep.finish()
            except Exception:
                pass
        raise
    if rc == 0:
        for d in glob.glob(os.path.join(WORK, "tlc", f"*{tag}*")) + glob.glob(os.path.join(WORK, "records", f"{tag}*")):
            shutil.rmtree(d, ignore_errors=True)
    return rc


def failed_laws(st):
    import re
    m = re.findall(r"failed = (\{[^}]*\})", st.get("output", ""))
    return set(re.findall(r'"(\w+)"', m[-1])) if m else set()


def sorted_states(st, pc):
    out = [s for s in ftable.dump_states(st) if s["pc"] == pc]
    out.sort(key=lambda s: repr((s["lat"], s["sites"], s["inp"])))
    return out


def _check(rep, tier, tag):
    thorough = tier == "thorough"
    rng = random.Random(seed() * 104729 + 4)
    cx = Ctx(rep)
    cx.numeric = dict(max_dev_agree=[], max_dev_disagree=[], frame_row_dev=[])
    rep.rule("TLC enumerates (a) every list of given positions of the catalogue (single points, images shifted by lattice vectors, repeated points, "
             "points of other orbits) under the space group of every catalogue structure on cubic / tetragonal / hexagonal cells, (b) every "
             "projection set of the catalogue (orbital strings x do_not_split x spinor x one or two projections) on three structures, (c) every "
             "pair (xaxis, zaxis) of the vector catalogue incl. None; a case = one finished TLC state executed on the real functions / classes "
             "(quick: seeded sample of the orbit and projection states, all frame states), plus seeded random recorded calls validated by TLC; "
             "distinct by input")
    rep.assume("positions are multiples of 1/12 given as correctly rounded floats; frame vectors are integer with |component| <= 3 (possibly scaled by 1.5)")
    rep.assume("space groups are irrep SpaceGroup objects of non-magnetic cells (spglib finds the operations; they are compared with the specification's SpaceGroupOf)")
    runs = [("orbit", "orbit", dict(structs="thorough" if thorough else "quick", pts="thorough" if thorough else "quick")),
            ("proj", "proj", dict(structs="proj", pts="proj", toks="thorough" if thorough else "quick")),
            ("frame", "frame", dict())]

    def run_main(a):
        name, mode, kw = a
        return name, ftable.enumerate_states("MC_WyckProj.tla", cfg(mode, **kw), f"{tag}_{name}", workers=WORKERS, timeout=3000)

    def run_variant(a):
        name, mode, kw, laws = a
        kw = dict(kw)
        return name, tlc.run_tlc("MC_WyckProj.tla", cfg(mode, **kw), f"{tag}_v_{name}", workers=2, timeout=1500, coverage=False)
    with ThreadPoolExecutor(max_workers=3) as ex:
        futs = [ex.submit(run_main, a) for a in runs] + [ex.submit(run_variant, a) for a in VARIANTS]
        import wannierberri  # noqa: F401  (import while TLC runs)
        res = dict(f.result() for f in futs)
    import time as _t
    tm = dict(tlc_models_and_variants=round(_t.time() - rep.t0, 1))
    t1 = _t.time()
    # ---- sensitivity self-tests
    for name, mode, kw, laws in VARIANTS:
        st = res[name]
        got = failed_laws(st)
        if not st.get("violation") or st["violation"][1] != "NoFailedLaw" or not (got & laws):
            raise MachineryError(f"sensitivity self-test {name}: TLC should report one of {sorted(laws)} as failed, it says {st.get('violation')} {sorted(got)} "
                                 f"{(st.get('error') or '')[:300]}")
        rep.part("variant_" + name, rejected_by=sorted(got), must_fail=True, **({"this_is_the_code_as_it_is": True} if name.endswith("asis") else {}))
    for name, _, _ in runs:
        st = res[name]
        ftable.spec_violation(rep, st, f"x04_{name}")
        rep.add_tlc(f"x04_{name}", st)
    if rep.violations:
        return rep.finish()
    tlc.check_not_vacuous(res["orbit"], ["Build", "Probe"], "x04_orbit")
    tlc.check_not_vacuous(res["proj"], ["Build", "MkSet"], "x04_proj")
    tlc.check_not_vacuous(res["frame"], ["Eval"], "x04_frame")

    # ---- spec -> code: orbits
    groups = dict(ops={}, checked=set())
    nexcl = 0
    for s in ftable.dump_states(res["orbit"]):
        if s["pc"] == "built":
            groups["ops"][(s["lat"], tuple((x["type"], tuple(x["pos"])) for x in s["sites"]))] = [dict(W=o["W"], t=o["t"]) for o in s["ops"]]
        elif s["pc"] == "excluded":
            nexcl += 1
    if not nexcl:
        raise MachineryError("the exclusion PrimitiveCell never occurred in the orbit model")
    probed = sorted_states(res["orbit"], "probed")
    if any(s["failed"] for s in probed):
        raise MachineryError("a probed state carries failed laws although the invariant holds")
    nsel = len(probed) if thorough else 90
    sel = probed if nsel >= len(probed) else [probed[i] for i in sorted(rng.sample(range(len(probed)), nsel))]
    if not thorough:      # every structure and every shape of the given list at least once
        seen = {(s["lat"], repr(s["sites"])) for s in sel}
        sel += [s for s in probed if (s["lat"], repr(s["sites"])) not in seen and not seen.add((s["lat"], repr(s["sites"])))]
    first = None
    for s in sel:
        o = replay_orbit(cx, s, groups)
        if first is None and o and len(s["inp"]["given"]) > 1:
            first = dict(lattice=s["lat"], sites=[(x["type"], x["pos"]) for x in s["sites"]], given_over_12=s["inp"]["given"], orbit=o[0]["orbit"][:6],
                         WyckoffPositionNumeric=dict(ok=o[0]["wy"]["ok"], positions=o[0]["wy"]["pos"][:6]), split=o[0]["split"])
    if first:
        rep.sample(first)
    tm["replay_orbit"] = round(_t.time() - t1, 1)
    t1 = _t.time()
    rep.part("orbit_model", structures_built=len(groups["ops"]), structures_excluded_not_primitive=nexcl, probed_states=len(probed), replayed=len(sel))
    # ---- spec -> code: projection sets
    made = sorted_states(res["proj"], "made")
    nsel = len(made) if thorough else 150
    selp = made if nsel >= len(made) else [made[i] for i in sorted(rng.sample(range(len(made)), nsel))]
    first = None
    for s in selp:
        o = replay_proj(cx, s)
        if first is None and o and len(o[1]) > 1:
            first = dict(lattice=s["lat"], projections=[dict(pt=c["pt"], orbital=";".join(c["tokens"]), do_not_split=c["nosplit"]) for c in s["inp"]["cs"]],
                         spinor=s["inp"]["spinor"], num_wann=o[0]["num_wann"], blocks=o[0]["blocks"], centre_sites=o[0]["csites"][:10], block_sites=o[0]["bsites"][:10])
    if first:
        rep.sample(first)
    tm["replay_proj"] = round(_t.time() - t1, 1)
    t1 = _t.time()
    rep.part("proj_model", states=len(made), replayed=len(selp))
    # ---- spec -> code: frames
    framed = sorted_states(res["frame"], "framed")
    for s in framed:
        replay_frame(cx, s)
    rep.sample(dict(read_xzaxis=dict(xaxis=None, zaxis=[1, 1, 2]), expected_directions=next(
        ({k: list(s["res"][k]) for k in "XYZ"} for s in framed if not s["inp"]["x"] and tuple(s["inp"]["z"]) == (1, 1, 2)), None)))
    need = ["dwann:atommap", "orbit:size1", "orbit:general", "orbit:special", "wyck:accepted", "wyck:refused", "given:repeated", "given:unreduced", "group:with_translations",
            "lattice:cubic", "lattice:tetra", "lattice:hex", "string:constant", "set:multi_entry_multi_point", "set:single_entry_or_point", "set:do_not_split",
            "set:spinor", "set:scalar", "set:two_projections", "set:one_projection", "set:string_position", "set:built_with_add",
            "refuse:zero", "refuse:collinear", "refuse:nonorthogonal", "frame:default", "frame:z_only", "frame:x_only", "frame:both"]
    for n in need:
        if not cx.counts.get(n) and not rep.violations:
            raise MachineryError(f"case class {n} never occurred ({cx.counts})")
    rep.part("replay", **cx.counts)

    # ---- code -> spec: records
    nr = (150, 160, 400, 80) if thorough else (24, 30, 80, 12)
    tm["replay_frame"] = round(_t.time() - t1, 1)
    t1 = _t.time()
    recs = make_records(cx, rng, *nr)
    tm["make_records"] = round(_t.time() - t1, 1)
    t1 = _t.time()
    kinds = {k: sum(1 for r in recs if r["kind"] == k) for k in ("orbit", "proj", "frame", "rotframe")}
    for k, n in kinds.items():
        if n == 0 and not rep.violations:
            raise MachineryError(f"no record of kind {k}")
    badrecs = corrupt(recs, rep)
    clean = [{k: v for k, v in r.items() if k in SEND[r["kind"]]} for r in recs + [b for b, _ in badrecs]]
    stv, bad_ = ftable.validate_records("WyckProjRec.tla", REC_CFG, clean, tag, chunk=5000, timeout=3000)
    b2 = {j: bad_.pop(len(recs) + j, []) for j in range(len(badrecs))}
    stv["distinct"] -= len(badrecs)
    stv["generated"] -= 2 * len(badrecs)
    tm["validate_records"] = round(_t.time() - t1, 1)
    rep.part("timing_s", **tm)
    rep.add_tlc("x04_records", stv)
    rep.add_traces(len(recs))
    rinfo = {}
    outside = []
    for i, clauses in sorted(bad_.items()):
        r = recs[i]
        hard = [c for c in clauses if not c.startswith("info_")]
        for c in clauses:
            if c.startswith("info_"):
                cx.inc(rinfo, c)
        if "in_model" in hard:
            outside.append(i)
            continue
        for c in hard:
            small = {k: v for k, v in r.items() if k != "ops"}
            rep.violation(REC_KEYS.get(c, f"recorded:{r['kind']}:{c}"), dict(record=small, failing_clauses=hard, number_of_operations=len(r.get("ops", []))))
    if outside and not rep.violations:
        raise MachineryError(f"recorded call outside the model: {[recs[i]['kind'] for i in outside[:3]]} {str(recs[outside[0]])[:300]}")
    rinfo["records_" + "_".join(f"{k}{n}" for k, n in kinds.items())] = len(recs)
    rinfo["proj_records_multi_entry_multi_point"] = sum(1 for r in recs if r["kind"] == "proj" and any(len(x["entries"]) > 1 and x["npts"] > 1 for x in r["set"]))
    rinfo["rotframe_left_handed"] = rinfo.get("info_right_handed", 0)
    rep.part("records_info", **rinfo)
    missed = [c for j, (_, c) in enumerate(badrecs) if c not in b2.get(j, [])]
    if missed and not rep.violations:
        raise MachineryError(f"binding self-test failed: corrupted records accepted (expected failing clauses {missed}, TLC says {b2})")
    rep.part("binding_selftest", corrupted_records_rejected={str(k): v for k, v in b2.items()})
    for r in recs:
        if r["kind"] == "proj" and r.get("dev") is not None and full_shells_only(r["cs"]):
            cx.numeric["max_dev_agree" if r["out"]["csites"] == r["out"]["bsites"] else "max_dev_disagree"].append(r["dev"])
    rep.part("conformance_info", **cx.info)
    rep.part("numeric_only", centres_fixed_point_max_dev_when_tables_agree=max(cx.numeric["max_dev_agree"], default=None),
             centres_fixed_point_min_dev_when_tables_disagree=min(cx.numeric["max_dev_disagree"], default=None),
             frame_rows_max_dev=max(cx.numeric["frame_row_dev"], default=None))
    if cx.numeric["max_dev_agree"] and max(cx.numeric["max_dev_agree"]) > 1e-6:
        rep.violation("symmetrize_wannier_property:initial_centres_not_a_fixed_point", dict(max_deviation=max(cx.numeric["max_dev_agree"]),
                      what="site sequences of centres and blocks agree, yet the symmetrised initial centres differ from the initial centres (reduced coordinates, modulo 1)"))
    return rep.finish()
