"""C07: symmetry reduction and symmetrisation are exact for symmetric systems.

spec  : KSymBase.tla (groups acting on grid points and integer tensors = PointSymmetry.transform_tensor, get_K_list),
        IrredKernel.tla (covariant fields, the irreducible + symmetrised integral, the full integral, tabulation + to_grid),
        MC_IrredKernel.tla (group x dense grid x rank x true parities x source field; BuildField -> Factorise -> Integrate),
        IrredKernelRec.tla (record validation)
bind  : spec -> code: for finished TLC states (every group and grid, a seeded sample of the factorisations) the specification's
        covariant integer field is injected into the real run() through a synthetic calculator / tabulator reading
        data_K.kpoints_all; the irreducible + symmetrised run, the full unsymmetrised run (and, for a subset, the full run with
        symmetrisation alone) must return the specification's exact integral, and the tabulated values on the grid must be the
        field itself at every grid point.
        code -> spec: random integer fields symmetrised by the harness, run through the real run(); TLC checks on the record that
        the field is covariant (the synthetic system really has the group), and every clause of IrredKernel on the returned
        numbers.
float (deciding): covariant float / complex fields of rank 1-3 with the transforms the package declares beyond the model
        (transpose_axes (0,2,1) / (1,0,2), conj, swap_axes) on cubic groups and of rank 1-2 on hexagonal groups (irrational Cartesian
        rotations); every integrating and tabulating calculator of the package on exactly symmetric spinful models with all matrices
        for the groups {E,T}, {E,I}, {E,I,T,IT}; genuinely symmetric tight-binding models (random models averaged over a catalogue
        group incl. magnetic groups, bundled Haldane / Chiral / Kane-Mele models): irreducible + symmetrised vs full run, one of
        them also with one step of adaptive refinement of every K-point.
"""
import os
import copy
import json
import random
import numpy as np

from .. import tlc, ftable
from ..common import Report, MachineryError, seed, quiet, workdir, WORK, VERIF
from . import _ksym as KS
from .c03 import run_model, tla_set, vec, energies_safe, compare_resultdicts, cleanup, cpu_seconds, cpu_split, WORKERS

PROPS = {
    "C07": dict(level="model_checking",
                technique="TLC exhaustive on IrredKernel.tla (irreducible + symmetrised integral = full integral = full integral with "
                          "symmetrisation alone, to_grid reproduces the tabulated field, for every catalogue group x grid x factorisation x "
                          "tensor rank 0-2 x TR/inversion behaviour, for hash fields and - model only, thorough tier - for the delta basis of all "
                          "integer fields) + replay of finished TLC states (every group and grid, seeded sample of factorisations: quick at most 40 run "
                          "configurations, thorough 500) through the real run() with the specification's covariant field injected via "
                          "data_K.kpoints_all + TLC validation of recorded runs + float comparisons (fields with the transforms outside the "
                          "model, all real calculators on symmetric models)",
                text="TLC builds covariant integer tensor fields (rank 0-2, even/odd/transposing under time reversal and inversion) for the "
                     "catalogue of magnetic point groups (quick: 8 and without the transposing rank-2 behaviour, thorough: 25) and checks that the weighted, symmetrised sum over the "
                     "irreducible K-points equals the plain sum over the full grid and that the symmetry images collected by to_grid reproduce "
                     "the field; a wrongly declared parity is rejected. Sampled finished states are executed on the real run() "
                     "(use_irred_kpt=True vs use_irred_kpt=False, symmetrize=False; symmetrize=True alone for a subset) with a synthetic "
                     "calculator and a synthetic tabulator and compared with the exact value. Outside the model and decided in floating "
                     "point (tolerance >= 1e4 x the deviation of the unchanged tree): rank-3 tensors and the transforms transpose (0,2,1) / "
                     "(1,0,2), conj, swap_axes; vectors and rank-2 tensors on hexagonal lattices; the DECLARED parities of the package's own "
                     "calculators - every static, dynamic, SDCT and tabulating calculator found by reflection is run irreducible + symmetrised "
                     "vs full on exactly symmetric spinful models for {E,T}, {E,I}, {E,I,T,IT} and a subset on symmetrised random models of 4 "
                     "(thorough 17) catalogue groups and the bundled Haldane / Chiral / Kane-Mele models; one model also with adaptive "
                     "refinement of every K-point.",
                note="exact tensors need integer Cartesian rotations: cubic-type lattices for ranks 0-2, hexagonal groups with rank 0 (scalar / "
                     "pseudo-scalar); results are compared after scaling by the number of k-points (tolerance 1e-8 on integers). Symmetric "
                     "systems are s-like orbitals at the origin (synthetic and symmetrised-random models), orbitals at inversion-symmetric "
                     "sites with parities and spinors ({E,T}, {E,I}, {E,I,T,IT} models) and the three bundled C3z models: non-symmorphic "
                     "groups and rotations acting on p/d orbitals are not covered. sdct.SDCT_asym under time reversal is a known defect "
                     "(known finding of C08, Formula_SDCT_surf_II(sym=False)); it is reported under known_elsewhere, not as a violation. "
                     "tetra=True calculators are compared on symmetrised-random planar models (NKdiv 4, 8, 16): a deviation of discretisation size "
                     "(tetra=False agrees to 1e-8 and the relative tetra deviation stays below 0.1 on the grids NKdiv 4, 8, 16) is the known finding "
                     "run:tetra:irreducible_vs_full, any other one is run:tetra:irreducible_vs_full:unexplained",
                ref="DESIGN.md 3.3, 5 (C07)"),
}

IK_INVS = ["FieldCovariant", "IrredEqualsFull", "FullIsGridSum", "TabOnGrid", "SymOnlyEqualsFull"]
TOL = 1e-8


def ik_cfg(groups, ns, ranks, seeds, deltas, transpose, declared="true"):
    return ("SPECIFICATION Spec\nCONSTANTS\n"
            f"  GROUPS = {tla_set(groups)}\n  NS <- {ns}\n  RANKS = {tla_set(ranks)}\n  SEEDS = {tla_set(seeds)}\n"
            f"  DELTAS = {'TRUE' if deltas else 'FALSE'}\n  TRANSPOSE = {'TRUE' if transpose else 'FALSE'}\n  Declared = \"{declared}\"\n"
            + "".join(f"INVARIANT {i}\n" for i in IK_INVS) + "CHECK_DEADLOCK FALSE\n")


def par(t):
    """spec transform record -> (factor, transpose)"""
    return (int(t["f"]), bool(t["t"]))


def parname(p):
    return ("e" if p[0] == 1 else "o") + ("t" if p[1] else "")


def tensor(rank, v):
    return np.array(v, dtype=float).reshape((3,) * rank)


def field_array(fld, N, rank):
    """flat sequence (x outermost) of tensors -> array N + (3,)*rank"""
    return np.array([tensor(rank, v) for v in fld], dtype=float).reshape(tuple(N) + (3,) * rank)


# ------------------------------------------------------------------------------------------------------------------


def run_modes(rep, grp, N, div, fft, fields, runname, info, modes=("full", "irr"), transforms=None):
    """fields: {name: (table (nrow, Ntot)+(3,)*rank, rank, tTR, tInv)} with 'r0_e_e' present (tTR/tInv: spec pairs, or package
    Transforms when transforms='given').  Runs run() in the requested modes:
        full    : use_irred_kpt=False, symmetrize=False  (the reference)
        irr     : use_irred_kpt=True  (+ symmetrisation)
        symonly : use_irred_kpt=False, symmetrize=True
    -> {mode: ResultDict or None}.  The package raising on these valid inputs is a violation (the mode is then None); faults of the
    harness's own synthetic objects / calls are re-raised (exit 2)."""
    import wannierberri as wb
    system = KS.make_system(grp)
    tf = (lambda t: t) if transforms == "given" else KS.transform_of

    def calcs():
        c = {name: KS.FieldIntegrator(N, tab, rank, tf(tTR), tf(tInv)) for name, (tab, rank, tTR, tInv) in fields.items()}
        en = fields["r0_e_e"][0]
        c["tab"] = KS.FieldTabulator(N, np.real(en), {name: (tab, rank, tf(tTR), tf(tInv)) for name, (tab, rank, tTR, tInv) in fields.items()})
        return c
    out = {}
    grid = None
    for mode in ("full", "irr", "symonly"):
        if mode not in modes:
            continue
        if mode != "full" and out.get("full") is None:
            out[mode] = None
            continue
        try:
            if grid is None:
                with quiet():
                    grid = wb.Grid(system=system, NKdiv=list(div), NKFFT=list(fft))
            out[mode] = KS.run_wb(system, grid, calcs(), mode == "irr", runname, symmetrize=(mode != "full"))
        except (MachineryError, KS.NonIntegral):
            raise
        except Exception as ex:
            KS.report_exception(rep, ex, f"run:{mode}", dict(info, mode=mode))
            out[mode] = None
    return out


def tab_values(res, name, N):
    """tabulated quantity on the dense grid -> array (Ntot, nb) + (3,)*rank in flat order (x outermost), None when the result is
    not a tabulation on the grid N (run() puts grid tabulations on their grid; if it did not, the public to_grid is asked)"""
    t = res.results["tab"]
    Ntot = int(np.prod(N))
    for attempt in (0, 1):
        try:
            d = np.asarray(t.get_data(quantity=name))
        except Exception:
            d = None
        if d is not None and d.ndim >= 4 and tuple(d.shape[:3]) == tuple(N):
            return d.reshape((Ntot,) + d.shape[3:])
        if attempt == 0:
            try:
                with quiet():
                    t = t.to_grid(np.array(N))
            except Exception:
                return None
    return None


def part_kernel(rep, thorough, rng, tag):
    cart = sorted(KS.CART)
    hexg = sorted(KS.HEX)
    if thorough:
        cfgs = [("ik", ik_cfg(cart + hexg, "NSt", [0, 1, 2], [1, 2], False, True)),
                ("ik_big", ik_cfg(["C4v", "mFe", "T23", "Oh"], "NSb", [0, 1, 2], [1], False, False))]
    else:
        # quick: transposing rank-2 behaviour (transform_trans) is left to the thorough tier and to the float fields
        cfgs = [("ik", ik_cfg(["T", "C2v", "C4v", "mC4v", "mFe", "Oh", "H6v", "mH6v"], "NSq", [0, 1, 2], [1], False, False))]
    spec_groups = {}
    runs = {}          # (grp, N, div, fft) -> {(rank, tTR, tInv): {seed: state}}
    for name, cfg in cfgs:
        st = run_model(rep, "MC_IrredKernel.tla", cfg, name, timeout=3000, workroot=os.path.join(WORK, tag))
        ftable.spec_violation(rep, st, "c07_" + name)
        rep.add_tlc("c07_" + name, st)
        for s in KS.iter_dump(st["dump_path"], want='pc = "done"', drop=("gset", "klist", "ksets"), keep_first_of=("grp", spec_groups)):
            key = (s["grp"], vec(s["N"]), vec(s["div"]), vec(s["fft"]))
            runs.setdefault(key, {}).setdefault((int(s["rank"]), par(s["tTR"]), par(s["tInv"])), {})[int(s["src"]["seed"])] = s
    if not runs:
        raise MachineryError("no finished state in the MC_IrredKernel dump")
    for g in sorted(spec_groups):
        real = KS.project_group(KS.make_system(g).pointgroup)
        if real != spec_groups[g]:
            raise MachineryError(f"catalogue mismatch for group {g}: {sorted(real ^ spec_groups[g])[:3]}")
    keys = sorted(runs)
    cap = 500 if thorough else 40
    if len(keys) > cap:
        # keep every group and every grid, sample the factorisations
        rng.shuffle(keys)
        seen = set()
        first = [k for k in keys if (k[0], k[1]) not in seen and not seen.add((k[0], k[1]))]
        fs = set(first)
        rest = [k for k in keys if k not in fs]
        keys = sorted(first + rest[:max(0, cap - len(first))])
    nstates = nnonzero = nreduced = nsymonly = 0
    worst = 0.0
    symonly_groups = set()
    for key in keys:
        grp, N, div, fft = key
        Ntot = int(np.prod(N))
        nG = len(spec_groups[grp])
        combos = runs[key]
        fields = {}
        for (rank, tTR, tInv), by_seed in sorted(combos.items()):
            seeds = sorted(by_seed)
            tab = np.array([field_array(by_seed[s]["fld"], N, rank).reshape((Ntot,) + (3,) * rank) for s in seeds])
            fields[f"r{rank}_{parname(tTR)}_{parname(tInv)}"] = (tab, rank, tTR, tInv)
        if "r0_e_e" not in fields:
            raise MachineryError(f"model has no invariant scalar field for {key}")
        # symmetrisation alone: once per group (quick) / for every third configuration (thorough)
        with_symonly = (grp not in symonly_groups and nG > 1) if not thorough else (nstates % 3 == 0)
        symonly_groups.add(grp)
        base = dict(group=grp, generators=[str(g) for g in KS.generators_of(grp)], N=N, NKdiv=div, NKFFT=fft)
        try:
            res = run_modes(rep, grp, N, div, fft, fields, tag + "_run", base, modes=("full", "irr") + (("symonly",) if with_symonly else ()))
        except KS.NonIntegral as ex:
            rep.violation("run:kpoints_all_nonintegral", dict(base, what=str(ex)))
            continue
        r_full, r_irr, r_sym = res.get("full"), res.get("irr"), res.get("symonly")
        if r_full is None:
            continue
        nsymonly += r_sym is not None
        for (rank, tTR, tInv), by_seed in sorted(combos.items()):
            name = f"r{rank}_{parname(tTR)}_{parname(tInv)}"
            seeds = sorted(by_seed)
            info = dict(base, rank=rank, transformTR=dict(factor=tTR[0], transpose=tTR[1]), transformInv=dict(factor=tInv[0], transpose=tInv[1]))
            exp_full = np.array([tensor(rank, by_seed[s]["full"]) for s in seeds])
            exp_irr = np.array([tensor(rank, by_seed[s]["irr"]) for s in seeds]) / nG
            if np.abs(exp_irr - exp_full).max() > 0:
                raise MachineryError("dump inconsistent: irr != |G| full in a state that passed IrredEqualsFull")
            for s in seeds:
                nstates += 1
                rep.case(("ik", key, rank, tTR, tInv, s), nontrivial=bool(np.any(field_array(by_seed[s]["fld"], N, rank) != 0)))
            nnonzero += int(np.any(exp_full != 0))
            tol = TOL * max(1.0, float(np.abs(exp_full).max()))
            got_full = r_full.results[name].data * Ntot
            worst = max(worst, float(np.abs(got_full - exp_full).max() / max(1.0, np.abs(exp_full).max())))
            if np.abs(got_full - exp_full).max() > tol:
                rep.violation(f"run:full_vs_spec:rank{rank}", dict(info, field_seeds=seeds, expected=exp_full.tolist(), got=got_full.tolist(), unit="1/Ntot"))
            for label, r in (("irreducible", r_irr), ("symmetrize_only", r_sym)):
                if r is None:
                    continue
                got = r.results[name].data * Ntot
                worst = max(worst, float(np.abs(got - exp_full).max() / max(1.0, np.abs(exp_full).max())))
                if np.abs(got - exp_full).max() > tol:
                    rep.violation(f"run:{label}_vs_spec:rank{rank}:TR{parname(tTR)}:I{parname(tInv)}",
                                  dict(info, field_seeds=seeds, expected=exp_full.tolist(), got=got.tolist(), unit="1/Ntot",
                                       field=[by_seed[s]["fld"] for s in seeds][:1]))
                elif np.abs(got - got_full).max() > tol:
                    rep.violation(f"run:{label}_vs_full:rank{rank}", dict(info, got=got.tolist(), full=got_full.tolist()))
            # tabulation: per grid point the field itself
            exp_tab = np.swapaxes(fields[name][0], 0, 1)            # (Ntot, nseeds, 3..)
            for label, r in (("irreducible", r_irr), ("full", r_full)):
                if r is None:
                    continue
                got = tab_values(r, name, N)
                if got is None or got.shape != exp_tab.shape:
                    rep.violation(f"tab:{label}:not_on_the_dense_grid", dict(info, what="the tabulated values cannot be brought to the dense grid N",
                                                                            shape=None if got is None else list(got.shape)))
                    continue
                if not np.abs(got - exp_tab).max() <= 1e-9 * max(1.0, float(np.abs(exp_tab).max())):
                    rep.violation(f"tab:{label}:rank{rank}:TR{parname(tTR)}:I{parname(tInv)}",
                                  dict(info, expected=exp_tab.tolist()[:8], got=np.asarray(got).tolist()[:8], order="flat index, x outermost"))
        try:
            if int(np.prod(div)) > len(KS.real_klist(KS.make_system(grp), div, fft, True, with_ksets=False)[0]):
                nreduced += 1
        except MachineryError:
            raise
        except Exception:
            pass          # C03 reports K-list problems; here it is only a vacuity counter
        if len(rep.cov["samples"]) < 2 and nG > 2 and Ntot > 4:
            k0 = sorted(combos)[-1]
            s0 = combos[k0][sorted(combos[k0])[0]]
            rep.sample(dict(group=grp, N=N, NKdiv=div, NKFFT=fft, rank=k0[0], tTR=k0[1], tInv=k0[2], field_first_points=list(s0["fld"][:3]),
                            spec_full_integral_times_Ntot=s0["full"]))
    if (nnonzero == 0 or nreduced == 0) and not rep.violations:
        raise MachineryError(f"vacuous replay: nonzero integrals {nnonzero}, symmetry-reduced grids {nreduced}")
    rep.part("ik_replay", run_configurations_replayed=len(keys), of_model_run_configs=len(runs), fields_replayed=nstates,
             with_nonzero_integral=nnonzero, reduced_grids=nreduced, with_symmetrize_only_run=nsymonly, worst_relative_deviation=worst,
             tolerance="1e-8 * max(1, |expected integer|)")
    return spec_groups, sorted(runs)


def part_model_only(rep, thorough, tag):
    # the delta basis: by linearity this decides the clauses for every integer source field (TLC only, not replayed; thorough tier)
    if thorough:
        cfg = ik_cfg(sorted(KS.CART) + sorted(KS.HEX), "NSd", [0, 1, 2], [], True, True)
        st = run_model(rep, "MC_IrredKernel.tla", cfg, "delta", dump=False, timeout=3000, workroot=os.path.join(WORK, tag))
        ftable.spec_violation(rep, st, "c07_delta")
        rep.add_tlc("c07_delta", st)
        rep.part("c07_delta", replayed_on_the_code=False)
    # sensitivity: a wrongly declared parity must break the property
    for decl, groups in ((("flipInv", ["C4v"]), ("flipTR", ["T", "mFe"])) if thorough else (("flipTR", ["T", "mFe"]),)):
        s2 = tlc.run_tlc("MC_IrredKernel.tla", ik_cfg(groups, "NSs", [0, 1, 2], [1], False, False, decl), decl, workers=min(4, WORKERS),
                         coverage=False, timeout=900, workroot=os.path.join(WORK, tag))
        v = s2.get("violation")
        if not v or v[1] not in ("IrredEqualsFull", "TabOnGrid", "SymOnlyEqualsFull"):
            raise MachineryError(f"sensitivity self-test failed: Declared={decl} should violate IrredEqualsFull, TLC said {v} {s2.get('error')}")
        rep.part(f"c07_{decl}", sensitivity_violation=v[1])


# ------------------------------------------------------------------------------------------------------------------
# code -> spec


def to_ints(a, what):
    return KS.to_int(a, what, tol=1e-6)


def random_records(rep, n, rng, tag):
    names = sorted(KS.CART) + sorted(KS.HEX)
    recs = []
    tries = 0
    nprng = np.random.RandomState(rng.randrange(1 << 30))
    while len(recs) < n and tries < 40 * n:
        tries += 1
        grp = rng.choice(names)
        G = sorted(KS.project_group(KS.make_system(grp).pointgroup))
        a, c = rng.choice([1, 2, 3, 4, 6]), rng.choice([1, 1, 2, 3])
        b = a if rng.random() < 0.7 else rng.choice([1, 2, 4])
        N = (a, b, c)
        if rng.random() < 0.3:
            N = (a, a, a)
        Ntot = int(np.prod(N))
        if not KS.symmetric_grid(N, G) or Ntot * len(G) > 600 or Ntot < 2:
            continue
        divs = [d for d in np.ndindex(*[n_ + 1 for n_ in N]) if all(x > 0 for x in d) and all(N[i] % d[i] == 0 for i in range(3))
                and KS.symmetric_grid(d, G) and KS.symmetric_grid(tuple(N[i] // d[i] for i in range(3)), G)]
        div = rng.choice(divs)
        fft = tuple(N[i] // div[i] for i in range(3))
        rank = rng.choice([0, 1, 2]) if KS.is_cart(grp) else 0
        pars = [(1, False), (-1, False)] + ([(1, True), (-1, True)] if rank == 2 else [])
        tTR, tInv = rng.choice(pars), rng.choice(pars)
        h = nprng.randint(-3, 4, size=tuple(N) + (3,) * rank)
        f = KS.sym_field(h, N, G, rank, tTR, tInv)
        en = KS.sym_field(nprng.randint(0, 5, size=tuple(N)), N, G, 0, (1, False), (1, False))
        name = f"r{rank}_{parname(tTR)}_{parname(tInv)}"
        fields = {name: (f.reshape((1, Ntot) + (3,) * rank).astype(float), rank, tTR, tInv)}
        fields.setdefault("r0_e_e", (en.reshape(1, Ntot).astype(float), 0, (1, False), (1, False)))
        info = dict(group=grp, N=N, NKdiv=div, NKFFT=fft, rank=rank, transformTR=tTR, transformInv=tInv)
        try:
            res = run_modes(rep, grp, N, div, fft, fields, tag + "_run", info, modes=("full", "irr", "symonly"))
            if any(res.get(m) is None for m in ("full", "irr", "symonly")):
                continue          # reported by run_modes
            irr = to_ints(res["irr"].results[name].data[0] * Ntot, "irreducible result * Ntot")
            full = to_ints(res["full"].results[name].data[0] * Ntot, "full result * Ntot")
            symonly = to_ints(res["symonly"].results[name].data[0] * Ntot, "symmetrize-only result * Ntot")
            ti, tf = tab_values(res["irr"], name, N), tab_values(res["full"], name, N)
            if ti is None or tf is None:
                rep.violation("tab:not_on_the_dense_grid:recorded", dict(info, what="the tabulated values cannot be brought to the dense grid N"))
                continue
            tabirr = to_ints(ti[:, 0], "tabulated values (irreducible)")
            tabfull = to_ints(tf[:, 0], "tabulated values (full)")
        except KS.NonIntegral as ex:
            rep.violation("run:nonintegral_result", dict(info, what=str(ex)))
            continue
        rep.case(("rec", grp, N, div, rank, tTR, tInv, len(recs)))
        recs.append(dict(grp=grp, div=list(div), fft=list(fft), rank=rank, tTR=dict(f=tTR[0], t=tTR[1]), tInv=dict(f=tInv[0], t=tInv[1]),
                         fld=f.reshape((Ntot,) + (3,) * rank).astype(int).tolist(), irr=irr.tolist(), full=full.tolist(), symonly=symonly.tolist(),
                         tabirr=tabirr.tolist(), tabfull=tabfull.tolist()))
    if len(recs) < n and not rep.violations:
        raise MachineryError(f"only {len(recs)} of {n} records could be generated")
    return recs


def part_records(rep, recs, tag):
    if not recs:
        return

    # binding self-test: corrupted copies travel in the same batch (one TLC run) and must be rejected
    def bump(x):
        if not isinstance(x, list):
            return x + 1
        return [bump(x[0])] + x[1:]
    base = next((r for r in recs if r["rank"] >= 1 and np.any(np.array(r["fld"]) != 0)), recs[0])
    c1 = copy.deepcopy(base)
    c1["irr"] = bump(c1["irr"])
    c2 = copy.deepcopy(base)
    c2["tabirr"][-1] = bump(c2["tabirr"][-1])
    c3 = copy.deepcopy(base)
    c3["fld"][-1] = bump(c3["fld"][-1])
    c4 = copy.deepcopy(base)
    c4["symonly"] = bump(c4["symonly"])
    corrupted = [c1, c2, c3, c4]
    want = [{"irr_equals_full", "irr_is_spec"}, {"tab_irr"}, {"system_symmetric", "full_is_gridsum", "tab_irr", "tab_full"},
            {"symonly_equals_full", "symonly_is_spec"}]
    stv, bad = ftable.validate_records("IrredKernelRec.tla", ftable.REC_CFG, recs + corrupted, tag, timeout=2400, chunk=100000)
    stv = dict(stv, distinct=stv["distinct"] - len(corrupted), generated=stv["generated"] - 2 * len(corrupted))
    rep.add_tlc("c07_records", stv)
    rep.add_traces(len(recs))
    b2 = {i - len(recs): bad.pop(i) for i in sorted(bad) if i >= len(recs)}
    for i, w in enumerate(want):
        if i not in b2 or not (set(b2[i]) & w):
            raise MachineryError(f"binding self-test failed: corrupted record {i} accepted (failing clauses {b2.get(i)})")
    rep.part("binding_selftest", corrupted_records_rejected={str(i): b2[i] for i in b2})
    for i, clauses in sorted(bad.items()):
        r = recs[i]
        if "system_symmetric" in clauses or "shape" in clauses:
            raise MachineryError(f"harness built a non-covariant field for record {i}: {dict((k, r[k]) for k in ('grp', 'div', 'fft', 'rank', 'tTR', 'tInv'))}")
        site = "tab" if all(c.startswith("tab") for c in clauses) else "run"
        rep.violation(f"{site}:recorded:rank{r['rank']}", dict(record={k: v for k, v in r.items() if k not in ("tabirr", "tabfull")}, failing_clauses=clauses))
    rep.sample({k: v for k, v in recs[0].items() if k not in ("tabirr", "tabfull", "fld")})


# ------------------------------------------------------------------------------------------------------------------
# float fields: what the integer model does not contain (rank 3, transposes of three axes, conj, swap_axes, hexagonal tensors)


def T_(factor=1, conj=False, perm=None):
    return dict(factor=factor, conj=conj, perm=perm)


# (group, rank, transform under TR, transform under inversion, how the transposition is declared, complex field)
FLOAT_CASES_QUICK = [
    ("mC4v", 3, T_(-1, perm=(0, 2, 1)), T_(-1), "transpose_axes", False),         # transform_odd_trans_021 (dynamic.SHC)
    ("SiT", 3, T_(-1, perm=(0, 2, 1)), T_(1), "transpose_axes", False),
    ("D4hT", 3, T_(-1, perm=(1, 0, 2)), T_(1), "transpose_axes", False),          # transform_odd_trans_102 (formula.sdct)
    ("mC4v", 2, T_(-1, conj=True), T_(1), "transpose_axes", True),                # transform_odd_conj
    ("SiT", 2, T_(1, perm=(1, 0)), T_(-1), "swap_axes", False),                   # Transform(swap_axes=...)
    ("H6v", 1, T_(1), T_(-1), "transpose_axes", False),                           # polar vector, hexagonal
    ("mH6v", 2, T_(-1, perm=(1, 0)), T_(1), "transpose_axes", False),             # hexagonal rank 2, transposing and odd under TR
    ("TeT", 2, T_(1), T_(1), "transpose_axes", False),
    ("H3T", 1, T_(-1), T_(1), "transpose_axes", False),                           # axial vector odd under TR
    ("mFe", 2, T_(1, perm=(1, 0)), T_(1), "transpose_axes", False),               # transform_trans (OpticalConductivity), cubic
]
FLOAT_CASES_MORE = [
    ("Oh", 3, T_(1), T_(-1), "transpose_axes", False), ("mFe", 3, T_(-1, perm=(0, 2, 1)), T_(-1), "transpose_axes", False),
    ("mC4", 3, T_(-1, perm=(1, 0, 2)), T_(1), "swap_axes", False), ("T23", 3, T_(1), T_(1), "transpose_axes", False),
    ("mFe", 2, T_(1, conj=True, perm=(1, 0)), T_(-1), "transpose_axes", True), ("C4v", 3, T_(1), T_(-1), "transpose_axes", False),
    ("H6", 1, T_(1), T_(1), "transpose_axes", False), ("H6", 2, T_(1), T_(1), "transpose_axes", False),
    ("H3", 2, T_(1), T_(1), "transpose_axes", False), ("H6v", 2, T_(1), T_(-1), "transpose_axes", False),
    ("H3T", 2, T_(1, perm=(1, 0)), T_(1), "transpose_axes", False), ("TeT", 1, T_(-1), T_(1), "transpose_axes", False),
    ("mH6v", 1, T_(-1), T_(-1), "transpose_axes", False), ("TeT", 2, T_(-1, conj=True), T_(1), "transpose_axes", True),
]


def part_float_fields(rep, thorough, rng, tag, configs):
    """configs: the (grp, N, div, fft) run configurations of the TLC model (the specification decides groups, grids and factorisations)"""
    cases = FLOAT_CASES_QUICK + (FLOAT_CASES_MORE if thorough else [])
    nfields = 3 if thorough else 1
    nprng = np.random.RandomState(rng.randrange(1 << 30))
    by_grp = {}
    for c in configs:
        by_grp.setdefault(c[0], []).append(c)
    worst = 0.0
    ncase = nnonzero = 0
    for grp, rank, sTR, sInv, how, cplx in cases:
        G = sorted(KS.project_group(KS.make_system(grp).pointgroup))
        lat = KS.lattice_of(grp)
        cand = [c for c in by_grp.get(grp, []) if 4 <= int(np.prod(c[1])) <= 64]
        if not cand:          # group not in the (quick) model: grids on which both factors are symmetric
            shapes = (((4, 4, 1), (2, 2, 1)), ((4, 4, 1), (4, 4, 1)), ((2, 2, 2), (2, 2, 2)), ((4, 4, 4), (2, 2, 2))) if KS.is_cart(grp) else \
                (((3, 3, 2), (3, 3, 1)), ((3, 3, 1), (3, 3, 1)), ((6, 6, 1), (3, 3, 1)))
            for N, div in shapes:
                fft = tuple(n // d for n, d in zip(N, div))
                if KS.symmetric_grid(N, G) and KS.symmetric_grid(div, G) and KS.symmetric_grid(fft, G):
                    cand.append((grp, N, div, fft))
            if not cand:
                raise MachineryError(f"no symmetric grid chosen for {grp}")
        picks = [cand[rng.randrange(len(cand))] for _ in range(nfields)]
        tTR, tInv = KS.make_transform(sTR, how), KS.make_transform(sInv, how)
        for (_, N, div, fft) in picks:
            Ntot = int(np.prod(N))
            for redraw in range(6):
                h = nprng.randint(-3, 4, size=tuple(N) + (3,) * rank).astype(complex if cplx else float)
                if cplx:
                    h = h + 1j * nprng.randint(-3, 4, size=h.shape)
                f, defect = KS.sym_field_float(h, N, G, lat, rank, sTR, sInv)
                if np.abs(f).max() > 0:
                    break
                # every covariant field of this kind vanishes on this grid (e.g. inversion-odd on a grid of inversion-invariant points)
                (_, N, div, fft) = cand[rng.randrange(len(cand))]
                Ntot = int(np.prod(N))
            else:
                raise MachineryError(f"vacuous float case: covariant fields of {grp} rank {rank} vanish on every grid tried")
            en, _ = KS.sym_field_float(nprng.randint(0, 5, size=tuple(N)).astype(float), N, G, lat, 0, T_(1), T_(1))
            scale = max(1.0, float(np.abs(f).max()))
            if defect > 1e-10 * scale:
                raise MachineryError(f"harness built a non-covariant float field for {grp} rank {rank}: defect {defect}")
            from wannierberri.symmetry.point_symmetry import transform_ident
            fields = {"f": (f.reshape((1, Ntot) + (3,) * rank), rank, tTR, tInv),
                      "r0_e_e": (en.reshape(1, Ntot), 0, transform_ident, transform_ident)}
            info = dict(group=grp, N=N, NKdiv=div, NKFFT=fft, rank=rank, transformTR=sTR, transformInv=sInv, declared_with=how, complex=cplx)
            try:
                res = run_modes(rep, grp, N, div, fft, fields, tag + "_run", info, modes=("full", "irr", "symonly"), transforms="given")
            except KS.NonIntegral as ex:
                rep.violation("run:kpoints_all_nonintegral", dict(info, what=str(ex)))
                continue
            if res.get("full") is None:
                continue
            ncase += 1
            rep.case(("float", grp, N, div, rank, repr(sTR), repr(sInv), how, ncase))
            exp = f.reshape((Ntot,) + (3,) * rank).mean(axis=0)
            nnonzero += bool(np.abs(exp).max() > 1e-12)
            key = f"rank{rank}:TR{'o' if sTR['factor'] < 0 else 'e'}{'c' if sTR['conj'] else ''}{'' if sTR['perm'] is None else ''.join(map(str, sTR['perm']))}" \
                  f":I{'o' if sInv['factor'] < 0 else 'e'}:{how}:{'hex' if not KS.is_cart(grp) else 'cubic'}"
            for mode in ("full", "irr", "symonly"):
                r = res.get(mode)
                if r is None:
                    continue
                got = r.results["f"].data[0]
                dev = float(np.abs(got - exp).max())
                worst = max(worst, dev / scale)
                if not dev <= 1e-9 * scale:
                    rep.violation(f"float_field:{mode}:{key}", dict(info, expected=np.asarray(exp).tolist() if not cplx else str(exp.tolist()),
                                                                   got=np.asarray(got).tolist() if not cplx else str(got.tolist()), deviation=dev))
                if mode == "symonly":
                    continue
                tv = tab_values(r, "f", N)
                exp_tab = f.reshape((Ntot, 1) + (3,) * rank)
                if tv is None or tv.shape != exp_tab.shape:
                    rep.violation(f"float_field:tab:{mode}:not_on_the_dense_grid", dict(info, shape=None if tv is None else list(tv.shape)))
                    continue
                dev = float(np.abs(tv - exp_tab).max())
                worst = max(worst, dev / scale)
                if not dev <= 1e-9 * scale:
                    rep.violation(f"float_field:tab:{mode}:{key}", dict(info, deviation=dev, first_bad_point=int(np.argmax(np.abs(tv - exp_tab).reshape(Ntot, -1).max(axis=1)))))
    if ncase == 0 and not rep.violations:
        raise MachineryError("no float field case was run")
    rep.part("float_fields", deciding=True, cases=ncase, with_nonzero_integral=nnonzero, worst_relative_deviation=worst, tolerance=1e-9,
             what="covariant float/complex fields: rank 3 with transposes (0,2,1)/(1,0,2), conj, swap_axes on cubic groups; rank 1-2 on hexagonal "
                  "groups with Cartesian rotations from the catalogue element; integral (full / irreducible / symmetrize only) and tabulation")


# ------------------------------------------------------------------------------------------------------------------
# every calculator of the package on exactly symmetric spinful models: are the DECLARED parities the true ones?

# calculators whose formula needs matrices no System can be given (CCab) or whose formula class does not exist in the package
NOT_RUNNABLE = {"static.GME_orb_FermiSea_test", "static.Morb_test"}
TAB_NOT_RUNNABLE = {"DerOrbitalMoment_test"}
# quick tier: the three most expensive ones are left to the thorough tier
QUICK_SKIP = {"static.NLDrude_Zeeman_orb", "static.NLDrude_Zeeman_orb_Omega", "static.eMChA_FermiSurf"}
QUICK_TAB_SKIP = {"Der2OrbitalMoment", "Der2BerryCurvature"}
CORE = {"dynamic.InjectionCurrent", "dynamic.JDOS", "dynamic.OpticalConductivity", "dynamic.SHC", "dynamic.ShiftCurrent", "sdct.SDCT_asym",
        "sdct.SDCT_sym", "static.AHC", "static.AHC_Zeeman_orb", "static.AHC_Zeeman_spin", "static.AHC_test", "static.BerryDipole_FermiSea",
        "static.BerryDipole_FermiSea_test", "static.BerryDipole_FermiSurf", "static.CumDOS", "static.DOS", "static.GME_orb_FermiSea",
        "static.GME_orb_FermiSurf", "static.GME_spin_FermiSea", "static.GME_spin_FermiSurf", "static.Hall_classic_FermiSea",
        "static.Hall_classic_FermiSurf", "static.Morb", "static.NLAHC_FermiSea", "static.NLAHC_FermiSurf", "static.NLDrude_FermiSea",
        "static.NLDrude_FermiSurf", "static.NLDrude_Fermider2", "static.NLDrude_Zeeman_orb", "static.NLDrude_Zeeman_orb_Omega",
        "static.NLDrude_Zeeman_spin", "static.Ohmic_FermiSea", "static.Ohmic_FermiSurf", "static.OmegaOmega", "static.QuantumMetric_FermiSea",
        "static.QuantumMetric_Vel_DQ", "static.SHC", "static.Spin", "static.eMChA_FermiSurf"}
CORE_TAB = {"BerryCurvature", "Der2BerryCurvature", "Der2OrbitalMoment", "Der2Spin", "Der3E", "DerBerryCurvature", "DerOrbitalMoment", "DerSpin",
            "Energy", "InvMass", "OrbitalMoment", "Spin", "SpinBerry", "Velocity"}


def known_elsewhere():
    """calculators with a recorded (not yet repaired) defect that is a known finding of another property -> {name: reference}"""
    out = {}
    try:
        with open(os.path.join(VERIF, "known_findings.json")) as f:
            kf = json.load(f)
        for e in kf.get("findings", []):
            if e.get("property") == "C08" and "SDCT_surf_II" in e.get("key", ""):
                out["sdct.SDCT_asym"] = f"C08 {e['key']}"
    except Exception:
        pass
    return out


def runnable(system, name, mk, tag):
    """can this (non-core) calculator be built and evaluated at one k-point of this system?"""
    import wannierberri as wb
    try:
        with quiet():
            grid = wb.Grid(system=system, NKdiv=1, NKFFT=1)
            KS.run_wb(system, grid, {name: mk()}, False, tag + "_num")
        return True, None
    except Exception as ex:
        return False, f"{type(ex).__name__}: {str(ex)[:120]}"


def part_all_calculators(rep, thorough, rng, tag):
    import wannierberri as wb
    from wannierberri import calculators as calc
    from . import kmodels as km
    omega = np.linspace(0.5, 3.0, 3)
    known = known_elsewhere()
    stats = dict(comparisons=0, worst=0.0, models=[], calculators=0, tabulators=0)
    not_run = {}
    hits = {}
    groups = [("T", ["TimeReversal"], True, False), ("I", ["Inversion"], False, True), ("IT", ["Inversion", "TimeReversal"], True, True)]
    grids = [((4, 4, 1), (1, 1, 1))] + ([((3, 3, 1), (2, 2, 1))] if thorough else [])
    for label, gens, tr, inv in groups:
        done = False
        for attempt in range(8):
            sd = rng.randrange(1 << 30)
            m = km.build(sd, nw=2, keys=km.ALLKEYS, spinful=True, tr=tr, inv=inv)
            system = m.system(periodic=(True, True, False))
            with quiet():
                system.set_pointgroup(gens)
            Es = np.concatenate([km.grid_energies(m, tuple(a * b for a, b in zip(d, f))) for d, f in grids])
            lo, hi = float(Es.min()), float(Es.max())
            Ef = np.linspace(lo - 0.3, hi + 0.3, 7)
            if not energies_safe(Es, Ef):
                continue
            reg = KS.all_calculators(Ef, Ef[2:5], omega, skip=NOT_RUNNABLE | (set() if thorough else QUICK_SKIP))
            tabs = KS.all_tabulators(skip=TAB_NOT_RUNNABLE | (set() if thorough else QUICK_TAB_SKIP))
            for k in sorted(set(reg) - CORE):          # calculators added to the package later: only if they can run on this system
                ok, why = runnable(system, k, reg[k], tag)
                if not ok:
                    not_run[k] = why
                    del reg[k]
            for k in sorted(set(tabs) - CORE_TAB):
                ok, why = runnable(system, "tab", lambda k=k: calc.TabulatorAll({"Energy": calc.tabulate.Energy(), k: tabs[k]()}, mode="grid", save_mode=""), tag)
                if not ok:
                    not_run["tabulate." + k] = why
                    del tabs[k]
            stats["calculators"], stats["tabulators"] = len(reg), len(tabs)

            def mk(probe=False):
                d = {k: (KS.ScaleProbe(f()) if probe else f()) for k, f in reg.items()}
                d["tab"] = calc.TabulatorAll({k: c() for k, c in tabs.items()}, mode="grid", save_mode="")
                return d
            for div, fft in grids:
                N = tuple(a * b for a, b in zip(div, fft))
                info = dict(model=f"spinful kmodels {label}", generators=gens, model_seed=sd, NKdiv=div, NKFFT=fft)
                try:
                    with quiet():
                        grid = wb.Grid(system=system, NKdiv=list(div), NKFFT=list(fft))
                    probes = mk(probe=True)
                    r_full = KS.run_wb(system, grid, probes, False, tag + "_num")
                    if int(np.prod(fft)) == 1:
                        scales = {}
                        for k, p in probes.items():
                            if k != "tab":
                                cf = getattr(p.calc, "constant_factor", 1.0)
                                try:
                                    floor = abs(float(cf)) / float(system.cell_volume)
                                except Exception:
                                    floor = 0.0
                                scales[k] = max(p.scale, floor)
                    else:
                        scales = KS.term_scales(system, N, {k: f() for k, f in reg.items()}, tag + "_num")
                except MachineryError:
                    raise
                except Exception as ex:
                    KS.report_exception(rep, ex, f"run:full:all_calculators:{label}", info)
                    continue
                modes = [("irreducible", True, True)] + ([("symmetrize_only", False, True)] if (thorough or label == "T") else [])
                for mode, irr, sym in modes:
                    try:
                        r = KS.run_wb(system, grid, mk(), irr, tag + "_num", symmetrize=sym)
                    except MachineryError:
                        raise
                    except Exception as ex:
                        KS.report_exception(rep, ex, f"run:{mode}:all_calculators:{label}", info)
                        continue
                    rep.case(("allcalc", label, div, fft, mode))
                    stats["comparisons"] += 1
                    bad, w = compare_resultdicts(r_full, r, TOL, scales)
                    for k, d, sc in bad:
                        if k in known:
                            hits.setdefault(k, dict(reference=known[k], group=label, maxdiff=d, magnitude=sc))
                            continue
                        rep.violation(f"declared_parity:{mode}_vs_full:{k}", dict(info, group=label, calculator=k, maxdiff=d, magnitude=sc, tolerance=TOL,
                                                                                  what="irreducible K-points + symmetrisation with the DECLARED transformTR / "
                                                                                       "transformInv of the result does not reproduce the full-grid result"))
                    # the worst deviation of the calculators that are not a known finding
                    for k, v in r_full.results.items():
                        if k == "tab" or k in known:
                            continue
                        sc = max(float(np.abs(v.data).max()), scales.get(k, 0.0), 1e-300)
                        stats["worst"] = max(stats["worst"], float(np.abs(v.data - r.results[k].data).max()) / sc)
            stats["models"].append(label)
            done = True
            break
        if not done and not rep.violations:
            raise MachineryError(f"no {label}-symmetric model with safe energies in 8 attempts")
    if hits:
        rep.part("known_elsewhere", deviating=hits, note="defect already recorded as a known finding of another property; not a violation of C07 here")
    rep.part("all_calculators", deciding=True, groups=stats["models"], integrating_calculators=stats["calculators"], tabulators=stats["tabulators"],
             comparisons=stats["comparisons"], worst_relative_deviation=stats["worst"], tolerance=TOL, not_runnable_on_any_system=sorted(NOT_RUNNABLE | {"tabulate." + k for k in TAB_NOT_RUNNABLE}),
             new_calculators_not_runnable=not_run, left_to_thorough=[] if thorough else sorted(QUICK_SKIP | {"tabulate." + k for k in QUICK_TAB_SKIP}),
             what="every calculator found in calculators.static / dynamic / sdct / tabulate: irreducible + symmetrised (and symmetrisation alone) vs full "
                  "unsymmetrised run on spinful models with all real-space matrices that are exactly symmetric under {E,T}, {E,I}, {E,I,T,IT}")


# ------------------------------------------------------------------------------------------------------------------
# real calculators on genuinely symmetric models with rotations / mirrors / magnetic groups


def real_calculators(Ef, omega, berry=True, ext=False, per_band=True, tab=True):
    from wannierberri import calculators as calc
    kf = {} if ext else {"external_terms": False}
    sm = dict(save_mode="")
    c = {"cumdos": calc.static.CumDOS(Efermi=Ef, **sm),
         "dos": calc.static.DOS(Efermi=Ef, **sm),
         "ohmic_sea": calc.static.Ohmic_FermiSea(Efermi=Ef, **sm),
         "ohmic_surf": calc.static.Ohmic_FermiSurf(Efermi=Ef, **sm),
         "hall_classic": calc.static.Hall_classic_FermiSea(Efermi=Ef, **sm),
         "nldrude": calc.static.NLDrude_FermiSea(Efermi=Ef, **sm),
         "jdos": calc.dynamic.JDOS(Efermi=Ef[1::3], omega=omega, kBT=0.05, smr_fixed_width=0.2, **sm)}
    tabs = {"Energy": calc.tabulate.Energy(), "vel": calc.tabulate.Velocity(), "mass": calc.tabulate.InvMass()}
    if berry:
        c.update({"ahc": calc.static.AHC(Efermi=Ef, kwargs_formula=kf, **sm),
                  "bdipole_sea": calc.static.BerryDipole_FermiSea(Efermi=Ef, kwargs_formula=kf, **sm),
                  "bdipole_surf": calc.static.BerryDipole_FermiSurf(Efermi=Ef, kwargs_formula=kf, **sm),
                  "opt": calc.dynamic.OpticalConductivity(Efermi=Ef[1::3], omega=omega, kBT=0.05, smr_fixed_width=0.2, kwargs_formula=kf, **sm)})
        tabs["berry"] = calc.tabulate.BerryCurvature(kwargs_formula=kf)
        tabs["derberry"] = calc.tabulate.DerBerryCurvature(kwargs_formula=kf)
    if not per_band:      # degenerate bands (Kramers pairs): only band energies are compared per band
        tabs = {"Energy": calc.tabulate.Energy()}
    if tab:
        c["tab"] = calc.TabulatorAll(tabs, mode="grid", save_mode="")
    return c


def smooth_calculators(Ef, omega):
    """integrands that are smooth in the band energies (no Fermi step): safe at k-points whose energies were not inspected"""
    from wannierberri import calculators as calc
    kf = {"external_terms": False}
    dyn = dict(Efermi=Ef[1::3], omega=omega, kBT=0.05, smr_fixed_width=0.2, save_mode="")
    return {"opt": calc.dynamic.OpticalConductivity(kwargs_formula=kf, **dyn), "jdos": calc.dynamic.JDOS(**dyn)}


def no_degeneracy_on_grid(E, margin=1e-3):
    """named exclusion: per-band tabulated quantities are only defined where bands are not degenerate"""
    E = np.asarray(E).reshape(-1, np.asarray(E).shape[-1])
    if E.shape[1] < 2:
        return True
    return float(np.diff(np.sort(E, axis=1), axis=1).min()) > margin


def bundled_models():
    """(name, constructor of system, grid NKdiv/NKFFT list) for the bundled models with the symmetries tests/common_systems.py sets"""
    import wannierberri as wb
    from wannierberri import models as M

    def haldane():
        s = wb.system.System_R.from_pythtb(M.Haldane_ptb(delta=0.2, hop1=-1.0, hop2=0.15))
        s.set_pointgroup(["C3z"])
        return s

    def chiral():
        s = wb.system.System_R.from_pythtb(M.Chiral(delta=2, hop1=1, hop2=1. / 3, phi=np.pi / 10, hopz_left=0.2, hopz_right=0.0, hopz_vert=0))
        s.set_pointgroup(["C3z"])
        return s

    def kanemele():
        s = wb.system.System_R.from_pythtb(M.KaneMele_ptb('odd'), spin=True)
        s.set_pointgroup(["C3z", "TimeReversal"])
        return s
    return [("Haldane_ptb[C3z]", haldane, [((3, 3, 1), (2, 2, 1)), ((2, 2, 1), (3, 3, 1))], True),
            ("Chiral[C3z]", chiral, [((3, 3, 2), (2, 2, 1)), ((1, 1, 2), (3, 3, 2))], True),
            ("KaneMele_odd[C3z,TR]", kanemele, [((3, 3, 1), (2, 2, 1))], False)]


def compare_irr_full(rep, label, system, grids, calcs_fn, Ef, tol, stats, tag, per_band=True, refine=None):
    """-> True when every grid was compared, False when the model was excluded by a named predicate.
    refine: calculators (smooth integrands) that are additionally compared with one step of adaptive refinement of every K-point"""
    import wannierberri as wb
    scales = None
    for div, fft in grids:
        info = dict(model=label, NKdiv=div, NKFFT=fft, system_seed=seed())
        try:
            with quiet():
                grid = wb.Grid(system=system, NKdiv=list(div), NKFFT=list(fft))
            r_full = KS.run_wb(system, grid, calcs_fn(), False, tag + "_num")
        except MachineryError:
            raise
        except Exception as ex:
            KS.report_exception(rep, ex, "run:full:real_calculators", info)
            return True
        E = r_full.results["tab"].get_data(quantity="Energy")
        if not (energies_safe(E, Ef) and (no_degeneracy_on_grid(E) or not per_band)):
            stats["excluded"] += 1
            return False
        try:
            if scales is None:
                scales = KS.term_scales(system, tuple(int(a * b) for a, b in zip(div, fft)),
                                        {k: c for k, c in calcs_fn().items() if k != "tab"}, tag + "_num")
            r_irr = KS.run_wb(system, grid, calcs_fn(), True, tag + "_num")
        except MachineryError:
            raise
        except Exception as ex:
            KS.report_exception(rep, ex, "run:irreducible:real_calculators", info)
            continue
        rep.case(("num", label, div, fft))
        stats["comparisons"] += 1
        bad, w = compare_resultdicts(r_full, r_irr, tol, scales)
        stats["worst"] = max(stats["worst"], w)
        for k, d, sc in bad:
            rep.violation(f"numeric:irreducible_vs_full:{k}", dict(info, maxdiff=d, magnitude=sc, tolerance=tol))
    if refine is not None:
        div, fft = grids[0]
        info = dict(model=label, NKdiv=div, NKFFT=fft, system_seed=seed(), adpt_num_iter=1, refined="every K-point")
        try:
            with quiet():
                grid = wb.Grid(system=system, NKdiv=list(div), NKFFT=list(fft))
            big = 10 ** 6       # adpt_fac >= number of K-points: every K-point is refined, so both runs integrate the same finer grid
            rf = KS.run_wb(system, grid, refine(), False, tag + "_num", adpt_num_iter=1, adpt_fac=big)
            ri = KS.run_wb(system, grid, refine(), True, tag + "_num", adpt_num_iter=1, adpt_fac=big)
            r0 = KS.run_wb(system, grid, refine(), False, tag + "_num")
        except MachineryError:
            raise
        except Exception as ex:
            KS.report_exception(rep, ex, "run:adaptive_refinement", info)
            return True
        sc2 = KS.term_scales(system, tuple(int(a * b) for a, b in zip(div, fft)), refine(), tag + "_num")
        bad, w = compare_resultdicts(rf, ri, tol, sc2)
        stats["worst"] = max(stats["worst"], w)
        stats["refined"] += 1
        changed = max(float(np.abs(rf.results[k].data - r0.results[k].data).max()) for k in rf.results)
        if changed == 0.0:
            raise MachineryError("adaptive refinement did not change any result: the refinement case is vacuous")
        rep.case(("num_refined", label, div, fft))
        for k, d, sc in bad:
            rep.violation(f"numeric:refined:irreducible_vs_full:{k}", dict(info, maxdiff=d, magnitude=sc, tolerance=tol))
    return True


TETRA_KEY = "run:tetra:irreducible_vs_full"


def part_tetrahedron(rep, thorough, rng, tag):
    """tetra=True calculators on symmetrised-random models: irreducible + symmetrised and symmetrisation alone vs the full run.
    TetraWeightsParal cuts every face of the K-point's parallelepiped along one fixed diagonal, which a 4-fold rotation or a mirror
    maps to the other one (known finding TETRA_KEY).  A deviation is reported under that key ONLY when it is of discretisation size:
    the same run with tetra=False agrees to the tolerance on every grid AND the relative tetra deviation is discretisation-sized
    (decided on CumDOS and Ohmic_FermiSea: below 0.1 on the grids NKdiv 4, 8, 16 - the convergence need not be monotone; the tetrahedron DOS -
    a Fermi-level derivative - and AHC - a Berry-curvature integral that may vanish by symmetry - converge irregularly and follow the verdict
    of those two in the same run and mode).  Anything else is TETRA_KEY:unexplained, a violation."""
    import wannierberri as wb
    from wannierberri import calculators as calc
    Ef = np.linspace(-2.0, 2.0, 9) + 0.0137
    sizes = (4, 8, 16)
    pairs = {"cumdos_tetra": "cumdos", "ohmic_tetra": "ohmic", "ahc_tetra": "ahc", "dos_tetra": "dos"}
    sea = ("cumdos_tetra", "ohmic_tetra")          # smooth Fermi-sea integrals of band-structure quantities: the shrink rule is decided on them
    followers = ("ahc_tetra", "dos_tetra")        # Berry-curvature integrals that vanish by symmetry / Fermi-level derivatives converge
    #                                               irregularly: they follow the verdict of the sea quantities of the same run and mode

    def mk(tab=False):
        sm = dict(save_mode="")
        kf = {"external_terms": False}
        c = {"cumdos": calc.static.CumDOS(Efermi=Ef, **sm), "dos": calc.static.DOS(Efermi=Ef, **sm),
             "ohmic": calc.static.Ohmic_FermiSea(Efermi=Ef, **sm), "ahc": calc.static.AHC(Efermi=Ef, kwargs_formula=kf, **sm),
             "cumdos_tetra": calc.static.CumDOS(Efermi=Ef, tetra=True, **sm), "dos_tetra": calc.static.DOS(Efermi=Ef, tetra=True, **sm),
             "ohmic_tetra": calc.static.Ohmic_FermiSea(Efermi=Ef, tetra=True, **sm),
             "ahc_tetra": calc.static.AHC(Efermi=Ef, tetra=True, kwargs_formula=kf, **sm)}
        if tab:
            c["tab"] = calc.TabulatorAll({"Energy": calc.tabulate.Energy()}, mode="grid", save_mode="")
        return c
    summary = {}
    for grp in ["C4v"] + (["mC4v", "C2v"] if thorough else []):
        done = False
        for attempt in range(8):
            sd = rng.randrange(1 << 30)
            ham = KS.symmetric_hamiltonian(grp, random.Random(sd), nw=2, planar=True)
            system = KS.make_system(grp, nw=2, ham=ham, periodic=(True, True, False))
            info = dict(model=f"symmetrised-random[{grp}]", model_seed=sd, NKFFT=[1, 1, 1], NKdiv_sizes=list(sizes))
            dev = {"irreducible": {}, "symmetrize_only": {}}
            safe = True
            failed = False
            scales = None
            for n in sizes:
                try:
                    with quiet():
                        grid = wb.Grid(system=system, NKdiv=[n, n, 1], NKFFT=1)
                    rf = KS.run_wb(system, grid, mk(tab=True), False, tag + "_num")
                    if not energies_safe(rf.results["tab"].get_data(quantity="Energy"), Ef):
                        safe = False
                        break
                    if scales is None:
                        scales = KS.term_scales(system, (n, n, 1), mk(), tag + "_num")
                    rr = {"irreducible": KS.run_wb(system, grid, mk(), True, tag + "_num"),
                          "symmetrize_only": KS.run_wb(system, grid, mk(), False, tag + "_num", symmetrize=True)}
                except MachineryError:
                    raise
                except Exception as ex:
                    KS.report_exception(rep, ex, "run:tetra", dict(info, NKdiv=[n, n, 1]))
                    failed = True
                    break
                for mode, r in rr.items():
                    rep.case(("tetra", grp, sd, n, mode))
                    for k in list(pairs) + list(pairs.values()):
                        a, b = rf.results[k].data, r.results[k].data
                        sc = max(float(np.abs(a).max()), scales.get(k, 0.0), 1e-300)
                        dev[mode].setdefault(k, {})[n] = float(np.abs(a - b).max()) / sc
            if failed:
                done = True
                break
            if not safe:
                continue
            for mode in dev:
                verdict = {}
                for k in sea + followers:
                    d = dev[mode][k]
                    if max(d.values()) <= TOL:
                        verdict[k] = "equal"
                        continue
                    plain_ok = max(dev[mode][pairs[k]].values()) <= TOL
                    if k in sea:
                        shrinks = max(d.values()) <= 0.1          # discretisation-sized on every grid (convergence need not be monotone)
                    else:
                        shrinks = any(verdict.get(q) == "discretisation" for q in sea)
                    verdict[k] = "discretisation" if (plain_ok and shrinks) else "unexplained"
                    detail = dict(info, mode=mode, calculator=k, relative_deviation_by_NKdiv={str(n): v for n, v in d.items()},
                                  same_run_with_tetra_False={str(n): v for n, v in dev[mode][pairs[k]].items()}, tolerance=TOL,
                                  rule="known finding only if tetra=False agrees on every grid and the relative tetra deviation stays below 0.1 on every grid "
                                       "(NKdiv 4, 8, 16; decided on CumDOS / Ohmic_FermiSea; DOS and AHC follow them)")
                    rep.violation(TETRA_KEY if verdict[k] == "discretisation" else TETRA_KEY + ":unexplained", detail)
                summary[f"{grp}:{mode}"] = dict(verdict=verdict, cumdos_tetra={str(n): dev[mode]["cumdos_tetra"][n] for n in sizes})
            done = True
            break
        if not done and not rep.violations:
            raise MachineryError(f"tetrahedron part: 8 random {grp} models were all excluded by EnergiesSafe")
    rep.part("tetrahedron_with_symmetry", deciding=True, known_finding_key=TETRA_KEY, results=summary,
             what="CumDOS, DOS, Ohmic_FermiSea, AHC with tetra=True (and tetra=False next to them) on symmetrised-random planar models, NKdiv = 4, 8, 16: "
                  "irreducible + symmetrised and symmetrisation alone vs full")


def part_numeric(rep, thorough, rng, tag):
    Ef = np.linspace(-2.0, 2.0, 9) + 0.0137       # off the round band energies of the bundled models
    omega = np.linspace(0.0, 3.0, 4)
    stats = dict(comparisons=0, worst=0.0, excluded=0, refined=0)
    plan = [("C4v", True, [((2, 2, 1), (2, 2, 1)), ((4, 4, 1), (1, 1, 1))]),
            ("mC4v", True, [((2, 2, 1), (2, 2, 1)), ((1, 1, 1), (4, 4, 1))]),
            ("mFe", False, [((2, 2, 2), (2, 2, 1))]),
            ("Oh", False, [((2, 2, 2), (2, 2, 2))])]
    if thorough:
        plan += [("D2h", False, [((2, 3, 2), (2, 1, 1))]), ("T23", False, [((2, 2, 2), (2, 2, 2)), ((4, 4, 4), (1, 1, 1))]),
                 ("mC2x", True, [((3, 2, 1), (1, 2, 1))]), ("C4h", False, [((4, 4, 2), (1, 1, 1))]), ("SiT", False, [((2, 2, 2), (2, 2, 2))]),
                 ("mC4", True, [((4, 4, 1), (2, 2, 1))]), ("D4hT", False, [((2, 2, 1), (2, 2, 2))]), ("O", False, [((3, 3, 3), (1, 1, 1))]),
                 ("C2v", True, [((4, 2, 1), (1, 2, 1))])]
    models = []
    for ip, (grp, planar, grids) in enumerate(plan):
        for it in range(2 if thorough else 1):
            done = False
            for attempt in range(8):
                nw = rng.choice([2, 3])
                ham = KS.symmetric_hamiltonian(grp, rng, nw=nw, planar=planar)
                system = KS.make_system(grp, nw=nw, ham=ham, periodic=(True, True, not planar))
                refine = (lambda: smooth_calculators(Ef, omega)) if (it == 0 and (ip < 2 or thorough)) else None
                if compare_irr_full(rep, f"symmetrised-random[{grp}]", system, grids, lambda: real_calculators(Ef, omega), Ef, TOL, stats, tag, refine=refine):
                    done = True
                    break
            if done:
                models.append(grp)
            elif not rep.violations:
                raise MachineryError(f"plan entry {grp}: 8 random models were all excluded by EnergiesSafe / NoDegeneracyOnGrid")
    skipped = {}
    for label, mk, grids, per_band in bundled_models():
        try:
            with quiet():
                system = mk()
        except MachineryError:
            raise
        except Exception as ex:
            if KS.lib_fault(ex) is not None and not isinstance(ex, ImportError):
                KS.report_exception(rep, ex, "models:" + label.split("[")[0], dict(model=label))
            else:       # pythtb missing / constructor called with arguments it no longer has: not what is being checked here
                skipped[label] = repr(ex)[:200]
            continue
        if compare_irr_full(rep, label, system, grids if thorough else grids[:1],
                            lambda: real_calculators(Ef, omega, ext=True, per_band=per_band), Ef, TOL, stats, tag, per_band=per_band):
            models.append(label)
        elif not rep.violations:
            raise MachineryError(f"bundled model {label} is excluded by EnergiesSafe / NoDegeneracyOnGrid for the fixed Fermi levels")
    rep.part("real_calculators", deciding=True,
             what="irreducible + symmetrised vs full unsymmetrised run(): CumDOS, DOS, AHC, Ohmic (sea/surface), Hall_classic, NLDrude, "
             "BerryDipole (sea/surface), OpticalConductivity, JDOS, TabulatorAll(Energy, Velocity, InvMass, BerryCurvature, DerBerryCurvature); "
             "with one step of adaptive refinement of every K-point: OpticalConductivity, JDOS (smooth integrands)",
             models=models, comparisons=stats["comparisons"], refined_comparisons=stats["refined"], worst_relative_deviation=stats["worst"], tolerance=TOL,
             tolerance_over_worst=(TOL / stats["worst"] if stats["worst"] > 0 else None),
             excluded_by_EnergiesSafe_or_NoDegeneracyOnGrid=stats["excluded"], bundled_models_skipped=skipped)
    if stats["comparisons"] == 0 and not rep.violations:
        raise MachineryError("real-calculator part made no comparison")


def progress(what, t0):
    import time
    print(f"[C07] {what} done: cpu {cpu_seconds() - t0:.0f} s (python {cpu_split()['python']:.0f}), wall clock {time.strftime('%H:%M:%S')}", flush=True)


def check(pid, tier):
    rep = Report(pid, tier, "model_checking")
    thorough = tier == "thorough"
    rng = random.Random(seed() * 7919 + 7)
    os.environ.setdefault("JAVA_TOOL_OPTIONS", "-Xss64m")      # TLC worker threads evaluate deep (non-tail) recursions of the sort/fold operators
    tag = KS.scratch("c07")
    workdir(tag + "_run")
    workdir(tag + "_num")
    rep.rule("a case = one covariant field of a finished TLC state (group, dense grid, factorisation, rank, parities, source field) replayed through "
             "real run()s (full / irreducible+symmetrised / symmetrisation alone), one recorded random symmetric field validated by TLC, one float "
             "field with a transform outside the model, or one real model, grid and run mode compared with the full run; distinct by input tuple")
    rep.assume("the synthetic system 'has' the group: its integrand is a covariant field (checked by TLC on the spec side and on every record, "
               "numerically for the float fields)")
    rep.assume("exact tensors of rank >= 1 only on cubic-type lattices (integer Cartesian rotations); hexagonal groups: rank 0 exactly, rank 1-2 in float")
    rep.assume("real-calculator parts: EnergiesSafe (1e-6 from Fermi bin edges / degen_thresh) and, for per-band tabulations of the rotation-group "
               "models, NoDegeneracyOnGrid (gaps > 1e-3 at grid points); the refinement case uses integrands that are smooth in the band energies")
    try:
        t0 = cpu_seconds()
        spec_groups, configs = part_kernel(rep, thorough, rng, tag)
        progress("kernel", t0)
        part_model_only(rep, thorough, tag)
        progress("model_only", t0)
        part_records(rep, random_records(rep, 300 if thorough else 10, rng, tag), tag)
        t1 = cpu_seconds()
        progress("records", t0)
        part_float_fields(rep, thorough, rng, tag, configs)
        t2 = cpu_seconds()
        progress("float_fields", t0)
        part_all_calculators(rep, thorough, rng, tag)
        t3 = cpu_seconds()
        progress("all_calculators", t0)
        part_numeric(rep, thorough, rng, tag)
        progress("real_calculators", t0)
        part_tetrahedron(rep, thorough, rng, tag)
        progress("tetrahedron", t0)
        KS.flush_private(rep)
        rep.part("numeric_only", parts=["float_fields", "all_calculators", "real_calculators"],
                 note="float comparisons (deciding, but not part of the model_checking level claim)")
        rep.parts["numeric_only"]["parts"].append("tetrahedron_with_symmetry")
        rep.part("cpu_seconds", exact_parts=round(t1 - t0, 1), float_fields=round(t2 - t1, 1), all_calculators=round(t3 - t2, 1),
                 real_calculators=round(cpu_seconds() - t3, 1), **cpu_split())
    except Exception:
        if rep.violations:          # never lose what was already found
            KS.flush_private(rep)
            rep.finish()
        cleanup(tag, keep_tlc=True)
        raise
    rc = rep.finish()
    cleanup(tag, keep_tlc=bool(rep.violations))
    return rc
