"""C07: symmetry reduction and symmetrisation are exact for symmetric systems.

spec  : KSymBase.tla (groups acting on grid points and integer tensors = PointSymmetry.transform_tensor, get_K_list),
        IrredKernel.tla (covariant fields, the irreducible + symmetrised integral, the full integral, tabulation + to_grid),
        MC_IrredKernel.tla (group x dense grid x rank x true parities x source field; BuildField -> Factorise -> Integrate),
        IrredKernelRec.tla (record validation)
bind  : spec -> code: for every finished TLC state the specification's covariant integer field is injected into the real run()
        through a synthetic calculator / tabulator reading data_K.kpoints_all; the irreducible + symmetrised run and the full
        unsymmetrised run must both return the specification's exact integral, and the tabulated values after to_grid must be
        the field itself at every grid point.
        code -> spec: random integer fields symmetrised by the harness, run through the real run(); TLC checks on the record that
        the field is covariant (the synthetic system really has the group), and every clause of IrredKernel on the returned
        numbers.
numeric_only: genuinely symmetric tight-binding models (random models averaged over a catalogue group incl. magnetic groups,
        bundled Haldane / Chiral / Kane-Mele models with the symmetries the test-suite declares): irreducible + symmetrised vs
        full run for real static, dynamic and tabulating calculators.
"""
import os
import copy
import random
import shutil
import numpy as np

from .. import tlc, ftable
from ..common import Report, MachineryError, seed, quiet, workdir, WORK
from . import _ksym as KS
from .c03 import run_model, tla_set, vec, energies_safe, WORKERS

PROPS = {
    "C07": dict(level="model_checking",
                technique="TLC exhaustive on IrredKernel.tla (irreducible + symmetrised integral = full integral, to_grid reproduces the "
                          "tabulated field, for every catalogue group x grid x factorisation x tensor rank x TR/inversion behaviour, for "
                          "hash fields and for the delta basis of all integer fields) + replay of every finished TLC state through the real "
                          "run() with the specification's covariant field injected via data_K.kpoints_all + TLC validation of recorded runs",
                text="TLC builds covariant integer tensor fields (rank 0-2, even/odd/transposing under time reversal and inversion) for 25 "
                     "magnetic point groups and checks that the weighted, symmetrised sum over the irreducible K-points equals the plain sum "
                     "over the full grid and that the symmetry images collected by to_grid reproduce the field; a wrongly declared parity is "
                     "rejected. Each finished state is executed on the real run() (use_irred_kpt=True vs use_irred_kpt=False, "
                     "symmetrize=False) with a synthetic calculator and a synthetic tabulator and compared with the exact value. Real "
                     "calculators on genuinely symmetric models are compared numerically (numeric_only, not part of the level claim).",
                note="exact tensors need integer Cartesian rotations: cubic-type lattices for ranks 0-2, hexagonal groups with rank 0 (scalar / "
                     "pseudo-scalar); results are compared after scaling by the number of k-points (tolerance 1e-9 on integers)",
                ref="DESIGN.md 3.3, 5 (C07)"),
}

IK_INVS = ["FieldCovariant", "IrredEqualsFull", "FullIsGridSum", "TabOnGrid"]


def ik_cfg(groups, ns, ranks, seeds, deltas, transpose, declared="true"):
    return ("SPECIFICATION Spec\nCONSTANTS\n"
            f"  GROUPS = {tla_set(groups)}\n  NS <- {ns}\n  RANKS = {tla_set(ranks)}\n  SEEDS = {tla_set(seeds)}\n"
            f"  DELTAS = {'TRUE' if deltas else 'FALSE'}\n  TRANSPOSE = {'TRUE' if transpose else 'FALSE'}\n  Declared = \"{declared}\"\n"
            + "".join(f"INVARIANT {i}\n" for i in IK_INVS) + "CHECK_DEADLOCK FALSE\n")


def par(t):
    """spec transform record -> (factor, transpose)"""
    return (int(t["f"]), bool(t["t"]))


def parname(p):
    return ("e" if p[0] == 1 else "o") + ("t" if p[1] else "")


def tensor(rank, v):
    return np.array(v, dtype=float).reshape((3,) * rank)


def field_array(fld, N, rank):
    """flat sequence (x outermost) of tensors -> array N + (3,)*rank"""
    return np.array([tensor(rank, v) for v in fld], dtype=float).reshape(tuple(N) + (3,) * rank)


# ------------------------------------------------------------------------------------------------------------------


def run_pair(grp, N, div, fft, fields, runname):
    """fields: {name: (table (nrow, Ntot)+(3,)*rank, rank, tTR, tInv)} with 'r0_e_e' present.
    Runs the irreducible+symmetrised and the full unsymmetrised run() -> (res_irr, res_full)"""
    import wannierberri as wb
    system = KS.make_system(grp)
    out = []
    for irred in (True, False):
        calcs = {name: KS.FieldIntegrator(N, tab, rank, KS.transform_of(tTR), KS.transform_of(tInv))
                 for name, (tab, rank, tTR, tInv) in fields.items()}
        en = fields["r0_e_e"][0]
        calcs["tab"] = KS.FieldTabulator(N, en, {name: (tab, rank, KS.transform_of(tTR), KS.transform_of(tInv))
                                                 for name, (tab, rank, tTR, tInv) in fields.items()})
        with quiet():
            grid = wb.Grid(system=system, NKdiv=list(div), NKFFT=list(fft))
        out.append(KS.run_wb(system, grid, calcs, irred, runname))
    return out


def tab_values(res, name, N, rank):
    """tabulated quantity after to_grid -> array (Ntot, nb) + (3,)*rank in flat order"""
    t = res.results["tab"]
    if t.grid is None or tuple(int(x) for x in t.grid) != tuple(N):
        return None
    d = t.get_data(quantity=name)
    return np.asarray(d).reshape((int(np.prod(N)),) + d.shape[3:])


def part_kernel(rep, thorough, rng):
    cart = sorted(KS.CART)
    hexg = sorted(KS.HEX)
    if thorough:
        cfgs = [("c07_ik", ik_cfg(cart + hexg, "NSt", [0, 1, 2], [1, 2], False, True)),
                ("c07_ik_big", ik_cfg(["C4v", "mFe", "T23", "Oh"], "NSb", [0, 1, 2], [1], False, False))]
    else:
        cfgs = [("c07_ik", ik_cfg(["C1", "T", "C2v", "C4v", "mC4v", "mFe", "Oh", "H6v", "H3T", "mH6v"], "NSq", [0, 1, 2], [1], False, True))]
    spec_groups = {}
    runs = {}          # (grp, N, div, fft) -> {(rank, tTR, tInv): {seed: state}}
    for name, cfg in cfgs:
        st = run_model(rep, "MC_IrredKernel.tla", cfg, name, timeout=3000)
        ftable.spec_violation(rep, st, name)
        rep.add_tlc(name, st)
        for s in KS.iter_dump(st["dump_path"], want='pc = "done"', drop=("gset", "klist", "ksets"), keep_first_of=("grp", spec_groups)):
            key = (s["grp"], vec(s["N"]), vec(s["div"]), vec(s["fft"]))
            runs.setdefault(key, {}).setdefault((int(s["rank"]), par(s["tTR"]), par(s["tInv"])), {})[int(s["src"]["seed"])] = s
    if not runs:
        raise MachineryError("no finished state in the MC_IrredKernel dump")
    for g in sorted(spec_groups):
        real = KS.project_group(KS.make_system(g).pointgroup)
        if real != spec_groups[g]:
            raise MachineryError(f"catalogue mismatch for group {g}: {sorted(real ^ spec_groups[g])[:3]}")
    keys = sorted(runs)
    cap = 500 if thorough else 70
    if len(keys) > cap:
        # keep every group and every grid, sample the factorisations
        rng.shuffle(keys)
        seen = set()
        first = [k for k in keys if (k[0], k[1]) not in seen and not seen.add((k[0], k[1]))]
        fs = set(first)
        rest = [k for k in keys if k not in fs]
        keys = sorted(first + rest[:max(0, cap - len(first))])
    nstates = nnonzero = nreduced = 0
    worst = 0.0
    for key in keys:
        grp, N, div, fft = key
        Ntot = int(np.prod(N))
        nG = len(spec_groups[grp])
        combos = runs[key]
        fields = {}
        for (rank, tTR, tInv), by_seed in sorted(combos.items()):
            seeds = sorted(by_seed)
            tab = np.array([field_array(by_seed[s]["fld"], N, rank).reshape((Ntot,) + (3,) * rank) for s in seeds])
            fields[f"r{rank}_{parname(tTR)}_{parname(tInv)}"] = (tab, rank, tTR, tInv)
        if "r0_e_e" not in fields:
            raise MachineryError(f"model has no invariant scalar field for {key}")
        try:
            r_irr, r_full = run_pair(grp, N, div, fft, fields, "c07_run")
        except KS.NonIntegral as ex:
            rep.violation("run:kpoints_all_nonintegral", dict(group=grp, N=N, NKdiv=div, NKFFT=fft, what=str(ex)))
            continue
        except Exception as ex:      # the specification says both runs exist
            import traceback
            rep.violation(f"run:exception:{type(ex).__name__}", dict(group=grp, N=N, NKdiv=div, NKFFT=fft, what=str(ex)[:300],
                                                                     where=traceback.format_exc().splitlines()[-3:]))
            continue
        for (rank, tTR, tInv), by_seed in sorted(combos.items()):
            name = f"r{rank}_{parname(tTR)}_{parname(tInv)}"
            seeds = sorted(by_seed)
            info = dict(group=grp, generators=[str(g) for g in KS.generators_of(grp)], N=N, NKdiv=div, NKFFT=fft, rank=rank,
                        transformTR=dict(factor=tTR[0], transpose=tTR[1]), transformInv=dict(factor=tInv[0], transpose=tInv[1]))
            exp_full = np.array([tensor(rank, by_seed[s]["full"]) for s in seeds])
            exp_irr = np.array([tensor(rank, by_seed[s]["irr"]) for s in seeds]) / nG
            got_irr = r_irr.results[name].data * Ntot
            got_full = r_full.results[name].data * Ntot
            for s in seeds:
                nstates += 1
                rep.case(("ik", key, rank, tTR, tInv, s), nontrivial=bool(np.any(exp_full != 0)) or rank == 0)
            nnonzero += int(np.any(exp_full != 0))
            worst = max(worst, float(max(np.abs(got_irr - exp_full).max(), np.abs(got_full - exp_full).max()) / max(1.0, np.abs(exp_full).max())))
            if np.abs(exp_irr - exp_full).max() > 0:
                raise MachineryError("dump inconsistent: irr != |G| full in a state that passed IrredEqualsFull")
            tol = 1e-8 * max(1.0, float(np.abs(exp_full).max()))
            if np.abs(got_full - exp_full).max() > tol:
                rep.violation(f"run:full_vs_spec:rank{rank}", dict(info, field_seeds=seeds, expected=exp_full.tolist(), got=got_full.tolist(), unit="1/Ntot"))
            if np.abs(got_irr - exp_full).max() > tol:
                rep.violation(f"run:irreducible_vs_spec:rank{rank}:TR{parname(tTR)}:I{parname(tInv)}",
                              dict(info, field_seeds=seeds, expected=exp_full.tolist(), got=got_irr.tolist(), unit="1/Ntot",
                                   field=[by_seed[s]["fld"] for s in seeds][:1]))
            elif np.abs(got_irr - got_full).max() > tol:
                rep.violation(f"run:irreducible_vs_full:rank{rank}", dict(info, irreducible=got_irr.tolist(), full=got_full.tolist()))
            # tabulation: per grid point the field itself
            exp_tab = np.swapaxes(fields[name][0], 0, 1)            # (Ntot, nseeds, 3..)
            for label, res in (("irreducible", r_irr), ("full", r_full)):
                got = tab_values(res, name, N, rank)
                if got is None:
                    rep.violation(f"tab:{label}:grid", dict(info, what="TABresult.grid after run() is not the dense grid",
                                                            got=None if res.results["tab"].grid is None else [int(x) for x in res.results["tab"].grid]))
                    continue
                if got.shape != exp_tab.shape or not np.abs(got - exp_tab).max() <= 1e-9:
                    rep.violation(f"tab:{label}:rank{rank}:TR{parname(tTR)}:I{parname(tInv)}",
                                  dict(info, expected=exp_tab.tolist()[:8], got=np.asarray(got).tolist()[:8], order="flat index, x outermost"))
        if int(np.prod(div)) > len(KS.real_klist(KS.make_system(grp), div, fft, True, with_ksets=False)[0]):
            nreduced += 1
        if len(rep.cov["samples"]) < 2 and nG > 2 and Ntot > 4:
            k0 = sorted(combos)[-1]
            s0 = combos[k0][sorted(combos[k0])[0]]
            rep.sample(dict(group=grp, N=N, NKdiv=div, NKFFT=fft, rank=k0[0], tTR=k0[1], tInv=k0[2], field_first_points=list(s0["fld"][:3]),
                            spec_full_integral_times_Ntot=s0["full"]))
    if nnonzero == 0 or nreduced == 0:
        raise MachineryError(f"vacuous replay: nonzero integrals {nnonzero}, symmetry-reduced grids {nreduced}")
    rep.part("ik_replay", run_pairs=len(keys), of_model_run_configs=len(runs), states_replayed=nstates, with_nonzero_integral=nnonzero,
             reduced_grids=nreduced, worst_relative_deviation=worst, tolerance="1e-8 * max(1, |expected integer|)")
    return spec_groups


def part_model_only(rep, thorough):
    # the delta basis: by linearity this decides the clauses for every integer source field
    if thorough:
        cfg = ik_cfg(sorted(KS.CART) + sorted(KS.HEX), "NSd", [0, 1, 2], [], True, True)
    else:
        cfg = ik_cfg(["C4v", "mC4", "H6v"], "NSd", [0, 1], [], True, False)
    st = run_model(rep, "MC_IrredKernel.tla", cfg, "c07_delta", dump=False, timeout=3000)
    ftable.spec_violation(rep, st, "c07_delta")
    rep.add_tlc("c07_delta", st)
    # sensitivity: a wrongly declared parity must break the property
    for decl, groups in (("flipInv", ["C4v"]), ("flipTR", ["T", "mFe"])):
        s2 = tlc.run_tlc("MC_IrredKernel.tla", ik_cfg(groups, "NSs", [0, 1, 2], [1], False, False, decl), f"c07_{decl}", workers=min(4, WORKERS),
                         coverage=False, timeout=900)
        v = s2.get("violation")
        if not v or v[1] not in ("IrredEqualsFull", "TabOnGrid"):
            raise MachineryError(f"sensitivity self-test failed: Declared={decl} should violate IrredEqualsFull, TLC said {v} {s2.get('error')}")
        rep.part(f"c07_{decl}", sensitivity_violation=v[1])


# ------------------------------------------------------------------------------------------------------------------
# code -> spec


def to_ints(a, what):
    return KS.to_int(a, what, tol=1e-6)


def random_records(rep, n, rng):
    names = sorted(KS.CART) + sorted(KS.HEX)
    recs = []
    tries = 0
    nprng = np.random.RandomState(rng.randrange(1 << 30))
    while len(recs) < n and tries < 40 * n:
        tries += 1
        grp = rng.choice(names)
        G = sorted(KS.project_group(KS.make_system(grp).pointgroup))
        a, c = rng.choice([1, 2, 3, 4, 6]), rng.choice([1, 1, 2, 3])
        b = a if rng.random() < 0.7 else rng.choice([1, 2, 4])
        N = (a, b, c)
        if rng.random() < 0.3:
            N = (a, a, a)
        Ntot = int(np.prod(N))
        if not KS.symmetric_grid(N, G) or Ntot * len(G) > 600 or Ntot < 2:
            continue
        divs = [d for d in np.ndindex(*[n_ + 1 for n_ in N]) if all(x > 0 for x in d) and all(N[i] % d[i] == 0 for i in range(3))
                and KS.symmetric_grid(d, G) and KS.symmetric_grid(tuple(N[i] // d[i] for i in range(3)), G)]
        div = rng.choice(divs)
        fft = tuple(N[i] // div[i] for i in range(3))
        rank = rng.choice([0, 1, 2]) if KS.is_cart(grp) else 0
        pars = [(1, False), (-1, False)] + ([(1, True), (-1, True)] if rank == 2 else [])
        tTR, tInv = rng.choice(pars), rng.choice(pars)
        h = nprng.randint(-3, 4, size=tuple(N) + (3,) * rank)
        f = KS.sym_field(h, N, G, rank, tTR, tInv)
        en = KS.sym_field(nprng.randint(0, 5, size=tuple(N)), N, G, 0, (1, False), (1, False))
        name = f"r{rank}_{parname(tTR)}_{parname(tInv)}"
        fields = {name: (f.reshape((1, Ntot) + (3,) * rank).astype(float), rank, tTR, tInv)}
        fields.setdefault("r0_e_e", (en.reshape(1, Ntot).astype(float), 0, (1, False), (1, False)))
        info = dict(group=grp, N=N, NKdiv=div, NKFFT=fft, rank=rank, transformTR=tTR, transformInv=tInv)
        try:
            r_irr, r_full = run_pair(grp, N, div, fft, fields, "c07_run")
            irr = to_ints(r_irr.results[name].data[0] * Ntot, "irreducible result * Ntot")
            full = to_ints(r_full.results[name].data[0] * Ntot, "full result * Ntot")
            ti, tf = tab_values(r_irr, name, N, rank), tab_values(r_full, name, N, rank)
            if ti is None or tf is None:
                rep.violation("tab:grid:recorded", dict(info, what="TABresult.grid after run() is not the dense grid"))
                continue
            tabirr = to_ints(ti[:, 0], "tabulated values (irreducible)")
            tabfull = to_ints(tf[:, 0], "tabulated values (full)")
        except KS.NonIntegral as ex:
            rep.violation("run:nonintegral_result", dict(info, what=str(ex)))
            continue
        except Exception as ex:
            import traceback
            rep.violation(f"run:exception:{type(ex).__name__}", dict(info, what=str(ex)[:300], where=traceback.format_exc().splitlines()[-3:]))
            continue
        rep.case(("rec", grp, N, div, rank, tTR, tInv, len(recs)))
        recs.append(dict(grp=grp, div=list(div), fft=list(fft), rank=rank, tTR=dict(f=tTR[0], t=tTR[1]), tInv=dict(f=tInv[0], t=tInv[1]),
                         fld=f.reshape((Ntot,) + (3,) * rank).astype(int).tolist(), irr=irr.tolist(), full=full.tolist(),
                         tabirr=tabirr.tolist(), tabfull=tabfull.tolist()))
    if len(recs) < n:
        raise MachineryError(f"only {len(recs)} of {n} records could be generated")
    return recs


def part_records(rep, recs):
    stv, bad = ftable.validate_records("IrredKernelRec.tla", ftable.REC_CFG, recs, "c07", timeout=2400, chunk=500)
    rep.add_tlc("c07_records", stv)
    rep.add_traces(len(recs))
    for i, clauses in sorted(bad.items()):
        r = recs[i]
        if "system_symmetric" in clauses or "shape" in clauses:
            raise MachineryError(f"harness built a non-covariant field for record {i}: {dict((k, r[k]) for k in ('grp', 'div', 'fft', 'rank', 'tTR', 'tInv'))}")
        site = "tab" if all(c.startswith("tab") for c in clauses) else "run"
        rep.violation(f"{site}:recorded:rank{r['rank']}", dict(record={k: v for k, v in r.items() if k not in ("tabirr", "tabfull")}, failing_clauses=clauses))
    rep.sample({k: v for k, v in recs[0].items() if k not in ("tabirr", "tabfull", "fld")})
    # binding self-test
    def flat_first(x):
        return x if not isinstance(x, list) else flat_first(x[0])

    def bump(x):
        if not isinstance(x, list):
            return x + 1
        return [bump(x[0])] + x[1:]
    base = next((r for r in recs if r["rank"] >= 1 and np.any(np.array(r["fld"]) != 0)), recs[0])
    c1 = copy.deepcopy(base)
    c1["irr"] = bump(c1["irr"])
    c2 = copy.deepcopy(base)
    c2["tabirr"][-1] = bump(c2["tabirr"][-1])
    c3 = copy.deepcopy(base)
    c3["fld"][-1] = bump(c3["fld"][-1])
    _, b2 = ftable.validate_records("IrredKernelRec.tla", ftable.REC_CFG, [c1, c2, c3], "c07_selftest")
    want = [{"irr_equals_full", "irr_is_spec"}, {"tab_irr"}, {"system_symmetric", "full_is_gridsum", "tab_irr", "tab_full"}]
    for i, w in enumerate(want):
        if i not in b2 or not (set(b2[i]) & w):
            raise MachineryError(f"binding self-test failed: corrupted record {i} accepted (failing clauses {b2.get(i)})")
    rep.part("binding_selftest", corrupted_records_rejected={str(i): b2[i] for i in b2})


# ------------------------------------------------------------------------------------------------------------------
# numeric only: real calculators on genuinely symmetric models


def real_calculators(Ef, omega, berry=True, ext=False, per_band=True):
    from wannierberri import calculators as calc
    kf = {} if ext else {"external_terms": False}
    sm = dict(save_mode="")
    c = {"cumdos": calc.static.CumDOS(Efermi=Ef, **sm),
         "dos": calc.static.DOS(Efermi=Ef, **sm),
         "ohmic_sea": calc.static.Ohmic_FermiSea(Efermi=Ef, **sm),
         "ohmic_surf": calc.static.Ohmic_FermiSurf(Efermi=Ef, **sm),
         "hall_classic": calc.static.Hall_classic_FermiSea(Efermi=Ef, **sm),
         "jdos": calc.dynamic.JDOS(Efermi=Ef[1::3], omega=omega, kBT=0.05, smr_fixed_width=0.2, **sm)}
    tabs = {"Energy": calc.tabulate.Energy(), "vel": calc.tabulate.Velocity(), "mass": calc.tabulate.InvMass()}
    if berry:
        c.update({"ahc": calc.static.AHC(Efermi=Ef, kwargs_formula=kf, **sm),
                  "bdipole_sea": calc.static.BerryDipole_FermiSea(Efermi=Ef, kwargs_formula=kf, **sm),
                  "bdipole_surf": calc.static.BerryDipole_FermiSurf(Efermi=Ef, kwargs_formula=kf, **sm),
                  "opt": calc.dynamic.OpticalConductivity(Efermi=Ef[1::3], omega=omega, kBT=0.05, smr_fixed_width=0.2, kwargs_formula=kf, **sm)})
        tabs["berry"] = calc.tabulate.BerryCurvature(kwargs_formula=kf)
        tabs["derberry"] = calc.tabulate.DerBerryCurvature(kwargs_formula=kf)
    if not per_band:      # degenerate bands (Kramers pairs): only band energies are well defined per band
        tabs = {"Energy": calc.tabulate.Energy()}
    c["tab"] = calc.TabulatorAll(tabs, mode="grid", save_mode="")
    return c


def no_degeneracy_on_grid(E, margin=1e-3):
    """named exclusion: per-band tabulated quantities are only defined where bands are not degenerate"""
    E = np.asarray(E).reshape(-1, np.asarray(E).shape[-1])
    if E.shape[1] < 2:
        return True
    return float(np.diff(np.sort(E, axis=1), axis=1).min()) > margin


def bundled_models():
    """(name, constructor of system, grid NKdiv/NKFFT list) for the bundled models with the symmetries tests/common_systems.py sets"""
    import wannierberri as wb
    from wannierberri import models as M

    def haldane():
        s = wb.system.System_R.from_pythtb(M.Haldane_ptb(delta=0.2, hop1=-1.0, hop2=0.15))
        s.set_pointgroup(["C3z"])
        return s

    def chiral():
        s = wb.system.System_R.from_pythtb(M.Chiral(delta=2, hop1=1, hop2=1. / 3, phi=np.pi / 10, hopz_left=0.2, hopz_right=0.0, hopz_vert=0))
        s.set_pointgroup(["C3z"])
        return s

    def kanemele():
        s = wb.system.System_R.from_pythtb(M.KaneMele_ptb('odd'), spin=True)
        s.set_pointgroup(["C3z", "TimeReversal"])
        return s
    return [("Haldane_ptb[C3z]", haldane, [((3, 3, 1), (2, 2, 1)), ((2, 2, 1), (3, 3, 1))], True),
            ("Chiral[C3z]", chiral, [((3, 3, 2), (2, 2, 1)), ((1, 1, 2), (3, 3, 2))], True),
            ("KaneMele_odd[C3z,TR]", kanemele, [((3, 3, 1), (2, 2, 1))], False)]


def compare_irr_full(rep, label, system, grids, calcs_fn, Ef, tol, stats, per_band=True):
    import wannierberri as wb
    from .c03 import compare_resultdicts
    scales = None
    for div, fft in grids:
        with quiet():
            grid = wb.Grid(system=system, NKdiv=list(div), NKFFT=list(fft))
        r_full = KS.run_wb(system, grid, calcs_fn(), False, "c07_num")
        E = r_full.results["tab"].get_data(quantity="Energy")
        if not (energies_safe(E, Ef) and (no_degeneracy_on_grid(E) or not per_band)):
            stats["excluded"] += 1
            return False
        if scales is None:
            scales = KS.term_scales(system, tuple(int(a * b) for a, b in zip(grid.div, grid.FFT)),
                                    {k: c for k, c in calcs_fn().items() if k != "tab"}, "c07_num")
        r_irr = KS.run_wb(system, grid, calcs_fn(), True, "c07_num")
        rep.case(("num", label, div, fft))
        stats["comparisons"] += 1
        bad, w = compare_resultdicts(r_full, r_irr, tol, scales)
        stats["worst"] = max(stats["worst"], w)
        for k, d, sc in bad:
            rep.violation(f"numeric:irreducible_vs_full:{k}", dict(model=label, NKdiv=div, NKFFT=fft, maxdiff=d, magnitude=sc, tolerance=tol,
                                                                  system_seed=seed()))
    return True


def part_numeric(rep, thorough, rng):
    Ef = np.linspace(-2.0, 2.0, 9) + 0.0137       # off the round band energies of the bundled models
    omega = np.linspace(0.0, 3.0, 4)
    tol = 1e-8
    stats = dict(comparisons=0, worst=0.0, excluded=0)
    plan = [("C4v", True, [((2, 2, 1), (2, 2, 1)), ((4, 4, 1), (1, 1, 1))]),
            ("mC4v", True, [((2, 2, 1), (2, 2, 1)), ((1, 1, 1), (4, 4, 1))]),
            ("mFe", False, [((2, 2, 2), (2, 2, 1))]),
            ("Oh", False, [((2, 2, 2), (2, 2, 2))])]
    if thorough:
        plan += [("D2h", False, [((2, 3, 2), (2, 1, 1))]), ("T23", False, [((2, 2, 2), (2, 2, 2)), ((4, 4, 4), (1, 1, 1))]),
                 ("mC2x", True, [((3, 2, 1), (1, 2, 1))]), ("C4h", False, [((4, 4, 2), (1, 1, 1))]), ("SiT", False, [((2, 2, 2), (2, 2, 2))]),
                 ("mC4", True, [((4, 4, 1), (2, 2, 1))]), ("D4hT", False, [((2, 2, 1), (2, 2, 2))]), ("O", False, [((3, 3, 3), (1, 1, 1))]),
                 ("C2v", True, [((4, 2, 1), (1, 2, 1))])]
    models = []
    for grp, planar, grids in plan:
        for it in range(2 if thorough else 1):
            done = False
            for attempt in range(6):
                nw = rng.choice([2, 3])
                ham = KS.symmetric_hamiltonian(grp, rng, nw=nw, planar=planar)
                system = KS.make_system(grp, nw=nw, ham=ham, periodic=(True, True, not planar))
                if compare_irr_full(rep, f"symmetrised-random[{grp}]", system, grids, lambda: real_calculators(Ef, omega), Ef, tol, stats):
                    done = True
                    break
            if done:
                models.append(grp)
    for label, mk, grids, per_band in bundled_models():
        try:
            with quiet():
                system = mk()
        except Exception as ex:      # pythtb / model construction is not what is being checked here
            rep.part("numeric_only_skipped_" + label.split("[")[0], reason=repr(ex)[:200])
            continue
        if compare_irr_full(rep, label, system, grids if thorough else grids[:1],
                            lambda: real_calculators(Ef, omega, ext=True, per_band=per_band), Ef, tol, stats, per_band=per_band):
            models.append(label)
    rep.part("numeric_only", what="irreducible + symmetrised vs full unsymmetrised run(): CumDOS, DOS, AHC, Ohmic (sea/surface), Hall_classic, "
             "BerryDipole (sea/surface), OpticalConductivity, JDOS, TabulatorAll(Energy, Velocity, InvMass, BerryCurvature, DerBerryCurvature)",
             models=models, comparisons=stats["comparisons"], worst_relative_deviation=stats["worst"], tolerance=tol,
             excluded_by_EnergiesSafe_or_NoDegeneracyOnGrid=stats["excluded"])
    if stats["comparisons"] == 0:
        raise MachineryError("numeric part made no comparison")


def check(pid, tier):
    rep = Report(pid, tier, "model_checking")
    thorough = tier == "thorough"
    rng = random.Random(seed() * 7919 + 7)
    os.environ.setdefault("JAVA_TOOL_OPTIONS", "-Xss64m")      # TLC worker threads evaluate deep (non-tail) recursions of the sort/fold operators
    workdir("c07_run")
    workdir("c07_num")
    rep.rule("a case = one finished TLC state (group, dense grid, factorisation, rank, parities, source field) replayed through a pair of real "
             "run()s (irreducible+symmetrised / full), one recorded random symmetric field validated by TLC, or (numeric_only) one real model "
             "and grid compared between the two run modes; distinct by input tuple")
    rep.assume("the synthetic system 'has' the group: its integrand is a covariant field (checked by TLC on the spec side and on every record)")
    rep.assume("exact tensors of rank >= 1 only on cubic-type lattices (integer Cartesian rotations); hexagonal groups are exercised with rank 0")
    rep.assume("numeric_only part: EnergiesSafe (1e-6 from Fermi bin edges / degen_thresh) and NoDegeneracyOnGrid (gaps > 1e-3 at grid points)")
    part_kernel(rep, thorough, rng)
    part_model_only(rep, thorough)
    part_records(rep, random_records(rep, 300 if thorough else 25, rng))
    part_numeric(rep, thorough, rng)
    for d in ("c07_run", "c07_num"):
        shutil.rmtree(os.path.join(WORK, d), ignore_errors=True)
    return rep.finish()
