"""X03 private helper: specification objects ([cls, attr, dic, dim] of W90Store.tla / BandSelect.tla) <-> real w90files objects.

The conversions follow harness/props/c19.py (numbers are multiples of 1/8, complex numbers pairs, k-point dictionaries with
int keys); copied here so that X03 does not depend on another property's module."""
import importlib
import numpy as np

from ..common import quiet

_PLAIN = (["NK"], [], ["data"], [])
SPEC_TAGS = {
    "eig": _PLAIN, "spn": _PLAIN, "uhu": _PLAIN, "uiu": _PLAIN, "shu": _PLAIN, "siu": _PLAIN,
    "amn": (["NK"], ["positions", "orbitals", "radial_nodes_list", "basis_list", "spread_list", "spinor"], ["data"], []),
    "mmn": (["NK"], [], ["data", "bk_reorder"], []),
    "bkvec": (["bk_grid", "wk", "kpt_grid", "kptirr", "mp_grid", "recip_lattice"], [], ["neighbours", "G"], []),
    "chk": (["mp_grid", "real_lattice", "num_wann", "num_bands", "num_kpts", "kpt_red"],
            ["wannier_centers_cart", "wannier_spreads", "selected_bands"], [], ["v_matrix"]),
}
SPEC_DIMS = {"eig": ["NB"], "amn": ["NB", "NW"], "mmn": ["NNB", "NB"], "spn": ["NB"], "uhu": ["NNB", "NB"], "uiu": ["NNB", "NB"],
             "shu": ["NNB", "NB"], "siu": ["NNB", "NB"], "bkvec": ["NNB"], "chk": []}
INT_TAGS = {"NK", "num_wann", "num_bands", "num_kpts", "bk_grid", "kpt_grid", "kptirr", "mp_grid", "bk_reorder", "neighbours", "G",
            "radial_nodes_list", "selected_bands"}
F8_TAGS = {"wk", "recip_lattice", "real_lattice", "wannier_centers_cart", "wannier_spreads", "positions", "basis_list", "spread_list"}
BAND_CARRYING = ("eig", "amn", "mmn", "spn", "uhu", "uiu", "shu", "siu")
CONT_KEYS = ["eig", "amn", "mmn", "bkvec", "chk", "spn", "uhu", "uiu", "shu", "siu"]
SKIPPED = {}


def skipped_private(what, why):
    SKIPPED[what] = str(why)[:160]


def L(x):
    if isinstance(x, (tuple, list)):
        return [L(y) for y in x]
    return x


def canon(o):
    """parsed TLA+ object -> plain dict (lists, int keys)"""
    return dict(cls=o["cls"], attr={k: L(v) for k, v in dict(o["attr"]).items()},
                dic={t: {int(k): L(v) for k, v in dict(d).items()} for t, d in dict(o["dic"]).items()},
                dim={k: int(v) for k, v in dict(o["dim"]).items()})


def ints(a, what):
    a = np.asarray(a)
    r = np.rint(a.astype(float))
    if a.size and np.max(np.abs(a.astype(float) - r)) > 1e-9:
        raise ValueError(f"non-integer in {what}")
    return r.astype(int).tolist()


def f8(a, what):
    return ints(np.asarray(a, dtype=float) * 8, what)


def c8(a, what):
    a = np.asarray(a)
    return np.stack([np.array(f8(a.real, what)), np.array(f8(a.imag, what))], axis=-1).tolist()


def carr(t, shape_tail=None):
    a = np.array(t, dtype=float) / 8
    if a.ndim == 0 or a.shape[-1] != 2:
        # an empty table (no bands): the pair axis is gone
        return np.zeros(a.shape if shape_tail is None else shape_tail, dtype=complex)
    return a[..., 0] + 1j * a[..., 1]


_CLASSES = {}


def classes():
    if _CLASSES:
        return _CLASSES
    pkg = importlib.import_module("wannierberri.w90files")
    where = dict(eig=("EIG", "eig"), amn=("AMN", "amn"), mmn=("MMN", "mmn"), bkvec=("BKVectors", "bkvectors"), chk=("CheckPoint", "chk"),
                 spn=("SPN", "spn"), uhu=("UHU", "xxu"), uiu=("UIU", "xxu"), shu=("SHU", "xxu"), siu=("SIU", "xxu"))
    for k, (name, mod) in where.items():
        C = getattr(pkg, name, None)
        if C is None:
            try:
                C = getattr(importlib.import_module("wannierberri.w90files." + mod), name)
            except (ImportError, AttributeError):
                C = importlib.import_module("wannierberri.w90files.wandata").FILES_CLASSES[k]
        _CLASSES[k] = C
    return _CLASSES


def build(o):
    """canonical object -> real file object"""
    C = classes()
    cls, a, d = o["cls"], o["attr"], o["dic"]
    with quiet():
        if cls == "eig":
            return C[cls](data={k: np.array(v, dtype=float) / 8 for k, v in d["data"].items()}, NK=a["NK"])
        if cls == "mmn":
            return C[cls](data={k: carr(v) for k, v in d["data"].items()}, NK=a["NK"],
                          bk_reorder={k: np.array(v, dtype=int) for k, v in d["bk_reorder"].items()})
        if cls == "bkvec":
            return C[cls](recip_lattice=np.array(a["recip_lattice"], dtype=float) / 8, mp_grid=np.array(a["mp_grid"]),
                          wk=np.array(a["wk"], dtype=float) / 8, bk_grid=np.array(a["bk_grid"], dtype=int),
                          G={k: np.array(v, dtype=int) for k, v in d["G"].items()},
                          neighbours={k: np.array(v, dtype=int) for k, v in d["neighbours"].items()},
                          kpt_grid=np.array(a["kpt_grid"], dtype=int), kptirr=list(a["kptirr"]))
        if cls == "chk":
            kw = dict(real_lattice=np.array(a["real_lattice"], dtype=float) / 8, num_wann=a["num_wann"], num_bands=a["num_bands"],
                      num_kpts=a["num_kpts"], mp_grid=np.array(a["mp_grid"]),
                      kpt_red=np.array(a["kpt_red"], dtype=float) / np.array(a["mp_grid"], dtype=float)[None, :])
            if "wannier_centers_cart" in a:
                kw["wannier_centers_cart"] = np.array(a["wannier_centers_cart"], dtype=float) / 8
            if "wannier_spreads" in a:
                kw["wannier_spreads"] = np.array(a["wannier_spreads"], dtype=float) / 8
            if "selected_bands" in a:
                kw["selected_bands"] = np.array(a["selected_bands"], dtype=int)
            if "v_matrix" in d:
                kw["v_matrix"] = {k: carr(v) for k, v in d["v_matrix"].items()}
            return C[cls](**kw)
        kw = {}
        if cls == "amn" and "orbitals" in a:
            kw = dict(positions=np.array(a["positions"], dtype=float) / 8, orbitals=np.array(a["orbitals"]),
                      radial_nodes_list=np.array(a["radial_nodes_list"], dtype=int), basis_list=np.array(a["basis_list"], dtype=float) / 8,
                      spread_list=[x / 8 for x in a["spread_list"]], spinor=bool(a["spinor"]))
        return C[cls](data={k: carr(v) for k, v in d["data"].items()}, NK=a["NK"], **kw)


def project(x, cls):
    """real file object -> canonical object (the tags of the specification's tables only)"""
    tags, tags_opt, dtags, dtags_opt = SPEC_TAGS[cls]
    attr, dic, dim = {}, {}, {}
    for t in tags + tags_opt:
        v = getattr(x, t, None)
        if v is None:
            continue
        if t == "kpt_red":
            attr[t] = ints(np.asarray(v) * np.asarray(x.mp_grid)[None, :], t)
        elif t == "orbitals":
            attr[t] = [str(s) for s in np.asarray(v).tolist()]
        elif t == "spinor":
            attr[t] = bool(v)
        elif t in F8_TAGS:
            attr[t] = f8(v, t)
        else:
            attr[t] = ints(v, t) if np.ndim(v) else int(v)
    for t in dtags + dtags_opt:
        v = getattr(x, t, None)
        if v is None:
            continue
        if t in INT_TAGS:
            dic[t] = {int(k): ints(w, t) for k, w in v.items()}
        elif cls == "eig":
            dic[t] = {int(k): f8(w, t) for k, w in v.items()}
        else:
            dic[t] = {int(k): c8(w, t) for k, w in v.items()}
    for n in SPEC_DIMS[cls]:
        v = getattr(x, n, None)
        if v is not None:
            dim[n] = int(v)
    nk = getattr(x, "NK", None)
    if nk is None:
        nk = getattr(x, "num_kpts", None)
    dim["NK"] = int(nk)
    return dict(cls=cls, attr=attr, dic=dic, dim=dim)


def try_project(x, cls):
    try:
        return project(x, cls), None
    except (ValueError, TypeError, AttributeError) as ex:
        return None, f"{type(ex).__name__}: {ex}"[:160]


def shapes_ok(x, cls):
    """the tables of a band-carrying file have the sizes its NB / NW / NNB say (what check_shape and the constructors demand)"""
    if cls not in BAND_CARRYING:
        return True
    nb = int(x.NB)
    want = dict(eig=lambda: (nb,), amn=lambda: (nb, int(x.NW)), mmn=lambda: (int(x.NNB), nb, nb), spn=lambda: (nb, nb, 3),
                uhu=lambda: (int(x.NNB), int(x.NNB), nb, nb), uiu=lambda: (int(x.NNB), int(x.NNB), nb, nb),
                shu=lambda: (int(x.NNB), nb, nb, 3), siu=lambda: (int(x.NNB), nb, nb, 3))[cls]()
    return all(tuple(np.shape(v)) == want for v in x.data.values())


def to_json_obj(o):
    return dict(cls=o["cls"], attr=o["attr"], dic=[[t, [[k, v] for k, v in sorted(d.items())]] for t, d in sorted(o["dic"].items())], dim=o["dim"])


def files_of(w):
    """{key: file object} of a WannierData (guarded adapter around the private dictionary)"""
    d = getattr(w, "_files", None)
    if isinstance(d, dict):
        return dict(d)
    skipped_private("WannierData._files", "attribute gone; files enumerated through has_file/get_file")
    return {k: w.get_file(k) for k in CONT_KEYS if w.has_file(k)}


def cont_project(w):
    return {k: project(v, k) for k, v in files_of(w).items() if k in SPEC_TAGS}


# what set_projections writes into the checkpoint besides the .amn (centres and spreads of the projections, their number) is not
# part of the model of band selection
CHK_UNMODELLED = ("wannier_centers_cart", "wannier_spreads", "num_wann")


def relevant(o, book=True):
    """a projected / canonical object as far as band selection speaks about it; book=False: also without the recorded
    selected_bands of a checkpoint (bookkeeping: information)"""
    if o["cls"] != "chk":
        return o
    drop = CHK_UNMODELLED
    if not book:
        drop = tuple(drop) + ("selected_bands",)
    return dict(o, attr={k: v for k, v in o["attr"].items() if k not in drop})


def nobook(o):
    return relevant(o, book=False)


def same_files(a, b, book=False):
    """two {key: canonical object}: equal (book=False: up to the checkpoint's recorded selection)"""
    if set(a) != set(b):
        return False
    return all(relevant(a[k], book) == relevant(b[k], book) for k in a)


def diff_files(a, b):
    out = []
    for k in sorted(set(a) | set(b)):
        if k not in a or k not in b:
            out.append(f"{k}:missing")
        else:
            x, y = nobook(a[k]), nobook(b[k])
            out += [f"{k}.{f}" for f in ("attr", "dic", "dim") if x[f] != y[f]]
    return out
