"""C22: finite-difference b-vectors satisfy the completeness relation.

spec  : BShells.tla  - integer reciprocal lattices (integer Gram matrix G/gs), Monkhorst-Pack mesh vectors as integer
                       triples, shells = level sets of the integer quadratic form inside the search box, exact rational
                       weights; the shell-selection loop of find_bk_vectors (one step per shell) with exact Gauss-Jordan
                       elimination instead of the SVD; the C22 clauses (whole shells, b -> -b, completeness, k+b=k'+G)
        MC_BShells   - catalogue of 10 lattices x meshes; TLC proves that the Wannier90 procedure ("pair" rule) always
                       ends with a stencil that satisfies every clause; the model of is_parallel_shell as coded
                       ("span"/"latt") is run as a second configuration
        BShellsRec   - record validation of the real BKVectors.from_kpoints / find_bk_vectors
bind  : spec -> code : every TLC state is replayed on k_to_shells (the examined shell must be the next level set),
                       get_shell_weights (dependent / incomplete / complete + exact weights) and is_parallel_shell;
                       find_bk_vectors must return a stencil wherever TLC proved that one exists in the search box
        code -> spec : records of from_kpoints (bk_grid, rationalised wk, neighbours, G; shuffled k-points) validated by
                       TLC clause by clause
"""
import io
import copy
import random
import itertools
import contextlib
from fractions import Fraction

import numpy as np

from .. import tlc, ftable
from ..common import Report, MachineryError, seed

PROPS = {
    "C22": dict(level="model_checking",
                technique="TLC exhaustive on BShells.tla/MC_BShells.tla (shell selection over a catalogue of integer reciprocal "
                          "lattices x meshes, exact rational weights) + replay of every TLC state on k_to_shells / get_shell_weights / "
                          "is_parallel_shell / find_bk_vectors + TLC validation (BShellsRec.tla) of recorded BKVectors.from_kpoints results",
                text="TLC enumerates, for cubic, fcc, bcc, two tetragonal, orthorhombic, two hexagonal, a monoclinic and a triclinic "
                     "integer reciprocal lattice and every mesh in the configured set, the run of the shell-selection procedure and checks "
                     "on the resulting stencil: whole level sets, closure under b -> -b with equal weights, sum_b w_b b b^T = 1 in exact "
                     "rationals, unique neighbour and lattice shift for every k and b. Every TLC state is replayed on the real k_to_shells, "
                     "get_shell_weights and is_parallel_shell; BKVectors.from_kpoints is run on all lattices x meshes (n_i <= 4, <= 6 "
                     "thorough) with shuffled k-points and the recorded bk_grid / wk / neighbours / G are validated clause by clause by TLC.",
                note="weights cross the TLC boundary as rationals num/den (den <= 10^4, verified within 1e-9 of the float); shells are level "
                     "sets inside the code's search box (search_supercell = 2); random real lattices are numeric_only",
                ref="DESIGN.md 3.7"),
}

MAXDEN = 10 ** 4
RAT_TOL = 1e-9


# ----------------------------------------------------------------------------------------------- helpers
def cart_basis(G, gs, A):
    """a float Cartesian basis (rows) whose Gram matrix is G / gs: the integer basis when there is one, else Cholesky"""
    if A:
        B = np.array(A, dtype=float)
    else:
        B = np.linalg.cholesky(np.array(G, dtype=float) / gs)
    if np.abs(B @ B.T - np.array(G, dtype=float) / gs).max() > 1e-13:
        raise MachineryError(f"basis does not reproduce the Gram matrix {G}/{gs}")
    return B


def rationalise(w):
    """float -> (num, den) with den <= MAXDEN, or None when no such fraction is within RAT_TOL (relative)"""
    f = Fraction(float(w)).limit_denominator(MAXDEN)
    if abs(float(f) - float(w)) <= RAT_TOL * max(1.0, abs(float(w))):
        return (f.numerator, f.denominator)
    return None


def quiet_call(fn, *a, **kw):
    with contextlib.redirect_stdout(io.StringIO()):
        return fn(*a, **kw)


def box_latt(N, ss=2):
    lim = [ss * n for n in N]
    return np.array([(i, j, k) for i in range(-lim[0], lim[0] + 1) for j in range(-lim[1], lim[1] + 1)
                     for k in range(-lim[2], lim[2] + 1)])


def as_set(arr):
    return frozenset(tuple(int(x) for x in v) for v in arr)


def stencil_of(wk, bk_grid):
    """set of (n, (num, den)); None when a weight cannot be rationalised"""
    out = set()
    for w, b in zip(wk, bk_grid):
        r = rationalise(w)
        if r is None:
            return None
        out.add((tuple(int(x) for x in b), r))
    return frozenset(out)


def numeric_clauses(B, N, wk, bk_grid, bk_cart=None):
    """float version of the stencil clauses (used when a weight has no small denominator, and for random lattices)"""
    basis = B / np.array(N, dtype=float)[:, None]
    bc = np.array(bk_grid, dtype=float) @ basis
    comp = np.einsum("b,ba,bc->ac", wk, bc, bc)
    res = dict(complete=float(np.abs(comp - np.eye(3)).max()))
    tab = {tuple(int(x) for x in b): float(w) for b, w in zip(bk_grid, wk)}
    res["neg"] = max((abs(tab.get(tuple(-x for x in b), np.inf) - w) for b, w in tab.items()), default=np.inf)
    if bk_cart is not None:
        res["bk_cart"] = float(np.abs(bc - bk_cart).max())
    return res


def mesh_points(N):
    return [(a, b, c) for a in range(N[0]) for b in range(N[1]) for c in range(N[2])]


def run_from_kpoints(B, N, kpts, kptirr):
    from wannierberri.w90files.bkvectors import BKVectors
    kred = np.array(kpts, dtype=float) / np.array(N, dtype=float)[None, :]
    return quiet_call(BKVectors.from_kpoints, recip_lattice=B, mp_grid=np.array(N), kpoints_red=kred, kptirr=kptirr)


def record_of(G, gs, N, bkv, kpts, kptirr):
    """BKVectors object -> JSON record; returns (record, problems)"""
    problems = []
    wk = [rationalise(w) for w in bkv.wk]
    if any(w is None for w in wk):
        return None, ["weights_not_rational"]
    rec = dict(fn="from_kpoints", G=[list(r) for r in G], gs=gs, N=list(N), SS=2,
               bk=[[int(x) for x in b] for b in bkv.bk_grid], wk=[list(w) for w in wk])
    if kptirr is not None:
        irr = list(kptirr)
        if sorted(bkv.neighbours.keys()) != sorted(irr) or sorted(bkv.G.keys()) != sorted(irr):
            problems.append("neighbour_keys")
            return rec, problems
        kg = np.array(bkv.kpt_grid)
        if kg.shape != (len(kpts), 3) or np.any(kg != np.array(kpts)):
            problems.append("kpt_grid")
        nnb = len(rec["bk"])
        for ik in irr:
            if np.shape(bkv.neighbours[ik]) != (nnb,) or np.shape(bkv.G[ik]) != (nnb, 3):
                problems.append("neighbour_shape")
                return rec, problems
        rec.update(kpts=[list(k) for k in kpts], kptirr=[int(i) for i in irr],
                   nb=[[int(x) for x in bkv.neighbours[ik]] for ik in irr],
                   gv=[[[int(x) for x in g] for g in bkv.G[ik]] for ik in irr])
    return rec, problems


def mc_cfg(meshes, lats, rules, variant="ok", invariants=None):
    inv = invariants or ["Admits", "SelFunctional", "SelNegClosed", "SelWhole", "SelComplete", "SelOddMoments", "SelNeighbours", "SelShape"]
    return ("SPECIFICATION Spec\nCONSTANTS\n"
            f"  MESHES = {tlc.tla_value(set(100 * m[0] + 10 * m[1] + m[2] for m in meshes))}\n  LATS = {tlc.tla_value(set(lats))}\n  RULES = {tlc.tla_value(set(rules))}\n"
            f"  SSC = 2\n  Variant = \"{variant}\"\n" + "".join(f"INVARIANT {i}\n" for i in inv) + "CHECK_DEADLOCK FALSE\n")


LATS = ["cubic", "fcc", "bcc", "tetra2", "tetraS2", "ortho", "hex", "hex60", "mono", "tri"]


def run_mc(name, meshes, lats, rules, variant="ok", invariants=None, workers=16, dump=True):
    st = tlc.run_tlc("MC_BShells.tla", mc_cfg(meshes, lats, rules, variant, invariants), name, workers=workers, dump=dump,
                     coverage=False, timeout=3000)
    if st.get("timeout"):
        raise MachineryError(f"TLC timed out on {name}")
    if st.get("error") and not st.get("violation"):
        raise MachineryError(f"TLC error on {name}: {st['error'][:600]}")
    return st


def runs_of(st):
    """dump -> {(lat, N, rule): [states ordered along the run]}"""
    runs = {}
    for s in ftable.dump_states(st):
        runs.setdefault((s["lat"], tuple(s["L"]["N"]), s["rule"]), []).append(s)
    for k in runs:
        runs[k].sort(key=lambda s: (s["st"]["branch"] != "init", s["st"]["pc"] == "fail", s["st"]["q"]))
    return runs


# ----------------------------------------------------------------------------------------------- the check
def check(pid, tier):
    rep = Report(pid, tier, "model_checking")
    thorough = tier == "thorough"
    rng = random.Random(seed() * 7919 + 22)
    from wannierberri.w90files.bkvectors import BKVectors, is_parallel_shell
    rep.rule("TLC runs the shell-selection state machine for every (lattice, mesh, rule) of the configuration; a case = one TLC state "
             "replayed on a real function (exact comparison) or one recorded from_kpoints / find_bk_vectors call validated by TLC; "
             "distinct by (function, lattice, mesh, inputs)")
    rep.assume("reciprocal lattices have an integer Gram matrix G/gs (scaled by 0.5..4 and rotated for the recorded calls); shells = level "
               "sets of the quadratic form inside the code's search box (search_supercell=2)")
    rep.assume("weights are rationals with denominator <= 10^4 (verified within 1e-9 of the float)")

    small = [m for m in itertools.product((1, 2), repeat=3)]
    if thorough:
        meshes = [m for m in itertools.product((1, 2, 3), repeat=3)] + [(4, 4, 4), (1, 1, 4), (4, 3, 2), (2, 4, 1)]
    else:
        meshes = small + [(1, 1, 3), (3, 2, 1), (2, 3, 2)]

    # ---------------- spec: the Wannier90 procedure always ends with a stencil that satisfies C22
    st = run_mc("c22_pair", meshes, LATS, ["pair"])
    ftable.spec_violation(rep, st, "c22_pair")
    rep.add_tlc("c22_pair", st)
    runs = runs_of(st)
    branches = {}
    lattices = {}
    exists = {}
    for (lat, N, rule), states in runs.items():
        lattices[lat] = states[0]["L"]
        for s in states:
            branches[s["st"]["branch"]] = branches.get(s["st"]["branch"], 0) + 1
        exists[(lat, N)] = states[-1]["st"]["pc"] == "done"
    for b in ("init", "parallel", "dependent", "incomplete", "complete"):
        if not branches.get(b):
            raise MachineryError(f"vacuous model c22_pair: branch {b} never taken")
    if len(runs) != len(LATS) * len(meshes) or not all(exists.values()):
        raise MachineryError("c22_pair: a run is missing or did not end with a stencil although no invariant failed")
    rep.part("c22_pair", branches=branches, runs=len(runs))

    # ---------------- spec: the model of is_parallel_shell as coded (new shell inside the span of ONE selected shell)
    code_rules = ["span", "latt"]
    meshes2 = meshes if thorough else [(1, 1, 1), (2, 2, 2), (1, 1, 2), (1, 2, 2), (2, 1, 1), (1, 1, 3), (3, 2, 1)]
    st2 = run_mc("c22_code_rule", meshes2, LATS, code_rules,
                 invariants=["SelFunctional", "SelNegClosed", "SelWhole", "SelComplete", "SelNeighbours", "SelShape"])
    ftable.spec_violation(rep, st2, "c22_code_rule")
    rep.add_tlc("c22_code_rule", st2)
    runs2 = runs_of(st2)
    # the literal model of the code is "latt" where the lattice has an integer Cartesian basis, else "span"
    literal = {lat: ("latt" if any(k[0] == lat and k[2] == "latt" for k in runs2) else "span") for lat in LATS}
    model_fail = sorted({(lat, N) for (lat, N, rule), states in runs2.items() if rule == literal[lat] and states[-1]["st"]["pc"] == "fail"})
    rep.part("c22_code_rule", runs=len(runs2),
             note="'span'/'latt' model w90files.bkvectors.is_parallel_shell (as intended / as written); listed: runs of the literal model that "
                  "exhaust the search box without a stencil although the Wannier90 rule finds one",
             model_finds_no_stencil=[dict(lattice=lat, mesh=list(N)) for lat, N in model_fail])

    # sensitivity: a completeness test that only looks at the diagonal of sum w b b^T must be rejected by the specification
    st0 = run_mc("c22_diagonly", [(1, 1, 1), (2, 2, 2), (2, 1, 1)], ["cubic", "hex", "mono", "tri"], ["pair"], variant="diagonly", dump=False)
    if not st0.get("violation") or st0["violation"][1] != "SelComplete":
        raise MachineryError("sensitivity self-test failed: MC_BShells with Variant=diagonly should violate SelComplete")
    rep.part("c22_diagonly", sensitivity_violation=st0["violation"][1])

    # ---------------- spec -> code: replay every state
    nrep = 0
    for (lat, N, rule), states in list(runs.items()) + [(k, v) for k, v in runs2.items() if k[2] == "span"]:
        L = states[0]["L"]
        B = cart_basis(L["G"], L["gs"], L["A"])
        basis = B / np.array(N, dtype=float)[:, None]
        klatt = box_latt(N)
        sh_latt, sh_cart = BKVectors.k_to_shells(klatt, klatt @ basis)
        code_shells = [as_set(s) for s in sh_latt]
        sel = []
        ish = -1
        for s in states[1:]:
            stt = s["st"]
            if stt["branch"] == "exhausted":
                rep.case(("k_to_shells_end", lat, N))
                if ish + 1 != len(code_shells):
                    rep.violation("k_to_shells:count", dict(lattice=lat, G=L["G"], gs=L["gs"], mesh=N, spec_shells=ish + 1, code_shells=len(code_shells)))
                continue
            ish += 1
            new = frozenset(stt["last"])
            nrep += 1
            rep.case(("k_to_shells", lat, N, ish), nontrivial=len(new) > 2)
            if ish >= len(code_shells) or code_shells[ish] != new:
                rep.violation("k_to_shells:level_set", dict(lattice=lat, G=L["G"], gs=L["gs"], mesh=N, shell_index=ish, expected=sorted(new),
                                                            got=sorted(code_shells[ish]) if ish < len(code_shells) else None))
                break
            new_latt = np.array(sorted(new))
            new_cart = new_latt @ basis
            # is_parallel_shell (Cartesian semantics = rule "span")
            projs = [BKVectors.get_projector_shell_cart(np.array(sorted(x)) @ basis) for x in sel]
            got_par = bool(is_parallel_shell(projs, new_cart, tol=1e-7))
            rep.case(("is_parallel_shell", lat, N, ish), nontrivial=len(sel) > 0)
            if got_par != stt["par"][0]:
                rep.violation("is_parallel_shell", dict(lattice=lat, G=L["G"], gs=L["gs"], mesh=N, selected=[sorted(x) for x in sel],
                                                        new=sorted(new), expected=stt["par"][0], got=got_par))
            if stt["branch"] == "parallel":
                continue
            tmp = sel + [new]
            r = quiet_call(BKVectors.get_shell_weights, [np.array(sorted(x)) for x in tmp], [np.array(sorted(x)) @ basis for x in tmp],
                           msg_if_fail=True)
            rep.case(("get_shell_weights", lat, N, rule, ish))
            exp = stt["branch"]
            if isinstance(r, str):
                got = {"zero singular value": "dependent", "incomplete shells": "incomplete"}.get(r, r)
                gotw = None
            else:
                got = "complete"
                gotw = stencil_of(r[0], r[2])
            if got != exp:
                rep.violation("get_shell_weights:status", dict(lattice=lat, G=L["G"], gs=L["gs"], mesh=N, shells=[sorted(x) for x in tmp], expected=exp, got=got))
            elif exp == "complete":
                expw = frozenset((n, tuple(stt["w"][j])) for j, sh in enumerate(stt["sel"]) for n in sh)
                if gotw != expw:
                    rep.violation("get_shell_weights:weights", dict(lattice=lat, G=L["G"], gs=L["gs"], mesh=N, expected=sorted(expw),
                                                                     got=sorted(gotw) if gotw else [float(x) for x in r[0]]))
                if nrep % 40 == 1:
                    rep.sample(dict(fn="get_shell_weights", lattice=lat, mesh=N, shells=[len(x) for x in tmp], weights=[list(w) for w in stt["w"]]))
            if exp in ("incomplete", "complete"):
                sel = tmp

    # ---------------- find_bk_vectors end to end: a stencil must be returned wherever TLC proved that one exists in the box
    which = {"pair": 0, "span": 0, "latt": 0, "none": 0, "code_rule_not_modelled_for_this_mesh": 0}
    nraise = 0
    for (lat, N), ok in sorted(exists.items()):
        L = lattices[lat]
        B = cart_basis(L["G"], L["gs"], L["A"])
        rep.case(("find_bk_vectors", lat, N))
        try:
            wk, bk_cart, bk_grid = quiet_call(BKVectors.find_bk_vectors, B, N)
        except RuntimeError as e:
            nraise += 1
            rep.violation(f"find_bk_vectors:no_stencil_found:{lat}:{'x'.join(str(int(n)) for n in N)}",
                          dict(what="BKVectors.find_bk_vectors raised although the specification proves that the search box contains a complete "
                                    "set of shells (the Wannier90 procedure finds it)", lattice=lat, recip_lattice=B.tolist(), mp_grid=list(N),
                               error=str(e)[:200], model_of_code_also_fails=(lat, N) in model_fail))
            continue
        got = stencil_of(wk, bk_grid)
        m = "none"
        for rule, rr in (("pair", runs), ("latt", runs2), ("span", runs2)):
            sts = rr.get((lat, N, rule))
            if sts and sts[-1]["st"]["pc"] == "done":
                stt = sts[-1]["st"]
                if got == frozenset((n, tuple(stt["w"][j])) for j, sh in enumerate(stt["sel"]) for n in sh):
                    m = rule
                    break
        if m == "none" and (lat, N, "span") not in runs2:
            m = "code_rule_not_modelled_for_this_mesh"
        which[m] += 1
    rep.part("find_bk_vectors_vs_models", stencil_equals_model=which, raised=nraise,
             note="diagnostic only: which parallel-shell rule reproduces the stencil of the code (C22 does not prescribe the choice)")

    # ---------------- code -> spec: recorded from_kpoints calls validated by TLC
    nmax = 6 if thorough else 4
    all_meshes = list(itertools.product(range(1, nmax + 1), repeat=3))
    if thorough:
        rng.shuffle(all_meshes)
        all_meshes = sorted(all_meshes[:150] + list(itertools.product(range(1, 5), repeat=3)))
        all_meshes = sorted(set(all_meshes))
    recs = []
    meta = []
    nnum = 0
    full_nb = 0
    for lat in LATS:
        L = lattices[lat]
        for N in all_meshes:
            scale = rng.choice([1.0, 0.5, 2.0, 1.0, 3.0, 1.25])
            B = cart_basis(L["G"], L["gs"], L["A"]) * scale
            if rng.random() < 0.5:
                # a random proper rotation of the Cartesian frame (the Gram matrix, hence the record, is unchanged)
                q, r_ = np.linalg.qr(np.array([[rng.gauss(0, 1) for _ in range(3)] for _ in range(3)]))
                q = q * np.sign(np.linalg.det(q))
                B = B @ q
            kpts = mesh_points(N)
            rng.shuffle(kpts)
            nk = len(kpts)
            if nk <= 27:
                kptirr = None if rng.random() < 0.5 else list(range(nk))
            else:
                kptirr = sorted(rng.sample(range(nk), 5))
            irr_eff = list(range(nk)) if kptirr is None else kptirr
            key = ("from_kpoints", lat, N)
            rep.case(key)
            try:
                bkv = run_from_kpoints(B, N, kpts, kptirr)
            except RuntimeError as e:
                if "Could not find a complete set" in str(e):
                    rep.violation(f"find_bk_vectors:no_stencil_found:{lat}:{'x'.join(str(int(n)) for n in N)}",
                                  dict(what="BKVectors.from_kpoints raised: no complete set of b-vectors found", lattice=lat,
                                       recip_lattice=B.tolist(), mp_grid=list(N), error=str(e)[:200]))
                    nraise += 1
                    continue
                raise
            # scale the weights back to the units of G/gs
            bkv_w = copy.copy(bkv)
            bkv_w.wk = np.array(bkv.wk) * scale ** 2
            rec, problems = record_of(L["G"], L["gs"], N, bkv_w, kpts, irr_eff)
            num = numeric_clauses(B, N, bkv.wk, bkv.bk_grid, bkv.bk_cart)
            if num["bk_cart"] > 1e-9:
                rep.violation("from_kpoints:bk_cart", dict(lattice=lat, recip_lattice=B.tolist(), mp_grid=list(N), deviation=num["bk_cart"]))
            if problems == ["weights_not_rational"]:
                # no small denominator: decide numerically (never seen on the catalogue)
                nnum += 1
                if num["complete"] > 1e-8 or num["neg"] > 1e-8:
                    rep.violation("from_kpoints:numeric", dict(lattice=lat, recip_lattice=B.tolist(), mp_grid=list(N), deviations=num))
                continue
            for p in problems:
                rep.violation("from_kpoints:" + p, dict(lattice=lat, recip_lattice=B.tolist(), mp_grid=list(N)))
            if problems:
                continue
            if kptirr is None or len(irr_eff) == nk:
                full_nb += 1
            recs.append(rec)
            meta.append(dict(lattice=lat, recip_lattice=B.tolist(), mp_grid=list(N), scale=scale))
    if not recs:
        raise MachineryError("no from_kpoints record produced")
    if nnum > len(recs) // 20:
        raise MachineryError(f"{nnum} records had weights without a small denominator")
    stv, bad = ftable.validate_records("BShellsRec.tla", ftable.REC_CFG, recs, "c22", timeout=3000, chunk=400)
    rep.add_tlc("c22_records", stv)
    rep.add_traces(len(recs))
    for i, clauses in sorted(bad.items()):
        for c in clauses:
            rep.violation("from_kpoints:" + c, dict(meta[i], failing_clauses=clauses, record={k: v for k, v in recs[i].items() if k in ("G", "gs", "N", "bk", "wk")}))
    rep.part("records", n=len(recs), with_all_neighbours=full_nb, numeric_fallback=nnum, raised=nraise)
    rep.sample({k: recs[0][k] for k in ("fn", "G", "gs", "N", "bk", "wk")})

    # ---------------- binding self-test: corrupted records must be rejected
    cands = [r for r in recs if "nb" in r and len(r["kpts"]) > 1 and len(r["bk"]) >= 6]
    if not cands:
        raise MachineryError("no record suitable for the binding self-test")
    r0 = cands[0]
    c1 = copy.deepcopy(r0)
    c1["nb"][0][0] = (c1["nb"][0][0] + 1) % len(c1["kpts"])
    c2 = copy.deepcopy(r0)
    f2 = Fraction(c2["wk"][0][0], c2["wk"][0][1]) + Fraction(1, 7)
    c2["wk"][0] = [f2.numerator, f2.denominator]
    c3 = copy.deepcopy(r0)
    c3["gv"][0][0][2] += 1
    c4 = copy.deepcopy(r0)
    del c4["bk"][-1], c4["wk"][-1]
    for j in range(len(c4["nb"])):
        del c4["nb"][j][-1], c4["gv"][j][-1]
    _, b2 = ftable.validate_records("BShellsRec.tla", ftable.REC_CFG, [c1, c2, c3, c4, r0], "c22_selftest")
    want = {0: "k_plus_b", 1: "complete", 2: "k_plus_b", 3: "neg_closed"}
    for j, cl in want.items():
        if cl not in b2.get(j, []):
            raise MachineryError(f"binding self-test failed: corrupted record {j} not rejected by clause {cl}: {b2.get(j)}")
    if 4 in b2:
        raise MachineryError(f"binding self-test failed: the uncorrupted record is rejected: {b2[4]}")
    rep.part("binding_selftest", corrupted_records_rejected={str(k): v for k, v in b2.items()})

    # ---------------- numeric only: random real lattices
    nrand = 60 if thorough else 20
    worst = dict(complete=0.0, neg=0.0, bk_cart=0.0)
    nr_raise = 0
    nr_ok = 0
    for _ in range(nrand):
        while True:
            B = np.array([[rng.uniform(-1, 1) for _ in range(3)] for _ in range(3)]) + np.eye(3) * rng.choice([1.0, 1.5])
            if abs(np.linalg.det(B)) > 0.4 and np.linalg.cond(B) < 6:
                break
        N = tuple(rng.randint(1, 4) for _ in range(3))
        kpts = mesh_points(N)
        rng.shuffle(kpts)
        kptirr = sorted(rng.sample(range(len(kpts)), min(len(kpts), 4)))
        try:
            bkv = run_from_kpoints(B, N, kpts, kptirr)
        except RuntimeError as e:
            if "Could not find a complete set" in str(e):
                nr_raise += 1
                continue
            raise
        nr_ok += 1
        num = numeric_clauses(B, N, bkv.wk, bkv.bk_grid, bkv.bk_cart)
        for k in worst:
            worst[k] = max(worst[k], num[k])
        okn = True
        kg = np.array(kpts)
        for ik in kptirr:
            for ib in range(len(bkv.wk)):
                if np.any(kg[ik] + bkv.bk_grid[ib] != kg[bkv.neighbours[ik][ib]] + bkv.G[ik][ib] * np.array(N)):
                    okn = False
        if num["complete"] > 1e-8 or num["neg"] > 1e-8 or not okn:
            rep.violation("from_kpoints:random_lattice", dict(recip_lattice=B.tolist(), mp_grid=list(N), deviations=num, neighbours_ok=okn))
    rep.part("numeric_only", random_lattices=nrand, stencils=nr_ok, raised_no_stencil=nr_raise, worst_deviation=worst, tolerance=1e-8)
    return rep.finish()
